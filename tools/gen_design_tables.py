#!/venv/bin/python
"""Regenerate the machine-derived tables of DESIGN.md (section 9 fixed/findings lists, section 12 seeded-change matrix)
between the <!-- BEGIN:x --> / <!-- END:x --> markers."""
import json, os, re
V = "/verif"
kf = json.load(open(f"{V}/KNOWN_FINDINGS.json"))
res = json.load(open(f"{V}/seeded/RESULTS.json")) if os.path.exists(f"{V}/seeded/RESULTS.json") else {}
def esc(s): return str(s).replace("|", "\\|").replace("\n", " ")
fixed = ["| property | /repo commit | what failed before the repair |", "|---|---|---|"]
for f in kf["fixed"]:
    m = re.match(r"fixed: property=(\S+) (\S+) (.*)", f, re.S)
    fixed.append(f"| {m.group(1)} | {m.group(2)} | {esc(m.group(3))} |")
find = ["| property | mechanism key | what fails |", "|---|---|---|"]
for f in kf["findings"]:
    find.append(f"| {f['property']} | `{esc(f['key'])}` | {esc(f['what'])[:420]} |")
seeded = ["| change | property | what it breaks / what it needs | caught by (quick tier) | first violation keys |", "|---|---|---|---|---|"]
for d in sorted(os.listdir(f"{V}/seeded")):
    mp = f"{V}/seeded/{d}/meta.json"
    if not os.path.exists(mp): continue
    m = json.load(open(mp)); r = res.get(d, {})
    caught = ("`./check %s`" % r.get("check")) + (" **detected**" if r.get("detected") else " MISSED") if r else "not run"
    if m.get("retired"):
        caught = "retired: no longer breaks the property on the repaired tree (" + esc(m["retired"].get("short", "neutralised by a repair")) + ")"
    extra = r.get("also_caught_by")
    if extra: caught += "; also " + ", ".join(extra)
    seeded.append(f"| {d} | {m.get('property')} | {esc(m.get('summary',''))[:330]} — needs: {esc(m.get('needs',''))[:220]} | {caught} | {esc(', '.join(r.get('violation_keys', [])[:3]))} |")
p = f"{V}/DESIGN.md"; s = open(p).read()
for name, rows in (("fixed", fixed), ("findings", find), ("seeded", seeded)):
    a, b = f"<!-- BEGIN:{name} -->", f"<!-- END:{name} -->"
    s = s[:s.index(a) + len(a)] + "\n" + "\n".join(rows) + "\n" + s[s.index(b):]
open(p, "w").write(s)
print("tables regenerated:", len(fixed) - 2, "fixed,", len(find) - 2, "findings,", len(seeded) - 2, "seeded changes")
