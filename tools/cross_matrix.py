#!/venv/bin/python
"""Run EVERY quick check against every seeded change (applied to $VERIF_REPO, default /repo; reverted straight after).
usage: cross_matrix.py [CHANGE_ID ...]   writes seeded/CROSS.json {change: {check: rc}} in the current /verif checkout."""
import json, os, subprocess, sys, time
os.environ["VERIF_EVIDENCE_DIR"] = "/tmp/verif_mutant_evidence"  # never clobber the real tree's evidence
HERE = os.path.dirname(os.path.dirname(os.path.abspath(__file__)))
REPO = os.environ.get("VERIF_REPO", "/repo")
SEEDED = os.path.join(HERE, "seeded")
PROPS = [f"C{i:02d}" for i in range(1, 21)]
def sh(cmd, cwd=None, timeout=3600, env=None):
    p = subprocess.run(cmd, shell=True, cwd=cwd, capture_output=True, text=True, timeout=timeout, env=env)
    return p.returncode, p.stdout + p.stderr
def main():
    only = sys.argv[1:]
    out = os.path.join(SEEDED, "CROSS.json")
    res = json.load(open(out)) if os.path.exists(out) else {}
    rc, o = sh("git status --porcelain -- pyxform", cwd=REPO)
    assert o.strip() == "", f"{REPO}/pyxform not clean"
    env = dict(os.environ, VERIF_REPO=REPO)
    for d in sorted(os.listdir(SEEDED)):
        if not os.path.isdir(os.path.join(SEEDED, d)) or (only and d not in only) or (d in res and not only):
            continue
        rc, o = sh(f"git apply {SEEDED}/{d}/patch.diff", cwd=REPO)
        if rc != 0:
            print(d, "patch does not apply"); continue
        row = {}
        try:
            for p in PROPS:
                t = time.time()
                rc, o = sh(f"./check {p} --tier quick", cwd=HERE, env=env)
                row[p] = rc
        finally:
            sh("git checkout -- pyxform", cwd=REPO)
        res[d] = row
        print(d, "caught by:", [p for p, rc in row.items() if rc == 1], "inconclusive:", [p for p, rc in row.items() if rc not in (0, 1)], flush=True)
        json.dump(res, open(out, "w"), indent=1)
main()
