#!/usr/bin/env python3
"""usage: add_fixed.py <PROP> <commit> <what failed>   -- append a 'fixed:' line to KNOWN_FINDINGS.json (suppresses nothing)."""
import json, sys
p = "/verif/KNOWN_FINDINGS.json"
d = json.load(open(p))
line = f"fixed: property={sys.argv[1]} {sys.argv[2]} {sys.argv[3]}"
if line not in d["fixed"]:
    d["fixed"].append(line)
json.dump(d, open(p, "w"), indent=1, ensure_ascii=False)
print(line)
