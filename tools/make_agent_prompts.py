#!/usr/bin/env python3
"""Prepare a round of seeded-change sub-agents: one scratch worktree of /repo and one prompt file per property.
usage: make_agent_prompts.py <k1> <k2> [PROP ...]   (k1,k2 = the two new ids per property)
The prompt holds the property text and the summaries of the changes already produced (so that new ones differ) — nothing else from /verif."""
import json, os, subprocess, sys, glob, shutil
k1, k2 = sys.argv[1], sys.argv[2]
only = sys.argv[3:]
WT = "/tmp/wt"
os.makedirs(f"{WT}/out", exist_ok=True)
shutil.copy("/verif/tools/stable_check.py", f"{WT}/stable_check.py")
props = [json.loads(l) for l in open("/verif/properties.jsonl")]
for p in props:
    pid = p["id"]
    if only and pid not in only:
        continue
    d = f"{WT}/{pid}"
    if os.path.isdir(d):
        subprocess.run(["git", "-C", "/repo", "worktree", "remove", "--force", d])
    subprocess.run(["git", "-C", "/repo", "worktree", "add", "--detach", "-q", d, "HEAD"], check=True)
    os.makedirs(f"{WT}/out/{pid}", exist_ok=True)
    earlier = []
    for m in sorted(glob.glob(f"/verif/seeded/{pid}_*/meta.json")):
        earlier.append("- " + json.load(open(m)).get("summary", "")[:260])
    text = f"""You are helping to evaluate a verification harness for the Python project XLSForm/pyxform (converts XLSForm spreadsheets to ODK XForm XML). You work ONLY inside the scratch git worktree {d} (a checkout of the project at its current HEAD; run Python with /venv/bin/python). Do not read or write anything under /verif or /repo. Write your results only to {WT}/out/{pid}/.

The semantic property under study:

ID: {pid}
Title: {p.get('title','')}
Statement: {p.get('statement','')}
Quantifier: {p.get('quantifier','')}
Why tests can't settle it: {p.get('why_tests_cant', '')}
Code anchors: {json.dumps(p.get('anchors', p.get('code_anchors', [])))}

Task: produce TWO different, realistic source changes to pyxform (each a small edit a developer could plausibly make: a refactor slip, an 'optimisation', a wrong boundary, a dropped special case, a cache keyed too coarsely, a helper reused where its assumptions do not hold, two cooperating sites that each look fine alone) such that
 (a) the project still imports and its existing test suite still passes: check with `/venv/bin/python {WT}/stable_check.py {d}` which must print 'not passing: 0';
 (b) the property above is broken - but only under something SPECIFIC: an unusual input shape, a particular nesting/ordering, a rarely used question type or setting or column, a multi-step sequence of API calls, a specific fault or environment condition, a particular hash seed or thread interleaving, a rare combination of features. Do NOT produce changes that ordinary use of a simple form would expose at once. Think about corners of the property statement (every clause of it) that a workload generator could easily forget.
 (c) each comes with a demonstration program that exits 1 (printing what went wrong) when the change is applied and exits 0 on the unchanged tree. The demo must start with `import sys, os; sys.path.insert(0, os.getcwd())` so that it imports pyxform from the checkout it is run in (cwd), must not need network, and should take < 60 s. Markdown input to convert() needs file_type=".md".

These changes were already produced earlier for this property; yours must be clearly different in mechanism, in the code they touch and in the input feature that exposes them (look for corners nobody has used yet: other question types, other settings, other sheets, other API entry points, other container formats, other combinations):
{chr(10).join(earlier)}

Deliverables (exact names): for k in {k1} and {k2}:
 {WT}/out/{pid}/mutant_k.diff  - `git diff` of the change against HEAD (must apply cleanly with `git apply` on a clean checkout)
 {WT}/out/{pid}/demo_k.py      - the demonstration
 {WT}/out/{pid}/meta_k.json    - {{"property": "{pid}", "summary": "...what the change does...", "needs": "...what is needed for it to manifest...", "files": [...], "ran": ["commands you ran and what they printed"]}}
Procedure for each: make the edit in {d}; run stable_check (must be 0 not passing); run your demo from {d} (must exit 1); `git diff > mutant_k.diff`; `git checkout -- .`; run the demo again on the clean tree (must exit 0); `git apply --check mutant_k.diff`. Leave the worktree clean (git checkout -- .) when you finish. Do not commit anything.
If you notice behaviour on the UNCHANGED tree that already violates the property (or any other conversion that crashes with a non-pyxform exception, silently loses author content, or produces output that contradicts the sheet), write each such observation with a minimal reproducing input and the observed output to {WT}/out/{pid}/unchanged_notes.md (do not use it as your change). Report briefly what you produced.
"""
    open(f"{WT}/prompt_{pid}.txt", "w").write(text)
    print(pid, "prepared;", len(earlier), "earlier summaries")
