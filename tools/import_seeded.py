#!/venv/bin/python
"""Confirm sub-agent mutants in a scratch worktree of /repo HEAD and file the good ones under /verif/seeded/.
For each /tmp/wt/out/<P>/mutant_<i>.diff: applies to clean HEAD? stable tests all pass? demo exits 1 with it and 0 without?"""
import json, os, shutil, subprocess, sys
OUT = "/tmp/wt/out"; WT = "/tmp/wt/verify"; SEEDED = "/verif/seeded"
def sh(cmd, cwd=None, timeout=600):
    p = subprocess.run(cmd, shell=True, cwd=cwd, capture_output=True, text=True, timeout=timeout)
    return p.returncode, (p.stdout + p.stderr)
def main():
    only = sys.argv[1:]
    if os.path.exists(WT):
        sh(f"git -C /repo worktree remove --force {WT}")
    rc, o = sh(f"git -C /repo worktree add -q {WT} HEAD")
    assert rc == 0, o
    try:
        for prop in sorted(os.listdir(OUT)):
            if only and prop not in only: continue
            for i in range(1, 41):
                diff = f"{OUT}/{prop}/mutant_{i}.diff"; demo = f"{OUT}/{prop}/demo_{i}.py"; meta = f"{OUT}/{prop}/meta_{i}.json"
                if not os.path.exists(diff): continue
                dest = f"{SEEDED}/{prop}_{i}"
                if os.path.exists(dest): continue
                res = {"applies": False}
                sh("git checkout -q -- . && git clean -fdq", cwd=WT)
                rc0, o0 = sh(f"/venv/bin/python {demo}", cwd=WT, timeout=300)
                res["demo_clean_rc"] = rc0
                rc, o = sh(f"git apply {diff}", cwd=WT)
                res["applies"] = rc == 0
                if rc == 0:
                    rc1, o1 = sh(f"/venv/bin/python {demo}", cwd=WT, timeout=300)
                    res["demo_mutant_rc"] = rc1
                    rc2, o2 = sh(f"/verif/tools/stable_check.py {WT}", timeout=900)
                    res["stable_rc"] = rc2; res["stable"] = o2.strip().splitlines()[0] if o2.strip() else ""
                ok = res.get("applies") and res.get("demo_clean_rc") == 0 and res.get("demo_mutant_rc") == 1 and res.get("stable_rc") == 0
                print(prop, i, "CONFIRMED" if ok else "REJECTED", res)
                if ok:
                    os.makedirs(dest, exist_ok=True)
                    shutil.copy(diff, f"{dest}/patch.diff"); shutil.copy(demo, f"{dest}/demo.py")
                    m = json.load(open(meta)) if os.path.exists(meta) else {}
                    m["confirmed_by_main"] = {"base": subprocess.run("git -C /repo rev-parse --short HEAD", shell=True, capture_output=True, text=True).stdout.strip(),
                                              "ran": ["git apply patch.diff (clean scratch worktree of /repo HEAD)", f"tools/stable_check.py -> {res['stable']}",
                                                      "demo.py with patch -> exit 1", "demo.py without patch -> exit 0"]}
                    json.dump(m, open(f"{dest}/meta.json", "w"), indent=1)
    finally:
        sh(f"git -C /repo worktree remove --force {WT}")
main()
