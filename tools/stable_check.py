#!/venv/bin/python
"""Run the pinned test suite in a checkout of pyxform and report every test of the
stable baseline (BASELINE.json: stable_pass) that does not pass there.
usage: stable_check.py <checkout-dir>      exit 0 iff all stable tests pass."""
import json, os, subprocess, sys, tempfile
import xml.etree.ElementTree as ET

def main():
    wt = os.path.abspath(sys.argv[1])
    base = json.load(open("/root/.vp/BASELINE.json"))
    stable = set(base["stable_pass"])
    fd, junit = tempfile.mkstemp(suffix=".xml"); os.close(fd)
    env = dict(os.environ); env.pop("PYXFORM_VERIF", None)
    p = subprocess.run(["/venv/bin/python", "-m", "pytest", "-q", "-p", "no:cacheprovider",
                        "--timeout=900", "--continue-on-collection-errors", "-n", "8",
                        f"--junitxml={junit}"], cwd=wt, env=env, capture_output=True, text=True)
    passed = set()
    try:
        for tc in ET.parse(junit).getroot().iter("testcase"):
            bad = any(c.tag in ("failure", "error", "skipped") for c in tc)
            if not bad:
                passed.add(f"{tc.get('classname')}::{tc.get('name')}")
    finally:
        os.unlink(junit)
    missing = sorted(stable - passed)
    print(f"stable baseline tests: {len(stable)}; passing here: {len(stable & passed)}; not passing: {len(missing)}")
    for m in missing[:50]:
        print("  NOT PASSING:", m)
    sys.exit(1 if missing else 0)
main()
