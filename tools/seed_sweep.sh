#!/bin/bash
# usage: seed_sweep.sh <tier> <seed> [<seed> ...]   runs every check of MANIFEST on $VERIF_REPO (default /repo) for each seed;
# evidence goes to a scratch dir so evidence/ keeps describing the registered runs. Prints one line per run and every VIOLATION/INCONCLUSIVE line.
tier="$1"; shift
cd "$(dirname "$0")/.." || exit 3
export VERIF_EVIDENCE_DIR=$(mktemp -d /tmp/sweep_ev.XXXX)
[ -n "$VP_RUN_REPO" ] && export VERIF_REPO="$VP_RUN_REPO"
bad=0
for s in "$@"; do
  for p in ${PROPS:-C01 C02 C03 C04 C05 C06 C07 C08 C09 C10 C11 C12 C13 C14 C15 C16 C17 C18 C19 C20}; do
    out=$(./check "$p" --tier "$tier" --seed "$s" 2>&1); rc=$?
    echo "== $p tier=$tier seed=$s rc=$rc $(echo "$out" | grep '^\['"$p"'\] tier' | sed 's/.*verdict=//')"
    if [ $rc -ne 0 ]; then bad=$((bad+1)); echo "$out" | grep -A1 -E '^(VIOLATION|INCONCLUSIVE)' | head -12; fi
  done
done
rm -rf "$VERIF_EVIDENCE_DIR"
echo "sweep done: $bad runs with rc != 0"
