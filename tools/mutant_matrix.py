#!/venv/bin/python
"""Run the quick check of each seeded mutant's property with the mutant applied to /repo (reverted straight after).
usage: mutant_matrix.py [PROP ...]   writes /verif/seeded/RESULTS.json"""
import json, os, subprocess, sys, time
os.environ["VERIF_EVIDENCE_DIR"] = os.environ.get("MM_EVIDENCE", "/tmp/verif_mutant_evidence")  # never clobber the real tree's evidence
SEEDED = "/verif/seeded"
REPO = os.environ.get("VERIF_REPO", "/repo")  # a scratch clone may stand in, so /repo stays free for other work
def sh(cmd, cwd=None, timeout=3600):
    p = subprocess.run(cmd, shell=True, cwd=cwd, capture_output=True, text=True, timeout=timeout)
    return p.returncode, p.stdout + p.stderr
def main():
    only = sys.argv[1:]
    resf = os.environ.get("MM_RESULTS", f"{SEEDED}/RESULTS.json")
    res = json.load(open(resf)) if os.path.exists(resf) else {}
    rc, o = sh("git status --porcelain -- pyxform", cwd=REPO)
    assert o.strip() == "", f"{REPO}/pyxform not clean"
    for d in sorted(os.listdir(SEEDED)):
        if not os.path.isdir(f"{SEEDED}/{d}"): continue
        prop = d.split("_")[0]
        if only and prop not in only and d not in only: continue
        if not os.path.exists(f"/verif/vlib/monitors/{prop}.py"): continue
        try:
            if json.load(open(f"{SEEDED}/{d}/meta.json")).get("retired"):
                res[d] = {"check": prop, "retired": True}; print(d, "RETIRED"); continue
        except Exception: pass
        rc, o = sh(f"git apply {SEEDED}/{d}/patch.diff", cwd=REPO)
        if rc != 0:
            print(d, "patch does not apply", o[:200]); continue
        try:
            t = time.time()
            rc, o = sh(f"./check {prop} --tier {os.environ.get('TIER','quick')}", cwd="/verif")
        finally:
            sh("git checkout -- pyxform", cwd=REPO)
        keys = sorted({l.split("key=")[1].split(" ")[0] for l in o.splitlines() if l.strip().startswith("key=")})
        res[d] = {"check": prop, "rc": rc, "detected": rc == 1, "violation_keys": keys[:6], "wall_s": round(time.time() - t, 1)}
        print(d, "DETECTED" if rc == 1 else f"MISSED(rc={rc})", keys[:3])
        json.dump(res, open(resf, "w"), indent=1)
main()
