#!/venv/bin/python
"""Regenerate MANIFEST.json from the monitors that exist (claimed) and the rest (not_applicable with reason)."""
import importlib, json, os, sys
VERIF = os.path.dirname(os.path.dirname(os.path.abspath(__file__)))
sys.path[:0] = ["/repo", VERIF, os.path.join(VERIF, ".deps")]
props = [json.loads(l) for l in open(os.path.join(VERIF, "properties.jsonl"))]
NOTES = json.load(open(os.path.join(VERIF, "tools", "manifest_notes.json")))
checks, na = [], []
for p in props:
    pid = p["id"]
    path = os.path.join(VERIF, "vlib", "monitors", pid + ".py")
    if not os.path.exists(path) or pid in NOTES.get("not_applicable", {}):
        na.append({"property_id": pid, "reason": NOTES.get("not_applicable", {}).get(pid, "check not built yet in this round (no claim made)")})
        continue
    m = importlib.import_module("vlib.monitors." + pid)
    n = NOTES["checks"].get(pid, {})
    checks.append({
        "property_id": pid,
        "quick_cmd": f"./check {pid} --tier quick",
        "thorough_cmd": f"./check {pid} --tier thorough",
        "evidence_file": f"/verif/evidence/{pid}.json",
        "replay_cmd_template": f"./check {pid} --replay {{path}}",
        "engine": "vlib",
        "level_claimed": {"category": getattr(m, "LEVEL", "exploration"), "text": n.get("text", (m.__doc__ or "").strip().split("\n\n")[0]), "design_ref": n.get("design_ref", f"DESIGN.md section 3, {pid}")},
        "level_note": n.get("note", "; ".join(getattr(m, "ASSUMPTIONS", [])) or "held on the executions observed; trusted base: expat, lxml, CPython"),
        "technique": getattr(m, "TECHNIQUE", "runtime monitoring"),
    })
man = {
    "version": 1,
    "setup_cmd": "/venv/bin/pip install -q --no-index --find-links /opt/veriftools/wheels --target /verif/.deps icontract && /venv/bin/python -c \"import sys; sys.path[:0]=['/repo','/verif','/verif/.deps']; import icontract, lxml, openpyxl, xlrd, pyxform; import vlib.selftest as s; s.main()\"",
    "hooks": {"guard": "PYXFORM_VERIF", "enable": "no source hooks: all instrumentation is attached from the harness at import time (vlib/hooks.py: icontract contracts, cache shadows, audit hook) when PYXFORM_VERIF=1; /repo is imported from its working tree, nothing to build",
              "baseline_off_cmd": "cd /repo && /venv/bin/python -m pytest -ra -q -p no:cacheprovider --timeout=900 --continue-on-collection-errors",
              "source_commits": [], "add_only": True},
    "engines": [{"name": "vlib", "path": "/verif/vlib", "serves_properties": [c["property_id"] for c in checks],
                 "kind_free_text": "runtime monitoring: generated/hostile/fault-injected workloads run through the real converter in sharded subprocesses; output monitors, reference-model monitors, differential/metamorphic relations, history checkers, icontract hooks"}],
    "checks": checks,
    "not_applicable": na,
    "notes": NOTES.get("notes", ""),
}
json.dump(man, open(os.path.join(VERIF, "MANIFEST.json"), "w"), indent=1)
print(len(checks), "checks;", len(na), "not claimed")
