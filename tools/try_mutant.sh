#!/bin/bash
# usage: try_mutant.sh <patch.diff> <PROP> [more props...]   -- applies the patch to /repo, runs quick checks, reverts.
patch="$1"; shift
export VERIF_EVIDENCE_DIR=/tmp/verif_mutant_evidence
cd /repo || exit 9
if [ -n "$(git status --porcelain -- pyxform)" ]; then echo "/repo/pyxform not clean"; exit 9; fi
git apply "$patch" || { echo "patch does not apply"; exit 9; }
trap 'git -C /repo checkout -- pyxform' EXIT
for p in "$@"; do
  out=$(cd /verif && ./check "$p" --tier "${TIER:-quick}" 2>&1)
  rc=$?
  echo "== $p rc=$rc: $(echo "$out" | grep -c '^VIOLATION') VIOLATION lines"
  echo "$out" | grep -A1 '^VIOLATION' | head -${LINES_SHOWN:-6}
  echo "$out" | tail -2 | head -1
done
