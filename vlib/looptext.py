"""Legacy 'begin loop over <list>': what each copy of a looped question shows, per language (shared by C06 and C08).

The template cells of the looped questions carry %(label)s / %(name)s; each copy must show the template with the placeholders filled
in from *its* choice, in *that* language, the rest of the text untouched (hostile characters, a ${reference} next to the placeholder).
"""
from __future__ import annotations

from . import drive, xf

PH = "￼"


def _shown(p, el, lang):
    """Text a user of `lang` sees for a label/hint element: inline content or the long form of the itext entry. None = nothing there."""
    ref = el.get("ref")
    if ref:
        tid = xf.itext_id(ref)
        trs, _ = p.itext()
        for lg, _d, texts, _dups in trs:
            if lg == lang or (lang is None and len(trs) == 1):
                for form, segs in texts.get(tid, []):
                    if form is None:
                        return segs
                return None
        return None
    return xf.content_segments(el)


def _flat(segs):
    s = "".join(v if k == "t" else (PH if k == "o" else "<" + v + ">") for k, v in segs)
    if any(k == "o" for k, _ in segs):
        # the writer pads mixed content with one space at either end
        if s.startswith(" "):
            s = s[1:]
        if s.endswith(" "):
            s = s[:-1]
    return s


def cases(rng, hostile_frag):
    """Yield (sheets, expectations, signature). expectations: list of (ref, kind 'label'|'hint', lang|None, expected flat text)."""
    for langs in ([], ["en", "fr"], ["English (en)", "French (fr)", "Swahili (sw)"]):
        for with_ref in (False, True):
            for n_choices in (2, 3):
                names = ["car", "bus", "tuk"][:n_choices]
                frag = hostile_frag()
                lab = {nm: {lg: f"{frag} {nm.upper()}.{(lg or 'x')[:2]} & <{nm}>" for lg in (langs or [None])} for nm in names}
                tmpl_l = {lg: f"How many %(label)s{' for ${who}' if with_ref else ''} [{(lg or 'x')[:2]}] 100% %(name)s?" for lg in (langs or [None])}
                tmpl_h = {lg: f"%(label)s only{' ${who}' if with_ref else ''}" for lg in (langs or [None])}
                hl = [f"label::{lg}" for lg in langs] if langs else ["label"]
                hh = [f"hint::{lg}" for lg in langs] if langs else ["hint"]
                sh = ["type", "name"] + hl + hh
                rows = [["text", "who"] + ["Who"] * len(hl) + [None] * len(hh),
                        ["begin loop over veh", "lp"] + ["Loop"] * len(hl) + [None] * len(hh),
                        ["integer", "cnt"] + [tmpl_l[lg] for lg in (langs or [None])] + [tmpl_h[lg] for lg in (langs or [None])],
                        ["end loop", None] + [None] * (len(hl) + len(hh))]
                ch = ["list_name", "name"] + hl
                crows = [["veh", nm] + [lab[nm][lg] for lg in (langs or [None])] for nm in names]
                sheets = {"survey": (sh, rows), "choices": (ch, crows)}
                exp = []
                for nm in names:
                    for lg in (langs or [None]):
                        fill = lambda t: t.replace("%(label)s", lab[nm][lg]).replace("%(name)s", nm).replace("${who}", PH)  # noqa: E731
                        exp.append((f"/data/lp/{nm}/cnt", "label", lg, fill(tmpl_l[lg])))
                        exp.append((f"/data/lp/{nm}/cnt", "hint", lg, fill(tmpl_h[lg])))
                yield sheets, exp, f"loop-text|{len(langs)}langs|{'ref' if with_ref else 'plain'}|{n_choices}"
    # language mismatches between the looped questions and the list: whatever is shown, it is text an author could have written - never a Python repr
    for tl, cl in ((["en", "fr"], ["en"]), ([], ["en", "fr"]), (["en"], []), (["en", "fr"], ["fr", "de"])):
        hl = [f"label::{lg}" for lg in tl] if tl else ["label"]
        chl = [f"label::{lg}" for lg in cl] if cl else ["label"]
        sheets = {"survey": (["type", "name"] + hl, [["begin loop over veh", "lp"] + ["Loop"] * len(hl), ["integer", "cnt"] + ["How many %(label)s (%(name)s)?"] * len(hl),
                                                         ["end loop", None] + [None] * len(hl)]),
                  "choices": (["list_name", "name", "type", "kind"] + chl, [["veh", "car", "road", "k1"] + [f"Car.{h[-2:]}" for h in chl], ["veh", "bus", "road", "k2"] + [f"Bus.{h[-2:]}" for h in chl]])}
        yield sheets, [], f"loop-text|mismatch|{len(tl)}|{len(cl)}"
        # ... and a choice without any label at all (a warning, not a reason to fail)
        s2 = {"survey": sheets["survey"], "choices": (sheets["choices"][0], sheets["choices"][1] + [["veh", "tuk", "road", "k3"] + [None] * len(chl)])}
        yield s2, [], f"loop-text|unlabeled-choice|{len(tl)}|{len(cl)}"


def judge(sheets, exp):
    """-> (outcome, [(key, message)])"""
    o = drive.convert_sheets(sheets)
    if not o.ok:
        return o, [("loop-text:rejected", f"a loop over a translated/hostile list was refused: {o.brief()}")]
    try:
        p = xf.Parsed(o.xform)
    except xf.XFError as e:
        return o, [("loop-text:output-not-wellformed", str(e)[:200])]
    out = []
    import re
    m = re.search(r">([^<]*\{'[^'<]*': '[^<]*)<", o.xform)
    if m:
        out.append(("loop-text:python-repr-in-output", f"a Python dict repr is written into the form: {m.group(1)[:120]!r}"))
    ctl = {el.get("ref"): el for el in p.body.iter() if isinstance(el.tag, str) and el.get("ref")}
    for ref, kind, lang, want in exp:
        c = ctl.get(ref)
        if c is None:
            out.append(("loop-text:control-missing", f"no control for {ref}"))
            continue
        el = next((x for x in c if isinstance(x.tag, str) and xf.local(x.tag) == kind), None)
        segs = _shown(p, el, lang) if el is not None else None
        got = _flat(segs) if segs is not None else None
        w = " ".join(want.split())
        g = " ".join(got.split()) if got is not None else None
        if g != w:
            other = "another-language" if g is not None and any(g == " ".join(w2.split()) for r2, k2, l2, w2 in exp if r2 == ref and k2 == kind and l2 != lang) else \
                    ("another-copy" if g is not None and any(g == " ".join(w2.split()) for r2, k2, l2, w2 in exp if r2 != ref and k2 == kind and l2 == lang) else "wrong-text")
            out.append((f"loop-text:{kind}:{other}", f"{ref} {kind} for language {lang!r} shows {got!r}; the template filled in for this copy and language is {want!r}"))
    return o, out
