"""Shared helpers for monitors."""
from __future__ import annotations

import hashlib
import json
import os
import random

from . import gen
from .model import Form, sheets_to_md

LANGSETS = [[], [], ["English (en)", "French (fr)"], ["en", "fr", "de"], ["Español (es)"], ["English (en)", "Swahili (sw)", "Amharic (am)"]]


def rich_cfg(rng, **over):
    """A feature-rich W-core configuration, diversified per case."""
    cfg = dict(
        langs=rng.choice(LANGSETS),
        p_or_other=rng.choice([0, 0.2]), p_choice_filter=rng.choice([0, 0.3]), p_randomize=rng.choice([0, 0.2]),
        p_guidance=rng.choice([0, 0.25]), p_media=rng.choice([0, 0.25]), p_trigger=rng.choice([0, 0.2]),
        p_choice_media=rng.choice([0, 0.2]), p_bind_extra=rng.choice([0, 0.1]), p_instance_extra=rng.choice([0, 0.1]),
        audit=rng.choice([0, 0.2]), max_depth=rng.choice([2, 3, 4, 5]), n_rows=rng.choice([(2, 6), (4, 14), (10, 30)]),
        p_repeat=rng.choice([0.08, 0.14, 0.25]), p_group=rng.choice([0.1, 0.18, 0.25]),
        name_style=rng.choice(["plain", "adv", "mixed"]),
        p_sparse=rng.choice([0.0, 0.3, 0.6]), unsuffixed_too=rng.choice([0.0, 0.3, 0.7]),
        delim=rng.choice(["::", "::", ":"]),
    )
    cfg.update(over)
    return cfg


def feature_sig(form: Form, extra=()):
    """Feature signature of a form: what kinds of things it contains (not the random names)."""
    types = set()
    depth = 0
    nrep = ngrp = 0
    cols = set()
    nest = set()
    for r, anc in form.walk():
        depth = max(depth, len(anc))
        if r.kind == "repeat":
            nrep += 1
        elif r.kind == "group":
            ngrp += 1
        else:
            types.add((r.type or "").split(" ")[0])
        nest.add("".join(a.kind[0] for a in anc)[:6])
        for h in r.cells:
            cols.add(h.split(":")[0])
    nl = len(form.meta.get("langs", []))
    s = (tuple(sorted(types)), min(depth, 6), min(nrep, 4), min(ngrp, 4), tuple(sorted(cols)), nl, tuple(sorted(nest)),
         tuple(sorted(form.settings)), tuple(extra))
    return hashlib.sha1(repr(s).encode()).hexdigest()[:16]


def witness(form: Form, **extra):
    w = {"form": form.to_json(), "md": sheets_to_md(form.to_sheets())}
    w.update(extra)
    return w


def form_from_witness(w):
    return Form.from_json(w["form"])


class ReplayCtx:
    """Stand-in for worker.Ctx used by --replay: prints instead of logging."""

    def __init__(self, prop, seed=0, tier="quick"):
        self.prop, self.seed, self.tier, self.shard, self.nshards = prop, seed, tier, 0, 1
        self.viols = []

    def rng(self, *salt):
        return random.Random(f"{self.prop}|{self.seed}|" + "|".join(str(s) for s in salt))

    def mine(self, i):
        return True

    def case(self, sig=None, n=1):
        pass

    def viol(self, key, what, witness=None):
        self.viols.append((key, what))
        print(f"  reproduced: key={key} :: {what[:600]}")

    def ctr(self, k, n=1):
        pass

    def sample(self, v, force=False):
        pass

    def obs(self, **kw):
        pass


def replay_with(prop, w, check_form):
    ctx = ReplayCtx(prop, seed=w.get("seed", 0))
    wit = w.get("witness") or {}
    print(f"replaying {prop} key={w.get('key')}")
    if "md" in wit:
        print(wit["md"])
    check_form(ctx, wit)
    if ctx.viols:
        print(f"VIOLATION property={prop} replay=(this file)")
        return 1
    print("not reproduced on the current tree")
    return 0


def fixture_files(exts=(".xls", ".xlsx", ".csv", ".md")):
    root = os.path.join(os.environ.get("VERIF_REPO", "/repo"), "tests")
    out = []
    for d, _, fs in os.walk(root):
        for f in sorted(fs):
            if os.path.splitext(f)[1].lower() in exts:
                out.append(os.path.join(d, f))
    return sorted(out)
