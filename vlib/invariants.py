"""Output invariants over one produced XForm (deciding oracles of C01, C02, C07, C15).

Each function returns a list of (mechanism_key, human_text). Empty list = held.
"""
from __future__ import annotations

import re

from . import xf as X

Q = X.q


# ============================================================================ C01
def c01_wellformed(text, expect_id=None):
    try:
        p = X.Parsed(text)
    except X.XFError as e:
        d = e.detail
        cls = re.sub(r"line \d+, column \d+", "line N, column N", d)
        cls = re.sub(r"\d+", "N", cls)
        return None, [(f"{e.kind}:{cls}"[:120], f"{e.kind}: {d}")]
    v = []
    if not text.startswith('<?xml version="1.0"?>'):
        v.append(("decl:missing", "no XML declaration at start"))
    if expect_id is not None and p.primary.get("id") != expect_id:
        v.append(("skeleton:form-id", f"primary instance id {p.primary.get('id')!r} != expected {expect_id!r}"))
    return p, v


# ============================================================================ C02
_REF_SKIP = {"label", "hint", "value", "output", "itemset", "item", "tag"}
_ACTIONS = {Q(X.XF, "setvalue"), Q(X.ODK, "setgeopoint"), Q(X.ODK, "recordaudio")}


def c02_closure(p: X.Parsed):
    v = []
    # --- sibling uniqueness in primary instance
    def sib(el):
        groups = {}
        for ch in el:
            if isinstance(ch.tag, str):
                groups.setdefault(p.qname(ch), []).append(ch)
        for name, els in groups.items():
            if len(els) == 1:
                continue
            tmpl = [e for e in els if p.is_template(e)]
            if len(els) == 2 and len(tmpl) == 1 and els[0] is tmpl[0]:
                continue
            v.append(("instance:duplicate-sibling", f"{len(els)} siblings named {name!r} under {p.path_of(el)} ({len(tmpl)} templates)"))
        for ch in el:
            if isinstance(ch.tag, str):
                sib(ch)

    sib(p.primary)
    # --- binds
    seen = {}
    for b in p.binds():
        ns = b.get("nodeset")
        if ns is None:
            v.append(("bind:no-nodeset", "bind without nodeset"))
            continue
        if ns in seen:
            v.append(("bind:duplicate-nodeset", f"node {ns} bound twice"))
        seen[ns] = b
        if not ns.startswith("/"):
            v.append(("bind:relative-nodeset", f"bind nodeset {ns!r} is not absolute"))
            continue
        if not p.resolve(ns):
            kind = "attr" if "/@" in ns else "node"
            v.append((f"bind:unresolved-{kind}", f"bind nodeset {ns!r} names no instance node"))
    # --- body controls and actions
    ctl_refs = {}
    for el in p.body.iter():
        if not isinstance(el.tag, str):
            continue
        t = X.local(el.tag)
        if t in _REF_SKIP:
            continue
        par = el.getparent()
        if par is not None and X.local(par.tag) in ("itemset", "item"):
            continue
        ref = el.get("ref")
        attr = "ref"
        if t == "repeat":
            ref = el.get("nodeset")
            attr = "nodeset"
        if ref is None:
            if t in ("input", "select", "select1", "upload", "trigger", "range", "rank", "repeat", "setvalue", "setgeopoint", "recordaudio"):
                v.append((f"body:{t}-without-{attr}", f"<{t}> without {attr}"))
            continue
        if not ref.startswith("/"):
            v.append((f"body:relative-{attr}:{t}", f"<{t} {attr}={ref!r}> is not absolute"))
            continue
        if not p.resolve(ref):
            v.append((f"body:unresolved-{attr}:{t}", f"<{t} {attr}={ref!r}> names no instance node"))
        if el.tag in _ACTIONS:
            continue
        prev = ctl_refs.get(ref)
        if prev is not None:
            # legal only: group wrapper + its direct child repeat
            ok = (X.local(prev.tag) == "group" and t == "repeat" and el.getparent() is prev)
            if not ok:
                v.append(("body:duplicate-ref", f"two controls share ref {ref!r}: <{X.local(prev.tag)}> and <{t}>"))
        else:
            ctl_refs[ref] = el
    for a in p.model_actions():
        ref = a.get("ref")
        t = X.local(a.tag)
        if ref is None or not ref.startswith("/"):
            v.append((f"model:action-ref-not-absolute:{t}", f"<{t} ref={ref!r}>"))
        elif not p.resolve(ref):
            v.append((f"model:unresolved-ref:{t}", f"<{t} ref={ref!r}> names no instance node"))
    return v


# ============================================================================ C07
_MSG_ATTRS = ("constraintMsg", "requiredMsg", "noAppErrorString")


def c07_collect_refs(p: X.Parsed):
    refs = []  # (where, id)
    for el in p.body.iter():
        if not isinstance(el.tag, str):
            continue
        t = X.local(el.tag)
        if t in ("label", "hint"):
            r = el.get("ref")
            if r is not None:
                i = X.itext_id(r)
                if i is not None:
                    refs.append((f"body:{t}", i))
    for b in p.binds():
        for a in _MSG_ATTRS:
            val = b.get(Q(X.JR, a))
            if val is not None:
                i = X.itext_id(val)
                if i is not None:
                    refs.append((f"bind:{a}", i))
    for inst in p.secondary:
        for it in inst.iter(Q(X.XF, "itextId")):
            refs.append(("choice:itextId", (it.text or "")))
    return refs


def c07_itext(p: X.Parsed, default_language=None):
    v = []
    trs, n_itext = p.itext()
    if n_itext > 1:
        v.append(("itext:multiple-blocks", f"{n_itext} itext blocks"))
    langs = [t[0] for t in trs]
    if len(set(langs)) != len(langs):
        v.append(("itext:duplicate-language", f"languages {langs}"))
    for lang, dflt, texts, dups in trs:
        if dups:
            v.append(("itext:duplicate-id", f"translation {lang!r} repeats ids {dups[:3]}"))
    if trs:
        allids = set()
        for _, _, texts, _ in trs:
            allids |= set(texts)
        for lang, _, texts, _ in trs:
            miss = allids - set(texts)
            if miss:
                v.append(("itext:id-sets-differ", f"translation {lang!r} lacks {sorted(miss)[:3]} present in another translation"))
    marked = [t[0] for t in trs if t[1] is not None]
    if len(marked) > 1:
        v.append(("itext:multiple-default", f"default marked on {marked}"))
    for t in trs:
        if t[1] is not None and t[1] != "true()":
            v.append(("itext:default-flag-value", f"default={t[1]!r}"))
    if default_language is not None and default_language in langs:
        if marked != [default_language]:
            v.append(("itext:default-not-marked", f"default language {default_language!r} is a translation but marked={marked}"))
    refs = c07_collect_refs(p)
    for where, i in refs:
        if not trs:
            v.append((f"ref-dangling:{where}:no-itext", f"{where} references itext id {i!r} but the form has no itext block"))
            continue
        for lang, _, texts, _ in trs:
            if i not in texts:
                v.append((f"ref-dangling:{where}", f"{where} references itext id {i!r} missing from translation {lang!r}"))
                break
    return v, len(refs), len(trs)


# ============================================================================ C15
def _norm(el):
    """Canonical nested structure with inter-element whitespace-only text dropped."""
    kids = [c for c in el if isinstance(c.tag, str)]
    comments = [c for c in el if not isinstance(c.tag, str)]
    attrs = tuple(sorted(el.attrib.items()))
    nsmap = tuple(sorted((k or "", v) for k, v in el.nsmap.items()))
    if not kids and not comments:
        return (el.tag, attrs, nsmap, ("T", el.text or ""))
    content = []
    pieces = [el.text] + [x for c in el for x in (c, c.tail)]
    for pc in pieces:
        if pc is None:
            continue
        if isinstance(pc, str):
            if pc.strip(" \t\r\n") == "":
                continue
            content.append(("T", pc))
        elif isinstance(pc.tag, str):
            content.append(_norm(pc))
        else:
            content.append(("C", pc.text))
    return (el.tag, attrs, nsmap, tuple(content))


def _first_diff(a, b, path=""):
    if a == b:
        return None
    if not (isinstance(a, tuple) and isinstance(b, tuple) and len(a) == 4 and len(b) == 4 and isinstance(a[0], str) and a[0] not in ("T", "C")):
        return f"{path}: {a!r} != {b!r}"[:400]
    if a[0] != b[0]:
        return f"{path}: tag {a[0]} != {b[0]}"
    here = f"{path}/{X.local(a[0])}"
    if a[1] != b[1]:
        return f"{here}: attributes {dict(a[1])} != {dict(b[1])}"[:400]
    if a[2] != b[2]:
        return f"{here}: namespaces differ"
    ca, cb = a[3], b[3]
    if isinstance(ca, tuple) and ca and ca[0] == "T" and len(ca) == 2 and isinstance(ca[1], str):
        return f"{here}: text {ca!r} != {cb!r}"[:400]
    if len(ca) != len(cb):
        return f"{here}: {len(ca)} content pieces (compact) vs {len(cb)} (pretty): {ca!r} vs {cb!r}"[:500]
    for x, y in zip(ca, cb):
        d = _first_diff(x, y, here)
        if d:
            return d
    return f"{here}: differ"


def c15_same_document(compact_text, pretty_text):
    try:
        a = X.Parsed(compact_text, check_skeleton=False)
        b = X.Parsed(pretty_text, check_skeleton=False)
    except X.XFError as e:
        return [("unparseable", str(e))]
    na, nb = _norm(a.root), _norm(b.root)
    if na == nb:
        return []
    d = _first_diff(na, nb)
    cls = "text" if ": text " in (d or "") else ("attrs" if "attributes" in (d or "") else "structure")
    m = re.search(r"/(\w+): ", d or "")
    return [(f"pretty-differs:{cls}:{m.group(1) if m else '?'}", d)]


# ----------------------------------------------------------------------------- form-independent clauses of C03 / C09 / C10 (W-suite)
def c03_tokens(p: X.Parsed):
    """No ${...} token survives; whatever reads instance('__last-saved') has that instance declared exactly once."""
    v = []
    uses = False
    for el in p.root.iter():
        if not isinstance(el.tag, str):
            continue
        for k, val in el.attrib.items():
            if "${" in val:
                v.append(("token-survives:attribute", f"'${{' survives in @{X.local(k)}={val[:80]!r} on <{X.local(el.tag)}>"))
            if "instance('__last-saved')" in val:
                uses = True
        if (el.text and "${" in el.text) or (el.tail and "${" in el.tail):
            v.append(("token-survives:text", f"'${{' survives in text of/after <{X.local(el.tag)}>"))
    if uses:
        decl = [i for i in p.secondary if i.get("id") == "__last-saved"]
        if len(decl) != 1 or decl[0].get("src") != "jr://instance/last-saved":
            v.append(("last-saved:instance-not-declared", f"paths into instance('__last-saved') are emitted but the instance is declared {len(decl)} times"))
    return v[:6]


def c09_instances(p: X.Parsed):
    """Secondary instance ids are unique; every itemset that reads instance('x') finds a declared instance x."""
    import re as _re
    v = []
    ids = [i.get("id") for i in p.secondary]
    for d in sorted({x for x in ids if ids.count(x) > 1}, key=str):
        v.append(("instance-id:duplicate", f"instance id {d!r} is declared {ids.count(d)} times"))
    for el in p.body.iter():
        if isinstance(el.tag, str) and X.local(el.tag) == "itemset":
            for m in _re.finditer(r"instance\('([^']+)'\)", el.get("nodeset") or ""):
                if m.group(1) not in ids:
                    v.append(("itemset:reads-undeclared-instance", f"itemset nodeset {el.get('nodeset')!r} reads instance {m.group(1)!r}, which is not declared"))
    return v[:6]


def c10_actions(p: X.Parsed):
    """Per target node: at most one first-load setvalue; a node that has one carries no literal content."""
    v = []
    first = {}
    for el in list(p.model.iter()) + list(p.body.iter()):
        if isinstance(el.tag, str) and X.local(el.tag) == "setvalue" and (el.get("event") or "").startswith("odk-instance-first-load"):
            first.setdefault(el.get("ref"), []).append(el)
    for ref, els in first.items():
        if len(els) > 1:
            v.append(("default:setvalue-duplicated", f"{ref}: {len(els)} first-load setvalue actions"))
        try:
            nodes = p.resolve(ref)
        except Exception:  # noqa: BLE001
            nodes = []
        def content(n):
            if isinstance(n, tuple):  # an attribute target: (element, attribute name)
                return (n[0].get(n[1]) or "") if len(n) == 2 and hasattr(n[0], "get") else ""
            return n.text or ""
        if any(content(n).strip() for n in nodes):
            v.append(("default:literal-and-setvalue", f"{ref}: literal content in the instance and a first-load setvalue as well"))
    return v[:6]
