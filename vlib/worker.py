"""One shard of one property's workload: python -m vlib.worker PROP TIER SEED SHARD NSHARDS OUT"""
from __future__ import annotations

import importlib
import json
import os
import random
import sys
import traceback


SUITE_PROPS = ("C01", "C02", "C03", "C07", "C09", "C10", "C14", "C15", "C16")  # output-invariant checks also judge the repository's own test forms (W-suite)


class Ctx:
    def __init__(self, prop, tier, seed, shard, nshards, out):
        self.prop, self.tier, self.seed, self.shard, self.nshards = prop, tier, seed, shard, nshards
        self._fh = open(out, "w", encoding="utf-8", errors="backslashreplace")
        self._nsamples = 0
        self._ctr = {}
        self._nviol = {}

    def rng(self, *salt):
        return random.Random(f"{self.prop}|{self.seed}|" + "|".join(str(s) for s in salt))

    def mine(self, i):
        return i % self.nshards == self.shard

    def _w(self, rec):
        self._fh.write(json.dumps(rec, ensure_ascii=False, default=str) + "\n")

    def case(self, sig=None, n=1):
        self._w({"t": "case", "sig": sig, "n": n})

    def viol(self, key, what, witness=None):
        # cap identical keys per shard to keep logs small
        c = self._nviol.get(key, 0)
        self._nviol[key] = c + 1
        if c < 5:
            self._w({"t": "viol", "key": key, "what": what, "witness": witness})
        else:
            self.ctr("viol_suppressed")

    def ctr(self, k, n=1):
        self._ctr[k] = self._ctr.get(k, 0) + n

    def sample(self, v, force=False):
        if self._nsamples < 2 or force:
            self._nsamples += 1
            self._w({"t": "sample", "v": v})

    def obs(self, **kw):
        kw["t"] = "obs"
        self._w(kw)

    def close(self):
        for k, n in self._ctr.items():
            self._w({"t": "ctr", "k": k, "n": n})
        self._w({"t": "done"})
        self._fh.close()


def main():
    prop, tier, seed, shard, nshards, out = sys.argv[1:7]
    ctx = Ctx(prop, tier, int(seed), int(shard), int(nshards), out)
    mon = importlib.import_module(f"vlib.monitors.{prop}")
    try:
        mon.run_shard(ctx)
        if prop in SUITE_PROPS and ctx.shard == ctx.nshards - 1:
            from . import suite
            suite.run_suite(ctx, prop)
    except Exception:
        traceback.print_exc()
        ctx._w({"t": "ctr", "k": "worker_exception", "n": 1})
        ctx._fh.close()
        sys.exit(2)
    ctx.close()


if __name__ == "__main__":
    main()
