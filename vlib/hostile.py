"""Hostile alphabets for text-bearing cells (W-text) and names (W-names)."""
from __future__ import annotations

FRAGS = [
    "<", ">", "&", '"', "'", "]]>", "<!--", "-->", "&amp;", "&#60;", "&lt;", "&gt;", "&quot;", "&apos;", "&#x41;",
    "<![CDATA[x]]>", '<output value="/data/x"/>', "<b>bold</b>", "</label>", "<label>", "<?pi x?>", "{", "}", "$", "$ {",
    "}}", "{x}", "a<b", "a>b", "1 < 2 & 3 > 2", "x=\"1\"", "x='1'", "&&", "&;", "&#;", "&#xZZ;", "%s", "%(name)s", "\\", "\\n",
    "#", "##", "| ", "\u00e9", "\u00fc", "\u05d0\u05d1", "\u0645\u0631\u062d\u0628\u0627", "\U0001F600", "\U0001D4B3", "a\u0301", "\U000F0000", "\U0010FFFD", "\U000E0041", "\ud7ff\ue000\ufffd", "\u0085", "\u007f",
    "\u200f", "\u00a0", "\u2019", "\u201c", "\u2028", "\ufeff",
    "_x0041_", "_x000B_", "_x003C_b_x003E_", "_x000D_", "_x005F_",  # OOXML's character-escape syntax typed as ordinary text
    "jr:itext('x')", "instance('x')/root", "..", "../x", "/data/x", "*", "+", "-", "a - b", "a-b", "(", ")", "[", "]", "[1]",
]
# fragments that are legitimately rejected or legitimately rewritten by documented rules -> excluded where noted
REJECTING = {"${"}
SMART = {"\u2019": "'", "\u2018": "'", "\u201c": '"', "\u201d": '"'}

CTL = ["\x00", "\x01", "\x08", "\x0b", "\x0c", "\x0e", "\x1f", "\ufffe", "\uffff"]
# halves of surrogate pairs: no XML character either; only str-typed input (a dict, e.g. loaded from JSON text with a \\ud800 escape) can carry them
SURROGATES = ["\ud800", "\udbff", "\udc00", "\udfff"]


def hostile(rng, tag, n=(1, 4), allow=None, ws=False):
    """tag + 1..4 hostile fragments joined by single spaces. Never contains '${'."""
    k = rng.randint(*n)
    parts = [tag]
    for _ in range(k):
        fr = rng.choice(FRAGS)
        if fr in REJECTING:
            continue
        if allow is not None and not allow(fr):
            continue
        parts.insert(rng.randint(0, len(parts)), fr)
    s = " ".join(parts)
    s = s.replace("${", "$ {")
    if ws:
        s = rng.choice(["", " ", "  "]) + s.replace(" ", rng.choice([" ", "  "]), 1) + rng.choice(["", " "])
    return s


def expected_text(s, sheet="survey", strip=True):
    """Apply the documented normalisations to the *expected* side."""
    import re
    for a, b in SMART.items():
        s = s.replace(a, b)
    if strip:
        s = s.replace(" ", " ") if False else s
    if sheet == "survey":
        s = re.sub(r"( )+", " ", s.strip())
    return s
