"""W-suite: run the repository's own tests with the output-invariant monitors switched on.

Loaded with `pytest -p vlib.pytest_plugin` (only does anything when VERIF_SUITE_LOG is set).
Wraps Survey.to_xml: after every successful call made by any test it judges the produced
XForm with the C01 (well-formed + skeleton), C02 (ref closure) and C07 (itext closure)
invariants and regenerates the document in the other pretty_print mode for C15.  It never
changes what the test sees: the original return value is returned, exceptions of the
original call propagate untouched, monitor exceptions are caught and logged as
monitor_error (which makes the run inconclusive, never a pass or a violation).
"""
from __future__ import annotations

import json
import os
import sys


def _r3(survey, out, pretty_print):
    """C16 R3 on one live survey: rebuilt from its own JSON dump it renders the same document."""
    try:
        from pyxform.builder import create_survey_element_from_dict
        from vlib import xdiff
        sv2 = create_survey_element_from_dict(json.loads(json.dumps(survey.to_json_dict())))
        x2 = sv2.to_xml(validate=False, pretty_print=pretty_print)
        if x2 == out:
            return []
        return [("R3:xform-differs:suite", "survey -> to_json_dict -> JSON text -> survey renders a different document: " + "; ".join(xdiff.diffs(out, x2)[:2])[:400])]
    except KeyError as e:
        if str(e) == "'itemset'" and "search(" in out:
            return [("R3:reload-raises-KeyError-itemset:search-select-after-to_xml", f"reloading the survey's own JSON raised KeyError {e}")]
        return [("R3:raised:KeyError", f"reloading the survey's own JSON raised KeyError {e}")]
    except Exception as e:  # noqa: BLE001
        return [(f"R3:raised:{type(e).__name__}", f"reloading the survey's own JSON raised {type(e).__name__}: {str(e)[:200]}")]


def pytest_configure(config):
    log = os.environ.get("VERIF_SUITE_LOG")
    if not log:
        return
    here = os.path.dirname(os.path.dirname(os.path.abspath(__file__)))
    for p in (here, os.path.join(here, ".deps")):
        if p not in sys.path:
            sys.path.append(p)
    from pyxform.survey import Survey

    from vlib import invariants as inv

    hook_counters = None
    if os.environ.get("VERIF_SUITE_SUBST") == "1":
        # the online C03 contract on Survey._var_repl_function (every substitution any test causes is judged from pyxform's own context)
        os.environ["PYXFORM_VERIF"] = "1"
        from vlib import hooks as _hooks
        _hooks.install_subst_hook()
        hook_counters = _hooks.counters
    orig = Survey.to_xml
    fh = open(f"{log}.{os.getpid()}", "a", encoding="utf-8", errors="backslashreplace")
    seen_subst = [0]
    depth = [0]

    def wrapped(self, validate=True, pretty_print=True, warnings=None, enketo=False):
        out = orig(self, validate=validate, pretty_print=pretty_print, warnings=warnings, enketo=enketo)
        if depth[0] or not isinstance(out, str):
            return out
        depth[0] += 1
        try:
            rec = {"test": os.environ.get("PYTEST_CURRENT_TEST", "?").split(" ")[0], "chars": len(out), "pretty": bool(pretty_print), "v": {}}
            try:
                p, v1 = inv.c01_wellformed(out)
                rec["v"]["C01"] = v1
                if p is not None:
                    rec["v"]["C02"] = inv.c02_closure(p)
                    v7, nrefs, ntr = inv.c07_itext(p, default_language=getattr(self, "default_language", None))
                    rec["v"]["C07"] = v7
                    rec["itext_refs"] = nrefs
                    rec["translations"] = ntr
                if p is not None:
                    rec["v"]["C03"] = inv.c03_tokens(p)
                    if hook_counters is not None:
                        msgs = hook_counters.get("subst_violations", [])
                        rec["v"]["C03"] = rec["v"]["C03"] + [("hook:substituted-path-does-not-reach-target-from-pyxform-context", m_) for m_ in msgs[seen_subst[0]:][:5]]
                        seen_subst[0] = len(msgs)
                        rec["subst_evals"] = hook_counters.get("subst", 0)
                    rec["v"]["C09"] = inv.c09_instances(p)
                    rec["v"]["C10"] = inv.c10_actions(p)
                # C14: the same survey rendered again gives the same text
                again = orig(self, validate=False, pretty_print=pretty_print, warnings=None, enketo=False)
                rec["v"]["C14"] = [] if again == out else [("regeneration:to_xml-not-idempotent:suite", "a second to_xml() call on the same survey gives different text")]
                # C16: the survey rebuilt from its own JSON dump renders the same document
                rec["v"]["C16"] = _r3(self, out, pretty_print) if getattr(self, "title", None) else []  # (a Survey put together by hand without a title is outside the round-trip claim)
                other = orig(self, validate=False, pretty_print=not pretty_print, warnings=None, enketo=False)
                compact, pretty = (other, out) if pretty_print else (out, other)
                rec["v"]["C15"] = inv.c15_same_document(compact, pretty)
                if any(rec["v"].get(k) for k in rec["v"]):
                    rec["xform_head"] = out[:3000]
            except Exception as e:  # noqa: BLE001 - a monitor problem must never reach the test
                rec["monitor_error"] = repr(e)[:300]
            fh.write(json.dumps(rec, ensure_ascii=False) + "\n")
            fh.flush()
        finally:
            depth[0] -= 1
        return out

    Survey.to_xml = wrapped
