"""W-suite: run the repository's own tests with the output-invariant monitors switched on.

Loaded with `pytest -p vlib.pytest_plugin` (only does anything when VERIF_SUITE_LOG is set).
Wraps Survey.to_xml: after every successful call made by any test it judges the produced
XForm with the C01 (well-formed + skeleton), C02 (ref closure) and C07 (itext closure)
invariants and regenerates the document in the other pretty_print mode for C15.  It never
changes what the test sees: the original return value is returned, exceptions of the
original call propagate untouched, monitor exceptions are caught and logged as
monitor_error (which makes the run inconclusive, never a pass or a violation).
"""
from __future__ import annotations

import json
import os
import sys


def pytest_configure(config):
    log = os.environ.get("VERIF_SUITE_LOG")
    if not log:
        return
    here = os.path.dirname(os.path.dirname(os.path.abspath(__file__)))
    for p in (here, os.path.join(here, ".deps")):
        if p not in sys.path:
            sys.path.append(p)
    from pyxform.survey import Survey

    from vlib import invariants as inv

    orig = Survey.to_xml
    fh = open(f"{log}.{os.getpid()}", "a", encoding="utf-8")
    depth = [0]

    def wrapped(self, validate=True, pretty_print=True, warnings=None, enketo=False):
        out = orig(self, validate=validate, pretty_print=pretty_print, warnings=warnings, enketo=enketo)
        if depth[0] or not isinstance(out, str):
            return out
        depth[0] += 1
        try:
            rec = {"test": os.environ.get("PYTEST_CURRENT_TEST", "?").split(" ")[0], "chars": len(out), "pretty": bool(pretty_print), "v": {}}
            try:
                p, v1 = inv.c01_wellformed(out)
                rec["v"]["C01"] = v1
                if p is not None:
                    rec["v"]["C02"] = inv.c02_closure(p)
                    v7, nrefs, ntr = inv.c07_itext(p, default_language=getattr(self, "default_language", None))
                    rec["v"]["C07"] = v7
                    rec["itext_refs"] = nrefs
                    rec["translations"] = ntr
                other = orig(self, validate=False, pretty_print=not pretty_print, warnings=None, enketo=False)
                compact, pretty = (other, out) if pretty_print else (out, other)
                rec["v"]["C15"] = inv.c15_same_document(compact, pretty)
                if rec["v"]["C01"] or rec["v"].get("C02") or rec["v"].get("C07") or rec["v"]["C15"]:
                    rec["xform_head"] = out[:3000]
            except Exception as e:  # noqa: BLE001 - a monitor problem must never reach the test
                rec["monitor_error"] = repr(e)[:300]
            fh.write(json.dumps(rec, ensure_ascii=False) + "\n")
            fh.flush()
        finally:
            depth[0] -= 1
        return out

    Survey.to_xml = wrapped
