"""API-level histories: surveys built through the public builder API rather than one convert() call.

 * include: a main section that pulls in other sections through rows of type 'include'
   (pyxform.builder.create_survey(name, sections)), the same section possibly several times;
 * multi-step: render, change the tree through add_child(), render again.
The monitors of C02 / C07 / C10 judge the XForms these histories produce with their own oracles.
"""
from __future__ import annotations

ADDRESS_MD = """
| survey |
|        | type             | name   | label  | calculation | trigger   |
|        | text             | street | Street |             |           |
|        | select_one towns | town   | Town   |             |           |
| choices |
|         | list_name | name | label |
|         | towns     | a    | A     |
|         | towns     | b    | B     |
| settings |
|          | omit_instanceID |
|          | yes             |
"""


def _json(md, name):
    from pyxform.xls2json import workbook_to_json
    from pyxform.xls2json_backends import get_xlsform
    return workbook_to_json(workbook_dict=get_xlsform(xlsform=md, file_type=".md"), form_name=name, warnings=[])


def include_survey(rng):
    """-> (survey, info). info: expected node paths of included questions, triggered calculations [(calc path, trigger path)]."""
    from pyxform.builder import create_survey
    n_incl = rng.choice([1, 2, 2, 3])
    rows = ["| | text | who | Who | | |"]
    triggers = []
    if rng.random() < 0.7:
        rows.append("| | calculate | c_before | | concat(${who}, 'b') | ${who} |")
        triggers.append(("/data/c_before", "/data/who", "setvalue"))
    if rng.random() < 0.4:
        rows.append("| | background-geopoint | g_before | | | ${who} |")
        triggers.append(("/data/g_before", "/data/who", "setgeopoint"))
    included = []
    rows += ["| | begin group | home | Home | | |", "| | include | address | | | |", "| | end group | | | | |"]
    included.append("/data/home")
    if n_incl >= 2:
        rows += ["| | begin repeat | jobs | Jobs | | |", "| | text | title | Title | | |", "| | begin group | work | Work | | |", "| | include | address | | | |",
                 "| | end group | | | | |", "| | end repeat | | | | |"]
        included.append("/data/jobs/work")
    if n_incl >= 3:
        rows += ["| | begin group | other_place | Other | | |", "| | include | address | | | |", "| | end group | | | | |"]
        included.append("/data/other_place")
    if rng.random() < 0.7:
        rows.append("| | text | late | Late | | |")
        rows.append("| | calculate | c_after | | concat(${late}, 'a') | ${late} |")
        triggers.append(("/data/c_after", "/data/late", "setvalue"))
    main_md = "| survey |\n| | type | name | label | calculation | trigger |\n" + "\n".join(rows) + "\n"
    sections = {"main": _json(main_md, "data"), "address": _json(ADDRESS_MD, "address")}
    sv = create_survey(name_of_main_section="main", sections=sections)
    nodes = [f"{g}/{q}" for g in included for q in ("street", "town")]
    return sv, {"main_md": main_md, "included_nodes": nodes, "triggers": triggers, "n_includes": n_incl}


def question(d):
    from pyxform.builder import create_survey_element_from_dict
    return create_survey_element_from_dict(d)
