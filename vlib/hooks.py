"""Harness-side instrumentation of the real pyxform functions (guard: PYXFORM_VERIF=1).

Nothing in /repo is edited: contracts are attached at import time with icontract, and
every module attribute that *is* the original function is rebound (pyxform does
`from pyxform.utils import node` in several modules).  Conditions record and return
True, so a violated contract never changes what the converter does; the monitor reads
`counters` afterwards.  Zero evaluations of a deciding hook makes a run inconclusive.
"""
from __future__ import annotations

import os
import re
import sys

counters: dict = {}
_installed = set()
shadow_enabled = [True]  # cache shadows compare only while the harness is single-threaded


def _guard():
    return os.environ.get("PYXFORM_VERIF") == "1"


def _bump(k, n=1):
    counters[k] = counters.get(k, 0) + n


def _note(k, msg, cap=20):
    lst = counters.setdefault(k, [])
    if len(lst) < cap:
        lst.append(msg)


def rebind_everywhere(original, replacement, prefix="pyxform"):
    """Rebind every module-level name that is `original` (handles `from m import f`)."""
    n = 0
    for name, mod in list(sys.modules.items()):
        if mod is None or not name.startswith(prefix):
            continue
        for attr, val in list(vars(mod).items()):
            if val is original:
                setattr(mod, attr, replacement)
                n += 1
    return n


# ----------------------------------------------------------------------------- H-xpath
def install_xpath_contract():
    if "xpath" in _installed or not _guard():
        return
    _installed.add("xpath")
    import icontract
    from pyxform.survey import Survey
    from pyxform.survey_element import SurveyElement

    class XPathCacheStale(Exception):
        pass

    def chain_path(self):
        names = []
        cur = self
        first = True
        while cur is not None:
            is_survey = isinstance(cur, Survey)
            flat = (not is_survey) and hasattr(cur, "flat") and cur.get("flat")
            if not flat:
                names.append(cur.name)
            cur = cur.parent
            first = False
        return "/" + "/".join(reversed(names))

    def xpath_matches_parent_chain(self, result):
        _bump("xpath")
        want = chain_path(self)
        if result != want:
            _note("xpath_violations", f"get_xpath() of {self.name!r} returned cached {result!r} but its parent chain is {want!r}")
        return True

    SurveyElement.get_xpath = icontract.ensure(xpath_matches_parent_chain, error=XPathCacheStale)(SurveyElement.get_xpath)


# ----------------------------------------------------------------------------- H-node
_QNAME = re.compile(r"^[A-Za-z_][\w.\-]*(:[A-Za-z_][\w.\-]*)?$", re.UNICODE)


def install_node_contract():
    if "node" in _installed or not _guard():
        return
    _installed.add("node")
    import icontract
    import pyxform.utils as U

    class BadName(Exception):
        pass

    orig = U.node

    def names_are_qnames(result):
        _bump("node")
        if not _QNAME.match(result.tagName or ""):
            _note("node_bad_names", f"element name {result.tagName!r}")
        if result._attrs:
            for k in result._attrs:
                if not _QNAME.match(k):
                    _note("node_bad_names", f"attribute name {k!r} on <{result.tagName}>")
        return True

    wrapped = icontract.ensure(names_are_qnames, error=BadName)(orig)
    U.node = wrapped
    rebind_everywhere(orig, wrapped)


# ----------------------------------------------------------------------------- H-cache (memoisation must be transparent)
def install_cache_shadows():
    if "cache" in _installed or not _guard():
        return
    _installed.add("cache")
    import functools

    import pyxform.parsing.expression as E
    import pyxform.survey as S
    import pyxform.utils as U

    def shadow(mod, name, cmp=lambda a, b: a == b):
        cached = getattr(mod, name)
        raw = getattr(cached, "__wrapped__", None)
        if raw is None:
            return

        @functools.wraps(raw)
        def checked(*a, **kw):
            got = cached(*a, **kw)
            if not shadow_enabled[0]:
                return got
            _bump(f"cache:{name}")
            try:
                want = raw(*a, **kw)
            except RecursionError:
                return got
            if not cmp(got, want):
                _note("cache_violations", f"{name}{tuple(str(x)[:60] for x in a[1:] if True)} cached={str(got)[:120]!r} uncached={str(want)[:120]!r}")
            return got

        checked.cache_clear = cached.cache_clear
        checked.cache_info = cached.cache_info
        checked.__wrapped__ = raw
        setattr(mod, name, checked)
        rebind_everywhere(cached, checked)

    def tok_eq(a, b):
        ta, ra = a
        tb, rb = b
        return ra == rb and [(t.name, t.value, t.start, t.end) for t in ta] == [(t.name, t.value, t.start, t.end) for t in tb]

    shadow(S, "is_parent_a_repeat")
    shadow(S, "share_same_repeat_parent")
    shadow(U, "escape_text_for_xml")
    shadow(E, "parse_expression", tok_eq)


# ----------------------------------------------------------------------------- H-tables
def snapshot_tables():
    """Deep, order-sensitive snapshot of module-level tables that conversions must not mutate."""
    import copy

    import pyxform.aliases as A
    import pyxform.constants as C
    from pyxform.question_type_dictionary import QUESTION_TYPE_DICT

    snap = {}
    for mod in (A, C):
        for k, v in vars(mod).items():
            if k.startswith("__"):
                continue
            if isinstance(v, (dict, list, set, tuple, frozenset)):
                snap[f"{mod.__name__}.{k}"] = repr(sorted(v, key=repr) if isinstance(v, (set, frozenset)) else v)
    snap["QUESTION_TYPE_DICT"] = repr(QUESTION_TYPE_DICT)
    return snap


def module_table_objects():
    """{id(obj): dotted name} of the mutable module-level tables (and the mutable values nested in them)."""
    import pyxform.aliases as A
    import pyxform.constants as C
    from pyxform.question_type_dictionary import QUESTION_TYPE_DICT

    out = {}

    def reg(name, v, depth=0):
        if isinstance(v, (dict, list, set)):
            out[id(v)] = name
            if depth < 3:
                for k, x in (v.items() if isinstance(v, dict) else enumerate(v) if isinstance(v, list) else ()):
                    reg(f"{name}[{k!r}]", x, depth + 1)
    for mod in (A, C):
        for k, v in vars(mod).items():
            if not k.startswith("__"):
                reg(f"{mod.__name__}.{k}", v)
    reg("QUESTION_TYPE_DICT", QUESTION_TYPE_DICT)
    return out


def aliased_module_tables(result_obj, tables=None, limit=200000):
    """Names of module-level tables that are reachable (by identity) from a conversion result: a caller editing its result would edit the library."""
    tables = tables if tables is not None else module_table_objects()
    found, seen, stack, n = set(), set(), [result_obj], 0
    while stack and n < limit:
        x = stack.pop()
        n += 1
        if id(x) in seen:
            continue
        seen.add(id(x))
        if id(x) in tables:
            found.add(tables[id(x)])
        if isinstance(x, dict):
            stack.extend(x.values())
        elif isinstance(x, (list, tuple, set)):
            stack.extend(x)
    return sorted(found)


def diff_tables(a, b):
    return [k for k in a if a[k] != b.get(k)] + [k for k in b if k not in a]


# ----------------------------------------------------------------------------- H-audit (temp files / processes)
_audit = {"on": False, "events": []}


def install_audit():
    if "audit" in _installed:
        return
    _installed.add("audit")

    def hook(event, args):
        if not _audit["on"]:
            return
        if event == "tempfile.mkstemp":
            _audit["events"].append(("mkstemp", str(args[0])))
        elif event == "os.remove":
            _audit["events"].append(("remove", str(args[0])))
        elif event == "subprocess.Popen":
            _audit["events"].append(("popen", str(args[0])))

    sys.addaudithook(hook)


class audit_window:
    def __enter__(self):
        install_audit()
        _audit["events"] = []
        _audit["on"] = True
        return self

    def __exit__(self, *a):
        _audit["on"] = False
        self.events = list(_audit["events"])
        created = [p for k, p in self.events if k == "mkstemp"]
        removed = {p for k, p in self.events if k == "remove"}
        self.leaked = [p for p in created if p not in removed and os.path.exists(p)]
        self.created = created
        return False


# ----------------------------------------------------------------------------- H-subst
def install_subst_hook():
    """Post-condition on Survey._var_repl_function: the returned path, resolved from the context element pyxform
    passed in, must reach the element registered under that name (chain of .name's from the element up)."""
    if "subst" in _installed or not _guard():
        return
    _installed.add("subst")
    import icontract
    from pyxform.survey import Survey

    class SubstBroken(Exception):
        pass

    def chain(el):
        names = []
        cur = el
        while cur is not None:
            flat = (not isinstance(cur, Survey)) and hasattr(cur, "flat") and cur.get("flat")
            if not flat:
                names.append(cur.name)
            cur = cur.parent
        return list(reversed(names))

    def reaches_target(self, matchobj, context, result, use_current=False, reference_parent=False):
        _bump("subst")
        if reference_parent:
            _bump("subst_reference_parent")
            return True
        name = matchobj.group(2)
        target = (self._xpath or {}).get(name)
        if target is None:
            return True
        want = "/" + "/".join(chain(target))
        got = result.strip()
        if matchobj.group(1) is not None:
            ok = got == f"instance('__last-saved'){want}"
        elif got.startswith("/"):
            ok = got == want
        else:
            rel = got[len("current()/"):] if got.startswith("current()/") else got
            segs = chain(context) if context is not None else []
            for part in rel.split("/"):
                if part == "..":
                    if segs:
                        segs.pop()
                elif part not in (".", ""):
                    segs.append(part)
            ok = "/" + "/".join(segs) == want
        if not ok:
            cn = "/" + "/".join(chain(context)) if context is not None else None
            _note("subst_violations", f"${{{name}}} with context {cn} returned {got!r}; target is {want}")
        return True

    Survey._var_repl_function = icontract.ensure(reaches_target, error=SubstBroken)(Survey._var_repl_function)


# ----------------------------------------------------------------------------- H-outval
def install_outval_hook():
    """Post-condition on Survey.insert_output_values: when the text is rewritten (references -> <output/>), the result
    must parse as an XML fragment whose text segments are exactly the literal segments of the input."""
    if "outval" in _installed or not _guard():
        return
    _installed.add("outval")
    import icontract
    from lxml import etree
    from pyxform.survey import Survey

    class OutvalBroken(Exception):
        pass

    ref_re = re.compile(r"\$\{(last-saved#)?([^}]*)\}")

    def literal_text_preserved(self, text, result, context=None):
        _bump("outval")
        new, changed = result
        if not changed:
            return True
        _bump("outval_changed")
        if "instance(" in text:
            return True  # instance() expressions are replaced as a whole: boundaries are the lexer's business
        try:
            frag = etree.fromstring(("<x>" + new + "</x>").encode("utf-8"))
        except etree.XMLSyntaxError as e:
            _note("outval_violations", f"insert_output_values({text!r}) returned a string that is not a well-formed fragment: {e}")
            return True
        segs = [frag.text or ""]
        bad = []
        for ch in frag:
            if not isinstance(ch.tag, str) or ch.tag != "output":
                bad.append(str(ch.tag))
            segs.append(ch.tail or "")
        lits = ref_re.split(text)[0::3]
        if bad:
            _note("outval_violations", f"insert_output_values({text!r}) produced child element(s) {bad} besides <output>")
        elif segs != lits:
            _note("outval_violations", f"insert_output_values({text!r}): literal segments {lits} came back as {segs}")
        return True

    Survey.insert_output_values = icontract.ensure(literal_text_preserved, error=OutvalBroken)(Survey.insert_output_values)


# ----------------------------------------------------------------------------- H-dyn
def install_dyn_hook(classifier):
    """Record utils.default_is_dynamic's answers and compare with an independent classifier on unambiguous inputs."""
    if "dyn" in _installed or not _guard():
        return
    _installed.add("dyn")
    import icontract
    import pyxform.utils as U

    class DynBroken(Exception):
        pass

    orig = U.default_is_dynamic

    def agrees_with_classifier(element_default, result, element_type=None):
        _bump("dyn")
        if not element_default or not isinstance(element_default, str):
            return True
        want = classifier(element_default, element_type)
        if want is not None and (want == "dynamic") != bool(result):
            _note("dyn_violations", f"default_is_dynamic({element_default!r}, {element_type!r}) = {result}, independent classifier says {want}")
        return True

    wrapped = icontract.ensure(agrees_with_classifier, error=DynBroken)(orig)
    U.default_is_dynamic = wrapped
    rebind_everywhere(orig, wrapped)
