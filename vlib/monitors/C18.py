"""C18 — validator verdicts are honoured and failures leave no residue.

Fault-script enumeration.  Every script is one real execution of the real code (library
convert() or the command-line entry point main_cli) in its own subprocess with
  * a scripted stand-in for the `java` executable first on PATH (exit code, stderr bytes,
    sleep, self-kill), or no java at all, or the real java 17 with the repository's
    0-byte jar (a genuine corrupt-jar run),
  * private TMPDIR, output directory, input directory and working directory,
  * optional harness-side failpoints (temp-file open/write error, Popen error, shortened
    watchdog).
The monitor observes the exception / return value, the CLI's stderr (plain log or JSON),
the four directory listings before/after, and the stand-in's own call log (argv, and a
digest of the file it was shown *while* it ran), and compares them with the outcome the
statement prescribes for that (validator outcome x mode x form) cell.
"""
from __future__ import annotations

import hashlib
import itertools
import json
import os
import random
import re
import shutil
import signal
import subprocess
import tempfile

from .. import common, drive, gen, render
from ..c18_fakejava import SCRIPT
from ..model import Form

PROP = "C18"
LEVEL = "fault_enumeration"
TECHNIQUE = ("fault-script enumeration at the process boundary: scripted stand-in for the java executable (exit codes, stderr shapes, "
             "self-kill, hang), java absent, real java with corrupt jar, harness failpoints on temp-file open/write and Popen; "
             "filesystem ledger (private TMPDIR/output/input/cwd listings) + stand-in call log + independent error-cleaner model")
RULE = ("one case = one fault script (validator outcome x entry mode x form class x output pre-existing x pretty x failpoint) executed "
        "in a fresh subprocess against the real convert()/main_cli; non-trivial = a script in which validation was requested on a "
        "convertible form, or a failpoint fired, or a conversion error had to be reported (i.e. not a plain successful conversion); "
        "distinct = distinct (outcome kind, mode, form class, pre-existing, pretty, failpoint, stderr shape) tuples")
ASSUMPTIONS = [
    "the stand-in honours the same argv/exit-code/stderr contract as java -jar ODK_Validate.jar; real ODK Validate is not available (0-byte jar)",
    "the 100 s watchdog constant is shortened from the harness (wrapper around run_popen_with_timeout) for the hang scripts only",
    "Enketo validation is out of reach (no binary); a SIGKILL of the converter process itself is not enumerated (no in-process finally can run)",
    "'validator killed' and 'hang' are judged on no-residue, no-internal-exception and result/file consistency only (the statement fixes nothing more)",
]

PY = "/venv/bin/python"
REPO = os.environ.get("VERIF_REPO", "/repo")
VERIF = os.path.dirname(os.path.dirname(os.path.dirname(os.path.abspath(__file__))))
JAR = os.path.join(REPO, "pyxform", "validators", "odk_validate", "bin", "ODK_Validate.jar")
SENTINEL = "<sentinel>pre-existing output, not an XForm</sentinel>\n"
LONG_SENTINEL = SENTINEL + "<!-- " + "stale tail of a longer file written here before " * 4000 + "-->\n"  # ~200 KB: longer than any XForm of the catalogue

# ----------------------------------------------------------------------------- forms
def forms():
    out = {}
    f = gen.simple_form([("text", "q1", {"label": "Q1"}), ("begin group", "g1", {"label": "G"}, [("integer", "q_2", {"label": "Q2", "constraint": ". > 0"})]),
                         ("select_one l1", "s1", {"label": "S"})],
                        choices={"l1": [{"name": "a", "label": "A"}, {"name": "b", "label": "B"}]}, settings={"form_id": "fid", "form_title": "T"})
    out["valid"] = f
    g = gen.simple_form([("text", "src", {"label": "S"}), ("select_one_external ext", "e1", {"label": "E", "choice_filter": "grp=${src}"})],
                        settings={"form_id": "fext"})
    g.external_choices = [{"list_name": "ext", "name": "a", "label": "A", "grp": "g1"}, {"list_name": "ext", "name": "b", "label": "B, with comma", "grp": "g2"}]
    out["valid_ext"] = g
    w = gen.simple_form([("text", "q1", {"label::Klingon": "tlh", "hint::Klingon": "h"}), ("image", "img", {"label::Klingon": "I"})], settings={"form_id": "fw"})
    out["valid_warn"] = w  # language without IANA subtag (warning appended *after* validator warnings) + image without max-pixels
    # external choices used from inside a legacy loop section
    lp = gen.simple_form([("text", "src", {"label": "S"}), ("begin loop over lst", "lp", {"label": "L"}, [("select_one_external ext", "e1", {"label": "E", "choice_filter": "grp=${src}"})])],
                         choices={"lst": [{"name": "x1", "label": "X1"}, {"name": "x2", "label": "X2"}]}, settings={"form_id": "floop"})
    lp.survey[1].meta["end_type"] = "end loop"
    lp.external_choices = [{"list_name": "ext", "name": "a", "label": "A", "grp": "g1"}]
    out["valid_ext_loop"] = lp
    # non-ASCII text everywhere (the CLI is also run under a non-UTF-8 locale with it)
    uni = gen.simple_form([("text", "q1", {"label": "Âge — 年齢 \U0001F600", "hint": "Ошибка"}), ("select_one l1", "s1", {"label": "Wähle"})],
                          choices={"l1": [{"name": "a", "label": "Ä"}, {"name": "b", "label": "ב"}]}, settings={"form_id": "funi", "form_title": "Título ünï"})
    out["valid_unicode"] = uni
    # form ids that are not file names: the id is free text, whatever temporary file the validator is given
    out["valid_odd_id"] = gen.simple_form([("text", "q1", {"label": "Q1"})], settings={"form_id": "dir/sub id:\\x", "form_title": "odd id"})
    out["valid_long_id"] = gen.simple_form([("text", "q1", {"label": "Q1"})], settings={"form_id": "L" + "o" * 300 + "ng", "form_title": "long id"})
    bad = gen.simple_form([("text", "q1", {"label": "Q"}), ("begin group", "g", {"label": "G"}, [("textt", "q2", {"label": "Q"})])])
    out["invalid_sheet"] = bad  # rejected by workbook_to_json
    late = gen.simple_form([("text", "q1", {"label": "Q ${nosuch}"})])
    out["invalid_late"] = late  # rejected inside to_xml (after the temp file has been created)
    return out


def simple_rows_fix(f):
    return f


# ----------------------------------------------------------------------------- independent model of the error cleaner
_SEG = set("abcdefghijklmnopqrstuvwxyzABCDEFGHIJKLMNOPQRSTUVWXYZ0123456789-_")
_JAVA_PREFIXES = ("java.lang.RuntimeException: ", "org.javarosa.xpath.XPathUnhandledException: ", "java.lang.NullPointerException",
                  "org.javarosa.xform.parse.XFormParseException")


def _subst_paths(s):
    out = []
    i, n = 0, len(s)
    while i < n:
        if s[i] == "/":
            j = i
            segs = []
            while j < n and s[j] == "/":
                k = j + 1
                while k < n and s[k] in _SEG:
                    k += 1
                if k == j + 1:
                    break
                segs.append(s[j + 1:k])
                j = k
            if len(segs) >= 2:
                p = s[i:j]
                if p.startswith(("/html/body", "/root/item", "/html/head/model/bind")) or p.endswith("/item/value"):
                    out.append(p)
                else:
                    out.append("${" + segs[-1] + "}")
                i = j
                continue
            # a lone '/seg' (or bare '/') is copied
            out.append(s[i:max(j, i + 1)])
            i = max(j, i + 1)
            continue
        out.append(s[i])
        i += 1
    return "".join(out)


def model_clean(stderr_text):
    """-> list of (line, strict) expected after cleaning."""
    if "Error: Unable to access jarfile" in stderr_text:
        return [(l, True) for l in stderr_text.split("\n")], True
    lines = _subst_paths(stderr_text).strip().splitlines()
    nodup = [l for i, l in enumerate(lines) if i == 0 or l != lines[i - 1]]
    exp = []
    for l in nodup:
        if "\tat" in l or ".java:" in l or re.fullmatch(r"\s*\.\.\. \d+ more\s*", l):
            continue  # stack frames and the '... N more' tail of a Java stack trace are noise
        strict = True
        for p in _JAVA_PREFIXES:
            if l.startswith(p):
                strict = False  # class-name stripping is judged leniently (remainder must survive)
                l = l[len(p):]
                break
        exp.append((l, strict))
    return exp, False


def decode(b):
    try:
        return b.decode("utf-8")
    except UnicodeDecodeError:
        return b.decode("latin-1")


# ----------------------------------------------------------------------------- stderr shapes
PATH_SEGS = ["data", "fid", "g1", "q1", "q_2", "s1", "rep-1", "Member", "x9", "root", "root", "item", "html", "body", "value", "roots"]


def stderr_shape(rng, shape):
    def path(k=None):
        k = k or rng.randint(2, 4)
        return "/" + "/".join(rng.choice(PATH_SEGS) for _ in range(k))
    u = lambda: f"u{rng.randrange(10**6)}"
    L = []
    if shape == "parse":
        L += [f"org.javarosa.xform.parse.XFormParseException: Cannot bind {u()} to {path()} - node does not exist",
              "\tat org.javarosa.xform.parse.XFormParser.parse(XFormParser.java:%d)" % rng.randrange(999),
              "\tat org.odk.validate.FormValidator.validate(FormValidator.java:%d)" % rng.randrange(999),
              f">> Something broke the parser {u()}. See above for a hint.", f"Result: Invalid {u()}"]
    elif shape == "xpath":
        p = path()
        L += [f">> XPath evaluation {u()}: type mismatch at {p}[1] and {path(3)}",
              f"Error evaluating field '{u()}' ({p}[1]): The problem was located in Constraint expression for {p}",
              f"XPath Dependency Cycle {u()}: {path()} => {path()} => {path()}",
              f">> Xform is invalid! See above for the errors. {u()}"]
    elif shape == "dupes":
        a = f"duplicate line {u()} at {path()}"
        b = f"second {u()}"
        L += [a, a, a, b, b, f"tail {u()} {path(2)}"]
    elif shape == "excluded":
        L += [f"{u()} bad item /html/body/select1[@ref={path()}]/item/value here",
              f"{u()} in instance('{u()}')/root/item[name={path(2)}]/label",
              f"{u()} at /html/head/model/bind[@nodeset={path()}] required",
              f"{u()} lone /data and //double and trailing / and a/b/c relative and http://example.org/x/y url"]
    elif shape == "javaprefix":
        L += [f"java.lang.RuntimeException: {u()} failed at {path()}", f"org.javarosa.xpath.XPathUnhandledException: {u()} cannot handle function 'foo'",
              f"java.lang.NullPointerException {u()}", f"Caused by: something {u()} (Parser.java:12)", f"final {u()}"]
    elif shape == "stacktail":
        L += [f"org.javarosa.core.log.WrappedException: {u()} error evaluating {path()}", "\tat org.javarosa.core.model.FormDef.initialize(FormDef.java:%d)" % rng.randrange(999),
              "    at org.javarosa.form.api.FormEntryModel.<init>(FormEntryModel.java:9)", "\t... %d more" % rng.randrange(2, 40), f"Caused by: cause {u()} at {path()}",
              "\tat org.javarosa.xpath.expr.XPathPathExpr.eval(XPathPathExpr.java:%d)" % rng.randrange(999), "\t... %d more" % rng.randrange(2, 40), f"Result: Invalid {u()}"]
    elif shape == "jvmnotice":
        # what a JVM prints first when JAVA_TOOL_OPTIONS / _JAVA_OPTIONS is set in the environment; the validator's own lines follow
        L += [rng.choice(["Picked up JAVA_TOOL_OPTIONS: -Xmx64m -Dfile.encoding=UTF-8", "Picked up _JAVA_OPTIONS: -Djava.awt.headless=true"]),
              f">> XPath evaluation {u()}: type mismatch at {path()}[1]", f"Error evaluating field '{u()}' ({path()}[1])", f">> Xform is invalid! See above for the errors. {u()}"]
    elif shape == "crlf":
        L += [f"line one {u()} {path()}\r", f"line two {u()}\r", f"line three {u()}"]
    elif shape == "unicode":
        L += [f"Ошибка {u()} في {path()} 错误 🙂", f"café {u()} {path(2)}"]
    elif shape == "jarfile":
        L += [f"Error: Unable to access jarfile /some/where/{u()}/ODK_Validate.jar"]
    elif shape == "big":
        L += [f"{u()} big line {i} {path()}" for i in range(3000)]
    elif shape == "wsedge":
        L += ["", f"  leading blank and spaces {u()}  ", "", f"x {u()}\t tab not-at", "  "]
    elif shape == "empty":
        return b""
    elif shape == "latin1":
        return (f"café {u()} {path()}\nnaïve {u()}\n").encode("latin-1")
    elif shape == "highbytes":
        # every byte 0x80-0xFF (not valid UTF-8; some have no cp1252 mapping): the documented fallback is latin-1, which maps them all
        return f"bytes {u()} ".encode() + bytes(range(0x80, 0x100)) + f" end {path()}\nsecond {u()}\n".encode()
    elif shape == "utf8-plus-stray-byte":
        return f"Ошибка {u()} ".encode("utf-8") + bytes([rng.choice([0x81, 0x8D, 0x8F, 0x90, 0x9D, 0xFF])]) + f" {path()}\n".encode()
    else:
        raise ValueError(shape)
    return ("\n".join(L) + "\n").encode("utf-8")


REJECT_SHAPES = ["jvmnotice", "stacktail", "parse", "xpath", "dupes", "excluded", "javaprefix", "crlf", "unicode", "jarfile", "big", "wsedge", "empty", "latin1", "highbytes", "utf8-plus-stray-byte"]
WARN_SHAPES = ["jvmnotice", "xpath", "dupes", "unicode", "crlf", "latin1", "big", "excluded", "highbytes", "utf8-plus-stray-byte"]

# outcome kinds -> (class, scenario for the stand-in)
def outcomes(tier):
    o = [("ok_silent", None), ("ok_stdout", None)]
    o += [(f"ok_stderr:{s}", s) for s in WARN_SHAPES]
    o += [(f"reject1:{s}", s) for s in REJECT_SHAPES]
    o += [("reject2:parse", "parse"), ("reject3:xpath", "xpath"), ("reject64:dupes", "dupes"), ("reject255:parse", "parse"), ("reject127:empty", "empty")]
    o += [("killed9", None), ("killed15", None), ("killed11", None), ("hang", None), ("nojava", None), ("corruptjar", None)]
    return o


MODES = ["lib_validate", "lib_novalidate", "cli_default", "cli_json", "cli_skip", "cli_skip_json", "cli_odk", "cli_odk_json", "cli_odk_skip", "cli_default_noout"]
FAILPOINTS = ["open_tmp_fail", "write_tmp_fail", "popen_fail", "outdir_missing"]


def mode_validates(mode):
    return mode in ("lib_validate", "cli_default", "cli_json", "cli_odk", "cli_odk_json", "cli_default_noout")


def mode_argv(mode):
    return {"cli_default": [], "cli_json": ["--json"], "cli_skip": ["--skip_validate"], "cli_skip_json": ["--skip_validate", "--json"],
            "cli_odk": ["--odk_validate"], "cli_odk_json": ["--odk_validate", "--json"], "cli_odk_skip": ["--odk_validate", "--skip_validate"],
            "cli_default_noout": []}[mode]


def enumerate_scripts(tier, seed):
    """Deterministic list of scripts (dicts). thorough = the full cross product of the reduced space; quick = a covering subset."""
    S = []
    outs = outcomes(tier)
    fkeys = ["valid", "valid_ext", "valid_warn", "invalid_sheet", "invalid_late", "valid_ext_loop", "valid_unicode", "valid_odd_id", "valid_long_id"]
    def add(**kw):
        kw["id"] = len(S)
        S.append(kw)
    if tier == "thorough":
        for (ok, shape), mode, fk, pre, pretty in itertools.product(outs, MODES, fkeys, (False, True), (False, True)):
            if mode.startswith("lib") and pre:
                continue
            irrelevant = (not mode_validates(mode)) or fk.startswith("invalid")
            if irrelevant and ok.split(":")[0] not in ("ok_silent", "reject1", "nojava", "corruptjar") :
                continue
            if irrelevant and shape not in (None, "parse"):
                continue
            if mode.startswith("lib") and pretty and ok.startswith(("ok_stderr", "reject")) and shape not in ("parse", "xpath"):
                continue
            add(outcome=ok, shape=shape, mode=mode, form=fk, pre=pre, pretty=pretty, fp=None)
        for fp, mode, fk, pre in itertools.product(FAILPOINTS, MODES, ("valid", "valid_ext"), (False, True)):
            if (mode.startswith("lib") and (pre or fp == "outdir_missing")) or (mode == "cli_default_noout" and fp == "outdir_missing"):
                continue
            for ok in ("ok_silent", "reject1:parse", "ok_stderr:xpath"):
                add(outcome=ok, shape=(ok.split(":") + [None])[1], mode=mode, form=fk, pre=pre, pretty=False, fp=fp)
    else:
        rng = random.Random(f"C18|{seed}|quick")
        # every outcome x every validating mode once, other dimensions rotating
        vm = [m for m in MODES if mode_validates(m)]
        k = 0
        for (ok, shape) in outs:
            for mode in vm:
                fk = ["valid", "valid_ext", "valid_warn", "valid_ext_loop", "valid_unicode", "valid_odd_id", "valid_long_id"][k % 7]
                add(outcome=ok, shape=shape, mode=mode, form=fk, pre=(k % 2 == 1) and not mode.startswith("lib"), pretty=(k % 5 == 0), fp=None)
                k += 1
        # non-validating modes and invalid forms x a few outcomes
        for mode in MODES:
            for fk in fkeys:
                for ok in ("ok_silent", "reject1:parse", "nojava"):
                    if mode_validates(mode) and not fk.startswith("invalid"):
                        continue
                    add(outcome=ok, shape=(ok.split(":") + [None])[1], mode=mode, form=fk, pre=(k % 2 == 0) and not mode.startswith("lib"), pretty=(k % 3 == 0), fp=None)
                    k += 1
        for fp in FAILPOINTS:
            for mode in MODES:
                if (mode.startswith("lib") or mode == "cli_default_noout") and fp == "outdir_missing":
                    continue
                add(outcome="ok_silent" if k % 2 else "reject1:parse", shape=None if k % 2 else "parse", mode=mode, form=["valid", "valid_ext"][k % 2],
                    pre=(k % 3 == 0) and not mode.startswith("lib"), pretty=False, fp=fp)
                k += 1
    return S


def plan(tier, seed):
    n = len(enumerate_scripts(tier, seed))
    return {"shards": 16, "timeout": 1500 if tier == "quick" else 7200, "exhaustive": tier == "thorough",
            "floors": {"evaluations": n, "validator_invocations_observed": 100, "rejects_judged": 40, "residue_listings": n, "distinct": 100, "file_route_scripts": 9}}


# ----------------------------------------------------------------------------- one script
def listing(d):
    out = {}
    for root, dirs, files in os.walk(d):
        for fn in files:
            p = os.path.join(root, fn)
            try:
                out[os.path.relpath(p, d)] = hashlib.sha256(open(p, "rb").read()).hexdigest()
            except OSError:
                out[os.path.relpath(p, d)] = "?"
        for dn in dirs:
            out[os.path.relpath(os.path.join(root, dn), d) + "/"] = "dir"
    return out


def sha(s):
    return hashlib.sha256(s.encode("utf-8")).hexdigest()


def run_script(ctx, sc, base, FORMS, seed):
    rng = random.Random(f"C18|{seed}|script|{sc['id']}")
    d = tempfile.mkdtemp(prefix="c18_", dir=base)
    V = lambda key, what, **extra: ctx.viol(key, what, {"script": sc, **extra})
    try:
        dirs = {k: os.path.join(d, k) for k in ("in", "out", "tmp", "cwd", "bin", "nobin")}
        if sc["id"] % 3 == 1:
            dirs["tmp"] = os.path.join(d, "tmp dir of Jane's")  # blanks and a quote in the temp path (user profiles, shared drives)
        for p in dirs.values():
            os.makedirs(p)
        form: Form = FORMS[sc["form"]]
        fmt = ["xlsx", "md", "xls", "csv"][sc["id"] % 4] if not sc["form"].startswith("valid_ext") else ["xlsx", "xls"][sc["id"] % 2]
        stem = "myform"
        inpath = os.path.join(dirs["in"], f"{stem}.{fmt}")
        data = render.render(form.to_sheets(), fmt)
        with open(inpath, "wb") as fh:
            fh.write(data.encode("utf-8") if isinstance(data, str) else data)
        # reference result without validation, from the same path (form name/id come from the stem)
        ref = drive.call_convert(inpath, pretty_print=sc["pretty"])
        if sc["form"].startswith("invalid"):
            if ref.ok or not ref.exc_is_pyxform:
                ctx.ctr("reference_unexpected")
                return
        elif not ref.ok:
            ctx.ctr("reference_unexpected")
            ctx.obs(kind="reference_failed", form=sc["form"], fmt=fmt, err=ref.brief())
            if not ref.exc_is_pyxform:
                # a valid form, no validator involved yet, and something other than the library's error comes out (the temporary file, the writer ...)
                ctx.ctr("evaluations_cut_short_by_internal_exception")
                V(f"convert:internal-exception-without-validation:{ref.exc_type}:{sc['form']}", f"form class {sc['form']} ({fmt}) raised {ref.brief()[:200]} at {ref.exc_frame} with validate=False")
            return
        if form.external_choices and ref.itemsets is None:
            V(f"itemsets:missing-although-external-choices-are-used:{sc['form']}", f"form class {sc['form']} has an external_choices sheet and a select_one_external question, but convert() returns no itemsets")
            return
        # ---- stand-in
        okind = sc["outcome"].split(":")[0]
        stderr_b = b""
        jsc = {"rc": 0, "log": os.path.join(d, "java_calls.jsonl"), "copy_to": os.path.join(d, "java_saw.xml")}
        if okind == "ok_stdout":
            jsc["stdout_hex"] = b"Picked up something\nParsing form...\nresult: /data/q1 Valid\n".hex()
        elif okind == "ok_stderr":
            stderr_b = stderr_shape(rng, sc["shape"])
        elif okind.startswith("reject"):
            jsc["rc"] = int(okind[len("reject"):])
            stderr_b = stderr_shape(rng, sc["shape"])
            jsc["stdout_hex"] = b"some stdout noise /data/zzz\n".hex()
        elif okind.startswith("killed"):
            jsc["signal"] = int(okind[len("killed"):])
            stderr_b = b"partial output before dying /data/q1\n"
        elif okind == "hang":
            jsc["sleep"] = 6
            stderr_b = b"still working /data/q1\n"
        jsc["stderr_hex"] = stderr_b.hex()
        jscp = os.path.join(d, "java_scenario.json")
        json.dump(jsc, open(jscp, "w"))
        env = {"HOME": d, "TMPDIR": dirs["tmp"], "PYTHONPATH": os.pathsep.join([REPO, VERIF]), "PYTHONDONTWRITEBYTECODE": "1",
               "PYTHONHASHSEED": "0", "VERIF_JAVA_SCENARIO": jscp, "LANG": "C.UTF-8"}
        if sc["form"] == "valid_unicode" and sc["id"] % 2 == 0 and not sc["mode"].startswith("lib"):
            # a non-UTF-8 process locale: files must still be written as UTF-8
            env.update({"LANG": "C", "LC_ALL": "C", "PYTHONUTF8": "0", "PYTHONCOERCECLOCALE": "0"})
            ctx.ctr("ascii_locale_scripts")
        if okind == "nojava":
            env["PATH"] = dirs["nobin"]
        elif okind == "corruptjar":
            env["PATH"] = "/usr/bin:/bin"
        else:
            jp = os.path.join(dirs["bin"], "java")
            with open(jp, "w") as fh:
                fh.write(SCRIPT)
            os.chmod(jp, 0o755)
            env["PATH"] = dirs["bin"] + ":/usr/bin:/bin"
        # ---- spec
        mode = sc["mode"]
        fp = {}
        if okind == "hang":
            fp["timeout"] = 0.5
        if sc["fp"] in ("open_tmp_fail", "write_tmp_fail", "popen_fail"):
            fp[sc["fp"]] = True
        outpath = None
        spec = {"failpoints": fp}
        if mode.startswith("lib"):
            spec.update(mode="lib", xlsform=inpath, result=os.path.join(d, "result.json"),
                        lib_kwargs={"validate": mode == "lib_validate", "pretty_print": sc["pretty"]})
        else:
            argv = [inpath]
            if mode == "cli_default_noout":
                outpath = os.path.join(dirs["in"], f"{stem}.xml")
            else:
                outpath = os.path.join(dirs["out"], "result.xml") if sc["fp"] != "outdir_missing" else os.path.join(dirs["out"], "nodir", "result.xml")
                argv.append(outpath)
            argv += mode_argv(mode)
            if sc["pretty"]:
                argv.append("--pretty_print")
            spec.update(mode="cli", argv=argv)
            if sc["pre"] and sc["fp"] != "outdir_missing":
                with open(outpath, "w") as fh:
                    fh.write(LONG_SENTINEL if sc["id"] % 2 else SENTINEL)
                if sc["id"] % 4 == 1 and sc["form"].startswith("valid_ext"):
                    # a longer itemsets.csv from an earlier conversion to the same folder
                    with open(os.path.join(os.path.dirname(outpath), "itemsets.csv"), "w") as fh:
                        fh.write("list_name,name,label,grp\n" + "old,stale,row,x\n" * 3000)
        specp = os.path.join(d, "spec.json")
        json.dump(spec, open(specp, "w"))
        before = {k: listing(dirs[k]) for k in ("in", "out", "tmp", "cwd")}
        try:
            p = subprocess.run([PY, "-m", "vlib.c18_driver", specp], cwd=dirs["cwd"], env=env, capture_output=True, timeout=120)
        except subprocess.TimeoutExpired:
            ctx.ctr("script_timeout")
            return
        after = {k: listing(dirs[k]) for k in ("in", "out", "tmp", "cwd")}
        perr = p.stderr.decode("utf-8", "replace")
        if env.get("LC_ALL") == "C" and "json" not in sc["mode"]:
            # (plain mode only: the JSON report escapes non-ASCII text itself and is parsed as JSON) an ASCII terminal cannot show 'é': the logging stream writes such characters as backslash escapes (\\xe9, \\u041e, \\U0001f642), which
            # carries the diagnostic faithfully; fold the escapes back before looking for the expected lines
            perr = re.sub(r"\\(?:x([0-9a-fA-F]{2})|u([0-9a-fA-F]{4})|U([0-9a-fA-F]{8}))", lambda m_: chr(int(m_.group(1) or m_.group(2) or m_.group(3), 16)), perr)
        calls = []
        if os.path.exists(jsc["log"]):
            calls = [json.loads(l) for l in open(jsc["log"])]
        # ------------------------------------------------------------------ classification of the cell
        validates = mode_validates(mode)
        invalid = sc["form"].startswith("invalid")
        if invalid and validates and okind == "nojava":
            cls = "convfail_or_nojava"  # the statement does not say which of the two failures is reported first
        elif invalid:
            cls = "convfail"
        elif not validates:
            cls = "noval"
        elif sc["fp"] in ("open_tmp_fail", "write_tmp_fail", "popen_fail"):
            cls = "ioerror"
        elif okind in ("ok_silent", "ok_stdout"):
            cls = "accept"
        elif okind == "ok_stderr":
            cls = "accept_warn" if stderr_b else "accept"
        elif okind.startswith("reject") or okind == "corruptjar":
            cls = "reject"
        elif okind == "nojava":
            cls = "nojava"
        else:
            cls = "abnormal"
        if sc["fp"] in ("open_tmp_fail", "write_tmp_fail") and not invalid:
            cls = "ioerror"  # the temp file is written whether or not validation is requested
        if sc["fp"] == "popen_fail" and okind == "nojava":
            cls = "nojava"
        mk = "lib" if mode.startswith("lib") else ("json" if "json" in mode else "plain")
        sig = (okind, sc["shape"], mode, sc["form"], sc["pre"], sc["pretty"], sc["fp"])
        ctx.case(sig=repr(sig))
        ctx.ctr(f"class:{cls}")
        ctx.ctr(f"mode:{mk}")
        if cls not in ("accept", "noval"):
            ctx.ctr("nontrivial_scripts")
        tag = f"{cls}:{mk}"
        # ------------------------------------------------------------------ 1. residue
        ctx.ctr("residue_listings")
        if after["tmp"]:
            V(f"residue:tmp:{cls}:{mk}" + (f":{sc['fp']}" if sc["fp"] else ""), f"temporary files survive the call ({tag}, outcome {okind}): {sorted(after['tmp'])[:4]}")
        if after["cwd"] != before["cwd"]:
            V(f"residue:cwd:{cls}:{mk}", f"files written into the working directory ({tag}): {sorted(set(after['cwd']) - set(before['cwd']))[:4]}")
        # ------------------------------------------------------------------ 2. what the validator was shown
        exp_calls = 1 if (validates and not invalid and cls in ("accept", "accept_warn", "reject", "abnormal") and okind != "corruptjar") else 0
        if okind == "corruptjar":
            exp_calls = 0  # real java: no log
        # (a validator that is killed by the shortened watchdog may die before it has written its call record on a loaded machine: for the
        #  'hang' outcome zero records are as good as one - how fast a process starts is not a verdict)
        if len(calls) != exp_calls and not (okind == "hang" and len(calls) == 0):
            V(f"validator-calls:{cls}:{mk}", f"stand-in java was invoked {len(calls)}x, expected {exp_calls}x ({tag}, mode {mode}, outcome {okind}, fp {sc['fp']})")
        for c in calls:
            ctx.ctr("validator_invocations_observed")
            a = c["argv"]
            if not (len(a) >= 3 and a[-3] == "-jar" and os.path.realpath(a[-2]) == os.path.realpath(JAR) and "-Djava.awt.headless=true" in a):
                V("validator-argv", f"unexpected validator command line {a}")
            tgt = os.path.realpath(a[-1]) if a else ""
            if not tgt.startswith(os.path.realpath(dirs["tmp"]) + os.sep):
                V("validator-input:not-in-tmpdir", f"validator was pointed at {a[-1] if a else None}, not at a file in TMPDIR")
            elif not c["exists"]:
                V("validator-input:missing", "the file handed to the validator did not exist while it ran")
            elif ref.ok and c["sha"] != hashlib.sha256(ref.xform.encode("utf-8")).hexdigest():
                V("validator-input:differs", "the file shown to the validator differs from the XForm returned for the same input")
            if a and os.path.exists(a[-1]):
                V(f"residue:validated-file:{cls}:{mk}", f"the file handed to the validator still exists after the call: {a[-1]}")
        # ------------------------------------------------------------------ 3. expected diagnostic
        exp_lines = None
        if cls == "reject":
            if okind == "corruptjar":
                exp_lines = None  # judged on substring below
            else:
                exp_lines, verbatim = model_clean(decode(stderr_b))
        val_warning_text = decode(stderr_b) if cls == "accept_warn" else None

        def judge_reject_message(msg, where):
            ctx.ctr("rejects_judged")
            if okind == "corruptjar":
                if "jarfile" not in msg:
                    V(f"reject-message:corruptjar:{mk}", f"{where}: message does not carry java's corrupt-jar diagnostic: {msg[:200]!r}")
                elif "${" in msg or JAR not in msg:
                    V(f"reject-message:corruptjar:file-path-tokenised:{mk}", f"{where}: the jar's file path (not an instance path) was rewritten: {msg[:200]!r}")
                return
            head, _, body = msg.partition("\n")
            if "ODK Validate" not in head:
                V(f"reject-message:header:{mk}", f"{where}: first line {head[:80]!r} does not identify ODK Validate")
            got = body.split("\n") if body != "" else []
            exp = [l for l, _ in exp_lines]
            okm = len(got) == len(exp) and all((g == e) if strict else (e.strip() in g) for g, (e, strict) in zip(got, exp_lines))
            if exp == [] and got in ([], [""]):
                okm = True
            if not okm:
                # locate the first difference for the key
                kind = "lines"
                if len(got) > len(exp):
                    extra = [g for g in got if g not in exp]
                    kind = "java-noise-kept" if any(("\tat" in g or ".java:" in g or re.fullmatch(r"\s*\.\.\. \d+ more\s*", g)) for g in extra) else ("duplicate-kept" if len(set(got)) < len(got) else "extra-lines")
                elif len(got) < len(exp):
                    kind = "lines-lost"
                else:
                    kind = "path-rewrite" if any("/" in g and "${" in e for g, e in zip(got, exp) if g != e) else "line-content"
                V(f"reject-message:{kind}:{sc['shape']}:{mk}", f"{where}: validator diagnostic not carried as specified (shape {sc['shape']}); got {got[:4]!r} expected {exp[:4]!r}",
                  stderr=decode(stderr_b)[:2000])

        def judge_outputs_written(expect_written, plain_removes=False):
            """CLI only. expect_written: True = outputs equal library result; False = nothing written."""
            o_before, o_after = before, after
            rel_dir = "in" if mode == "cli_default_noout" else "out"
            rel = os.path.relpath(outpath, dirs[rel_dir])
            got = None
            if os.path.exists(outpath):
                got = open(outpath, encoding="utf-8", errors="replace").read()
            itp = os.path.join(os.path.dirname(outpath), "itemsets.csv")
            if expect_written:
                ctx.ctr("outputs_compared")
                if got is None:
                    V(f"output:missing:{cls}:{mk}", f"{tag}: no XForm at the output path after a successful run")
                elif got != ref.xform:
                    V(f"output:differs:{cls}:{mk}", f"{tag}: file written differs from the library result ({len(got)} vs {len(ref.xform)} chars)")
                if ref.itemsets is not None:
                    if not os.path.exists(itp):
                        V(f"output:itemsets-missing:{cls}:{mk}", f"{tag}: external choices exist but no itemsets.csv beside the XForm")
                    else:
                        gi = open(itp, encoding="utf-8", newline="").read()
                        if gi != ref.itemsets:
                            V(f"output:itemsets-differs:{cls}:{mk}", f"{tag}: itemsets.csv differs from the library result")
                elif os.path.exists(itp):
                    V(f"output:itemsets-spurious:{cls}:{mk}", f"{tag}: itemsets.csv written although the form has no external choices")
                extra = set(o_after[rel_dir]) - set(o_before[rel_dir]) - {rel, os.path.relpath(itp, dirs[rel_dir])}
                if extra:
                    V(f"output:extra-files:{cls}:{mk}", f"{tag}: unexpected files {sorted(extra)[:4]}")
            else:
                ctx.ctr("no_output_asserted")
                if got is not None and got not in (SENTINEL, LONG_SENTINEL):
                    V(f"output:written-on-failure:{cls}:{mk}", f"{tag}: an XForm ({len(got)} chars) is at the output path although the run failed (outcome {okind})")
                if plain_removes and got is not None:
                    V(f"output:not-removed:{cls}:{mk}", f"{tag}: plain mode must remove the output file when the validator rejects; it still exists")
                if not plain_removes and sc["pre"] and sc["fp"] != "outdir_missing" and mk == "json" and got is None and cls != "reject":
                    pass  # removal of a stale file is not forbidden
                new = set(o_after[rel_dir]) - set(o_before[rel_dir])
                if new:
                    V(f"output:new-files-on-failure:{cls}:{mk}", f"{tag}: new files after a failed run: {sorted(new)[:4]}")

        # ------------------------------------------------------------------ 4. per entry point
        if mk == "lib":
            rp = spec["result"]
            if not os.path.exists(rp):
                V(f"driver:no-result:{cls}", f"library driver died: rc={p.returncode} {perr[-300:]}")
                return
            r = json.load(open(rp))
            if not r["ok"] and not (r["is_pyxform"] or r["is_odk"] or r["is_oserror"]):
                V(f"internal-exception:{r['exc_type']}:{cls}:lib", f"{tag}: {r['exc_type']}: {r['exc_msg'][:200]}")
                return
            if cls in ("accept", "noval", "accept_warn"):
                if not r["ok"]:
                    V(f"accept-failed:{cls}:lib", f"{tag}: validator accepted (outcome {okind}) but conversion raised {r['exc_type']}: {r['exc_msg'][:200]}")
                else:
                    if r["xform"] != ref.xform or r["itemsets"] != ref.itemsets:
                        V(f"result-differs:{cls}:lib", f"{tag}: xform/itemsets differ from the unvalidated conversion of the same file")
                    w = list(r["warnings"])
                    if cls == "accept_warn":
                        hit = [x for x in w if val_warning_text.strip() and val_warning_text.strip() in x]
                        if len(hit) != 1:
                            V(f"warnings:validator-stderr-not-surfaced:{sc['shape']}:lib", f"{tag}: validator stderr appears in {len(hit)} warnings (expected exactly 1): {w[:3]!r}")
                        else:
                            w.remove(hit[0])
                            ctx.ctr("validator_warnings_judged")
                    if w != ref.warnings:
                        V(f"warnings:differ:{cls}:lib", f"{tag}: warnings {w[:4]!r} != conversion warnings {ref.warnings[:4]!r} (+ validator output)")
            elif cls == "reject":
                if r["ok"]:
                    V(f"reject-accepted:{okind.split(':')[0]}:lib", f"{tag}: validator rejected (rc {jsc['rc']}, outcome {okind}) but convert() returned an XForm")
                elif not r["is_odk"]:
                    V(f"reject-wrong-error:{r['exc_type']}:lib", f"{tag}: expected ODKValidateError, got {r['exc_type']}: {r['exc_msg'][:160]}")
                else:
                    judge_reject_message(r["exc_msg"], "convert()")
            elif cls == "nojava":
                if r["ok"] or not r["is_oserror"] or "java" not in r["exc_msg"].lower():
                    V("nojava:lib", f"{tag}: java absent must raise an OSError naming Java; got {'result' if r['ok'] else r['exc_type'] + ': ' + r['exc_msg'][:120]}")
            elif cls == "convfail_or_nojava":
                if r["ok"] or not ((r["is_pyxform"] and r["exc_msg"] == ref.exc_msg) or (r["is_oserror"] and "java" in r["exc_msg"].lower())):
                    V("convfail-or-nojava:lib", f"{tag}: expected the conversion error or the missing-Java error; got {'result' if r['ok'] else r['exc_type'] + ': ' + r['exc_msg'][:120]}")
            elif cls == "convfail":
                if r["ok"] or not r["is_pyxform"] or r["exc_msg"] != ref.exc_msg:
                    V("convfail:lib", f"{tag}: expected the conversion error {ref.exc_msg[:120]!r}; got {'result' if r['ok'] else r['exc_type'] + ': ' + r['exc_msg'][:120]}")
            elif cls == "ioerror":
                if r["ok"] or not r["is_oserror"]:
                    V(f"ioerror:{sc['fp']}:lib", f"{tag}: injected OSError did not surface as OSError: {'result' if r['ok'] else r['exc_type']}")
            elif cls == "abnormal":
                if r["ok"]:
                    ctx.ctr(f"abnormal_mapping:{okind}:accepted-with-{len(r['warnings']) - len(ref.warnings)}-extra-warnings")
                    if r["xform"] != ref.xform:
                        V("result-differs:abnormal:lib", f"{tag}: xform differs from the unvalidated conversion")
                else:
                    ctx.ctr(f"abnormal_mapping:{okind}:{r['exc_type']}")
            return
        # ---- CLI
        if "Traceback (most recent call last)" in perr and not (mk == "plain" and cls in ("convfail", "convfail_or_nojava", "ioerror", "reject", "nojava")) and "logger.exception" not in perr:
            # plain mode logs handled errors with logger.exception (which prints a traceback); everything else must not show one
            if mk == "json":
                V(f"cli:traceback:{cls}:{mk}", f"{tag}: traceback on stderr: {perr[-300:]}")
        outdir_fail = sc["fp"] == "outdir_missing"
        if mk == "json":
            js = None
            for line in perr.splitlines():
                line = line.strip()
                if line.startswith("{") and line.endswith("}"):
                    try:
                        js = json.loads(line)
                    except ValueError:
                        pass
            if js is None:
                V(f"cli:no-json:{cls}", f"{tag}: --json produced no JSON report; rc={p.returncode} stderr={perr[-300:]!r}")
                return
            code, msg, warns = js.get("code"), js.get("message"), js.get("warnings")
            ctx.ctr(f"json_code:{code}")
            success_expected = cls in ("accept", "noval", "accept_warn") and not outdir_fail
            if success_expected:
                w = list(warns or [])
                if cls == "accept_warn":
                    hit = [x for x in w if val_warning_text.strip() in x]
                    if len(hit) != 1:
                        V(f"warnings:validator-stderr-not-surfaced:{sc['shape']}:json", f"{tag}: validator stderr appears in {len(hit)} warnings (expected 1)")
                    else:
                        w.remove(hit[0])
                        ctx.ctr("validator_warnings_judged")
                if w != ref.warnings:
                    V(f"warnings:differ:{cls}:json", f"{tag}: JSON warnings {w[:3]!r} != conversion warnings {ref.warnings[:3]!r}")
                expc = 101 if (warns) else 100
                want = 101 if (ref.warnings or cls == "accept_warn") else 100
                if code != want:
                    V(f"json-code:{cls}:{code}", f"{tag}: JSON code {code}, expected {want} (warnings: {len(warns or [])})")
                judge_outputs_written(True)
            elif cls == "abnormal" and not outdir_fail:
                ctx.ctr(f"abnormal_mapping:{okind}:json-{code}")
                if code in (100, 101):
                    judge_outputs_written(True)
                elif code == 999:
                    judge_outputs_written(False)
                else:
                    V(f"json-code:abnormal:{code}", f"{tag}: unexpected JSON code {code}")
            else:
                if code != 999:
                    V(f"json-code:{cls}:{code}", f"{tag}: failure (outcome {okind}, fp {sc['fp']}) reported with JSON code {code}, expected 999")
                if cls == "reject" and not outdir_fail or (cls == "reject" and outdir_fail):
                    judge_reject_message(msg or "", "--json message")
                elif cls == "convfail_or_nojava" and msg != ref.exc_msg and "java" not in (msg or "").lower():
                    V("convfail-or-nojava:json", f"{tag}: JSON message {str(msg)[:120]!r} is neither the conversion error nor the missing-Java error")
                elif cls == "convfail" and msg != ref.exc_msg:
                    V("convfail:json", f"{tag}: JSON message {str(msg)[:120]!r} != conversion error {ref.exc_msg[:120]!r}")
                elif cls == "nojava" and "java" not in (msg or "").lower():
                    V("nojava:json", f"{tag}: JSON message does not name Java: {str(msg)[:120]!r}")
                if not outdir_fail:
                    judge_outputs_written(False)
            return
        # ---- plain
        complete = "Conversion complete!" in perr
        if cls in ("accept", "noval", "accept_warn") and not outdir_fail:
            if not complete:
                V(f"plain:not-complete:{cls}", f"{tag}: success expected but 'Conversion complete!' not logged; rc={p.returncode} stderr={perr[-300:]!r}")
            for wtxt in ref.warnings + ([val_warning_text.strip()] if cls == "accept_warn" else []):
                if wtxt.strip() and wtxt.strip().splitlines()[0] not in perr:
                    V(f"plain:warning-not-logged:{cls}", f"{tag}: warning not logged: {wtxt[:100]!r}")
                    break
            if cls == "accept_warn":
                ctx.ctr("validator_warnings_judged")
            judge_outputs_written(True)
        elif cls == "abnormal" and not outdir_fail:
            ctx.ctr(f"abnormal_mapping:{okind}:plain-{'complete' if complete else 'failed'}")
            judge_outputs_written(complete)
        else:
            if complete:
                V(f"plain:complete-on-failure:{cls}", f"{tag}: 'Conversion complete!' logged although the run failed (outcome {okind}, fp {sc['fp']})")
            reported = p.returncode != 0 or "Error" in perr or "error" in perr
            if not reported:
                V(f"plain:failure-not-reported:{cls}", f"{tag}: nothing reports the failure; rc=0 stderr={perr[-200:]!r}")
            if cls == "reject":
                if "ODKValidateError" not in perr:
                    V("plain:reject-not-logged", f"{tag}: rejection not logged as ODKValidateError: {perr[-300:]!r}")
                # the diagnostic must be in the log
                body = perr
                if okind != "corruptjar":
                    ctx.ctr("rejects_judged")
                    missing = [e for e, strict in exp_lines if e.strip() and e.strip() not in body]
                    noise = [l for l in decode(stderr_b).splitlines() if ("\tat" in l) and l.strip() and l in body]
                    if missing:
                        V(f"reject-message:lines-lost:{sc['shape']}:plain", f"{tag}: diagnostic lines missing from the log: {missing[:3]!r}", stderr=decode(stderr_b)[:2000])
                    if noise:
                        V(f"reject-message:java-noise-kept:{sc['shape']}:plain", f"{tag}: Java stack lines of the validator kept in the log: {noise[:2]!r}")
                if not outdir_fail:
                    judge_outputs_written(False, plain_removes=True)
            elif cls == "convfail_or_nojava":
                if ref.exc_msg.splitlines()[0][:80] not in perr and "java" not in perr.lower():
                    V("convfail-or-nojava:plain", f"{tag}: neither the conversion error nor missing Java reported: {perr[-300:]!r}")
                if not outdir_fail:
                    judge_outputs_written(False)
            elif cls == "convfail":
                if ref.exc_msg.splitlines()[0][:80] not in perr:
                    V("convfail:plain", f"{tag}: conversion error not reported: {perr[-300:]!r}")
                if not outdir_fail:
                    judge_outputs_written(False)
            elif cls == "nojava":
                if "java" not in perr.lower():
                    V("nojava:plain", f"{tag}: missing Java not reported: {perr[-300:]!r}")
                if not outdir_fail:
                    judge_outputs_written(False)
            elif not outdir_fail:
                judge_outputs_written(False)
        if ctx_sample_wanted(ctx, cls):
            ctx.sample({"script": {k: sc[k] for k in ("outcome", "mode", "form", "pre", "pretty", "fp")}, "class": cls, "cli_rc": p.returncode,
                        "stderr_tail": perr[-300:], "validator_calls": len(calls), "tmp_after": sorted(after["tmp"]), "out_after": sorted(after["out"])}, force=True)
    finally:
        shutil.rmtree(d, ignore_errors=True)


_sampled = set()


def ctx_sample_wanted(ctx, cls):
    if cls in _sampled or len(_sampled) >= 2:
        return False
    if cls in ("reject", "nojava"):
        _sampled.add(cls)
        return True
    return False


FILE_ROUTE_CHILD = r"""
import json, os, sys
spec = json.load(open(sys.argv[1]))
os.chdir(spec["cwd"])
from pyxform.errors import PyXFormError
from pyxform.validators.odk_validate import ODKValidateError
from pyxform.xls2xform import convert
sv = convert(xlsform=spec["md"], file_type=".md", validate=False, form_name="data")._survey
w = []
try:
    sv.print_xform_to_file(spec["path"], validate=True, pretty_print=False, warnings=w)
    rec = {"ok": True, "warnings": w}
except BaseException as e:
    rec = {"ok": False, "exc_type": type(e).__name__, "exc_msg": str(e), "is_odk": isinstance(e, ODKValidateError)}
json.dump(rec, open(spec["result"], "w"))
"""


def file_route_scripts(ctx):
    """The builder route that writes the file itself - Survey.print_xform_to_file(path, validate=True) - with the path given relative to the working
    directory, in a sub-folder, or absolute: the validator is shown the file that was written (it exists while the validator runs and holds the
    document), its verdict is honoured, an accepted form is at the path afterwards, and nothing is left in the temp directory."""
    md = "| survey |\n| | type | name | label |\n| | text | q1 | Q1 |\n| | integer | q2 | Q2 |\n"
    ref = drive.call_convert(md, file_type=".md", form_name="data")
    if not ref.ok:
        return
    k = 0
    for outcome in ("accept", "accept_warn", "reject"):
        for kind in ("relative", "relative-subfolder", "absolute"):
            k += 1
            if not ctx.mine(k):
                continue
            d = tempfile.mkdtemp(prefix="c18file_")
            try:
                dirs = {n: os.path.join(d, n) for n in ("bin", "tmp", "cwd")}
                for v_ in dirs.values():
                    os.makedirs(v_)
                os.makedirs(os.path.join(dirs["cwd"], "out"))
                jsc = {"rc": 1 if outcome == "reject" else 0, "log": os.path.join(d, "java_calls.jsonl"), "copy_to": os.path.join(d, "java_saw.xml"),
                       "stderr_hex": (b"Error: bad thing at /data/q1\n" if outcome == "reject" else (b"a warning about /data/q2\n" if outcome == "accept_warn" else b"")).hex()}
                jscp = os.path.join(d, "java_scenario.json")
                json.dump(jsc, open(jscp, "w"))
                jp = os.path.join(dirs["bin"], "java")
                with open(jp, "w") as fh:
                    fh.write(SCRIPT)
                os.chmod(jp, 0o755)
                env = {"HOME": d, "TMPDIR": dirs["tmp"], "PYTHONPATH": os.pathsep.join([REPO, VERIF]), "PYTHONDONTWRITEBYTECODE": "1", "PYTHONHASHSEED": "0",
                       "VERIF_JAVA_SCENARIO": jscp, "LANG": "C.UTF-8", "PATH": dirs["bin"] + ":/usr/bin:/bin"}
                path = {"relative": "form_out.xml", "relative-subfolder": os.path.join("out", "form_out.xml"), "absolute": os.path.join(dirs["cwd"], "out", "abs_out.xml")}[kind]
                full = path if os.path.isabs(path) else os.path.join(dirs["cwd"], path)
                # a file of the same relative name in the temp directory: the validator must not be shown that one
                with open(os.path.join(dirs["tmp"], "form_out.xml"), "w") as fh:
                    fh.write("<decoy/>")
                os.makedirs(os.path.join(dirs["tmp"], "out"))
                with open(os.path.join(dirs["tmp"], "out", "form_out.xml"), "w") as fh:
                    fh.write("<decoy/>")
                tmp_before = listing(dirs["tmp"])
                spec = {"cwd": dirs["cwd"], "md": md, "path": path, "result": os.path.join(d, "result.json")}
                specp = os.path.join(d, "spec.json")
                json.dump(spec, open(specp, "w"))
                try:
                    pr = subprocess.run([PY, "-c", FILE_ROUTE_CHILD, specp], cwd=d, env=env, capture_output=True, timeout=120)
                except subprocess.TimeoutExpired:
                    ctx.ctr("script_timeout")
                    continue
                ctx.case(sig=f"file-route|{outcome}|{kind}")
                ctx.ctr("file_route_scripts")
                wit = {"klass": "file-route", "outcome": outcome, "path_kind": kind}
                if not os.path.exists(spec["result"]):
                    ctx.viol("file-route:child-died", pr.stderr.decode("utf-8", "replace")[-300:], wit)
                    continue
                rec = json.load(open(spec["result"]))
                calls = [json.loads(l) for l in open(jsc["log"])] if os.path.exists(jsc["log"]) else []
                if len(calls) != 1:
                    ctx.viol(f"file-route:validator-calls:{outcome}", f"[{kind}] the validator ran {len(calls)}x", wit)
                for c in calls:
                    ctx.ctr("validator_invocations_observed")
                    if not c["exists"]:
                        ctx.viol(f"file-route:validator-input:missing:{kind}", f"[{outcome}] the validator was pointed at {c['argv'][-1]!r}, which did not exist where it ran (written to {full})", wit)
                    elif c["sha"] != hashlib.sha256(ref.xform.encode("utf-8")).hexdigest():
                        ctx.viol(f"file-route:validator-input:another-file:{kind}", f"[{outcome}] the validator was shown a file that is not the document written ({c['size']} bytes)", wit)
                if outcome == "reject":
                    ctx.ctr("rejects_judged")
                    if rec["ok"] or not rec.get("is_odk"):
                        ctx.viol(f"file-route:reject-not-raised:{kind}", f"the validator rejected (exit 1) but print_xform_to_file gave {rec}", wit)
                    elif "${q1}" not in rec["exc_msg"]:
                        ctx.viol(f"file-route:reject-message:{kind}", f"diagnostic not carried: {rec['exc_msg'][:200]!r}", wit)
                else:
                    if not rec["ok"]:
                        ctx.viol(f"file-route:accepted-form-refused:{kind}", f"the validator accepted (exit 0) but print_xform_to_file raised {rec.get('exc_type')}: {rec.get('exc_msg', '')[:200]}", wit)
                    else:
                        ctx.ctr("outputs_compared")
                        got = open(full, encoding="utf-8").read() if os.path.exists(full) else None
                        if got != ref.xform:
                            ctx.viol(f"file-route:output:{kind}", f"the file at the path {'is missing' if got is None else 'differs from the document'}", wit)
                        if outcome == "accept_warn" and not any("q2" in x for x in rec.get("warnings", [])):
                            ctx.viol(f"file-route:warning-lost:{kind}", f"the validator's stderr is not among the warnings: {rec.get('warnings')}", wit)
                left = sorted(set(listing(dirs["tmp"])) - set(tmp_before))
                ctx.ctr("residue_listings")
                if left:
                    ctx.viol(f"file-route:residue:tmp:{outcome}", f"[{kind}] left in the temp directory: {left[:4]}", wit)
            finally:
                shutil.rmtree(d, ignore_errors=True)


def run_shard(ctx):
    file_route_scripts(ctx)
    S = enumerate_scripts(ctx.tier, ctx.seed)
    FORMS = forms()
    base = tempfile.mkdtemp(prefix="c18base_")
    try:
        for sc in S:
            if not ctx.mine(sc["id"]):
                continue
            run_script(ctx, sc, base, FORMS, ctx.seed)
    finally:
        shutil.rmtree(base, ignore_errors=True)
        left = os.listdir(os.environ.get("TMPDIR", "/nonexistent")) if os.path.isdir(os.environ.get("TMPDIR", "/nonexistent")) else []
        left = [x for x in left if not x.startswith(("c18base_", "hsperfdata"))]
        if left:
            ctx.viol("residue:worker-tmpdir", f"files left in the worker's own TMPDIR by in-process reference conversions: {left[:4]}")


def aggregate(agg, plan_, tier, seed):
    agg["extra_coverage"] = {
        "fault_scripts_enumerated": len(enumerate_scripts(tier, seed)),
        "outcome_kinds": [o for o, _ in outcomes(tier)],
        "modes": MODES, "failpoints": FAILPOINTS,
        "abnormal_outcome_mappings_observed": {k: v for k, v in agg["counters"].items() if k.startswith("abnormal_mapping:")},
    }


def replay(w):
    class C(common.ReplayCtx):
        pass
    ctx = C(PROP, seed=w.get("seed", 0))
    sc = (w.get("witness") or {}).get("script")
    print(f"replaying C18 script {sc}")
    base = tempfile.mkdtemp(prefix="c18replay_")
    try:
        if (w.get("witness") or {}).get("klass") == "file-route":
            ctx.mine = lambda k: True
            file_route_scripts(ctx)  # nine scripts: run the family whole
        else:
            run_script(ctx, sc, base, forms(), w.get("seed", 0))
    finally:
        shutil.rmtree(base, ignore_errors=True)
    if ctx.viols:
        print("VIOLATION property=C18 replay=(this file)")
        return 1
    print("not reproduced on the current tree")
    return 0
