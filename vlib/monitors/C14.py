"""C14 — conversion is a pure function of its input.

Offline checker over boundary logs.  Every shard is a fresh process with its own
PYTHONHASHSEED and converts the *same* batch; each conversion logs digests of
(xform, warnings, itemsets | exception).  Rule: equal input => equal digests
 (a) across processes / hash seeds                      [aggregate()]
 (b) across orders inside one process (permutations; confusable neighbours with gc)
 (c) across N concurrent threads (switch interval 1e-6; thorough: sys.monitoring yield injection)
 (d) across regenerations: survey.to_xml() x3, convert() twice on the same dict object
 (e) residue: every temp file created during a call is gone when it returns (audit-hook
     ledger + private TMPDIR listing), module tables unchanged (deep snapshot), memoised
     answers == uncached answers (shadow calls of __wrapped__).
"""
from __future__ import annotations

import gc
import os
import sys
import threading

from .. import common, drive, gen, hooks, render
from ..model import Form, Row

PROP = "C14"
LEVEL = "exploration"
TECHNIQUE = "offline history checker over boundary logs (hash seeds x orders x threads x regeneration) + audit-hook temp-file ledger + cache shadow calls + module-table snapshots"
RULE = ("cases = executions of convert()/to_xml() on a fixed batch of forms (with confusable neighbours: same names/paths but group<->repeat "
        "flipped, same list names with different contents, several custom namespaces, external choices without header rows) under different "
        "PYTHONHASHSEED values, orders, thread schedules and regeneration counts; non-trivial = an execution whose digest was compared "
        "with at least one other execution of the same input; distinct = distinct (input, history kind, hash seed)")
ASSUMPTIONS = ["hash seeds, orders and schedules are sampled, not enumerated", "yield injection works at line granularity only"]

HASHSEEDS_QUICK = ["0", "1", "2", "3", "17", "4242", "99991", "123456789"]


def plan(tier, seed):
    seeds = HASHSEEDS_QUICK if tier == "quick" else [str(x) for x in list(range(0, 12)) + [101, 2024, 31337, 65536, 99991, 123456789, 4000000000, 777]]
    nb = 90 if tier == "quick" else 500
    return {"shards": len(seeds), "timeout": 900 if tier == "quick" else 3600, "batch": nb, "seeds": seeds,
            "per_shard_env": lambda i: {"PYTHONHASHSEED": seeds[i]},
            "floors": {"suite_conversions_judged": 500, "digest_comparisons": nb * len(seeds), "thread_conversions": nb * 2, "temp_files_tracked": nb, "cache_shadow_evals": 1000,
                       "cross_process_groups": nb, "regeneration_after_refusal": 5 * len(seeds)}}


# ----------------------------------------------------------------------------- batch
def confusable_pair(k):
    """Two forms with identical names and paths; 'b' is a group in one and a repeat in the other."""
    def mk(kind):
        inner = Row(kind, f"begin {kind}", "b", {"label": "B"}, [Row("q", "integer", "q", {"label": "Q"}),
                                                                  Row("q", "calculate", "c", {"calculation": "${q} + 1"})])
        outer = Row("repeat", "begin repeat", "a", {"label": "A"}, [inner, Row("q", "text", "t", {"label": "T ${q}", "relevant": "${q} > 1"})])
        f = Form()
        f.survey = [outer]
        f.settings = {"form_id": f"cf{k}", "form_title": "cf"}
        return f
    return mk("group"), mk("repeat")


def special_forms():
    out = []
    f = gen.simple_form([("text", "q1", {"label": "L", "bind::a:x": "1", "bind::b:y": "2", "body::c:z": "3"})],
                        settings={"namespaces": 'a="http://a.example/x" b="http://b.example/x" c="http://c.example/x" d="http://d.example/x"', "form_id": "ns"})
    out.append(("namespaces4", f, {}))
    g = gen.simple_form([("text", "src", {"label": "S"}), ("select_one_external ext", "e1", {"label": "E", "choice_filter": "grp=${src}"})])
    g.external_choices = [{"list_name": "ext", "name": "a", "label": "A", "grp": "g1", "zzz": "1", "aaa": "2"}, {"list_name": "ext", "name": "b", "label": "B", "grp": "g2", "mmm": "3"}]
    out.append(("external-no-header", g, {"with_headers": False}))
    out.append(("external-with-header", g, {}))
    h = gen.simple_form([("select_one l1 or_other", "s1", {"label::en": "S", "label::fr": "S", "label::de": "S", "label::es": "S"}),
                         ("select_multiple l1 or_other", "s2", {"label::en": "T", "label::fr": "T", "label::de": "T", "label::es": "T"})],
                        choices={"l1": [{"name": "a", "label::en": "A", "label::fr": "A", "label::de": "A", "label::es": "A"},
                                        {"name": "b", "label::es": "B", "label::de": "B"}]})
    out.append(("or_other-4-languages", h, {}))
    m = gen.simple_form([("text", "q1", {"label::en": "L", "hint::fr": "H", "image::de": "i.png", "constraint_message::es": "m", "constraint": ". != ''"}),
                         ("select_one l1", "q2", {"label::en": "x"})], choices={"l1": [{"name": "a", "label::fr": "A", "image::es": "a.png"}]})
    out.append(("missing-translations-4-languages", m, {}))
    e = gen.simple_form([("text", "a", {"label": "A", "save_to": "pa"}), ("text", "b", {"label": "B", "save_to": "pb"})],
                        settings={"namespaces": 'x="http://x.example/1" y="http://y.example/1"'})
    e.entities = {"list_name": "ents", "label": "${a}"}
    out.append(("entities+namespaces", e, {}))
    # several external data sources named from different cells of one row (iteration order over module-level sets must not leak into the output)
    out.append(("pulldata-in-four-binds", gen.simple_form([
        ("text", "k", {"label": "K"}),
        ("integer", "v", {"label": "V", "calculation": "pulldata('fa', 'a', 'k', ${k})", "constraint": ". < pulldata('fb', 'a', 'k', ${k})",
                          "relevant": "pulldata('fc', 'a', 'k', ${k}) != ''", "required": "pulldata('fd', 'a', 'k', ${k}) = 'y'",
                          "read_only": "pulldata('fe', 'a', 'k', ${k}) = 'y'"})]), {}))
    # an error message that lists a module-level set
    out.append(("from-file-bad-extension-error", gen.simple_form([("select_one_from_file cities.txt", "c", {"label": "C"})]), {}))
    # both id headers: the converter drops one of them - from its own copy, not from the caller's workbook
    out.append(("both-id-headers", gen.simple_form([("text", "q", {"label": "Q"})], settings={"id_string": "ids", "form_id": "fid", "form_title": "t"}), {}))
    # legacy columns/settings that the converter consumes destructively (row.pop, rewriting the value in place): on its own copy, never in the caller's workbook
    out.append(("disabled-column", gen.simple_form([("text", "on", {"label": "On", "disabled": "no"}), ("text", "off", {"label": "Off", "disabled": "yes"}), ("text", "q", {"label": "Q"})]), {}))
    out.append(("add-none-option", gen.simple_form([("select_multiple l1", "s", {"label": "S"}), ("text", "q", {"label": "Q"})], choices={"l1": [{"name": "a", "label": "A"}, {"name": "b", "label": "B"}]},
                                                   settings={"add_none_option": "yes", "form_id": "ano"}), {}))
    out.append(("omit-instance-id+both-ids", gen.simple_form([("text", "q", {"label": "Q"})], settings={"omit_instanceID": "yes", "id_string": "ids", "form_id": "fid"}), {}))
    # a setting that changes one generated element for this form only (the instanceID preload): the next form gets the default again
    out.append(("instance-id-setting", gen.simple_form([("text", "q", {"label": "Q"})], settings={"instance_id": "timestamp", "form_id": "iid"}), {}))
    out.append(("instance-id-setting-dict-no-headers", gen.simple_form([("text", "q", {"label": "Q"})], settings={"instance_id": "myuid", "form_id": "iid2"}), {"with_headers": False}))
    # a refusal whose message lists several questions (collected in sets): same text in every process
    trs = {"label::en": "S", "label::fr": "S"}
    out.append(("refusal-naming-several-questions", gen.simple_form(
        [("select_one l1", "s1", dict(trs, appearance="search('f')"))] + [("select_one l1", f"plain_{w}", dict(trs)) for w in ("alpha", "bravo", "charlie", "delta", "echo")] +
        [("select_one l1", "s9", dict(trs, appearance="search('g')"))], choices={"l1": [{"name": "a", "label::en": "A", "label::fr": "A"}]}), {}))
    # confusable neighbours for anything memoised per language label / subtag: same subtag in another letter case, padded, unknown
    for v, lang in enumerate(["French (fr)", "French (FR)", "French ( fr )", "Fr (Fr)", "Klingon (tlh)", "Klingon (TLH)", "xx (zz)", "XX (ZZ)"]):
        out.append((f"language-label-{v}", gen.simple_form([("text", "q", {f"label::{lang}": "L", f"hint::{lang}": "H"})], settings={"form_id": "lang"}), {}))
    # shared singletons: every form that mentions last-saved needs its own instance declaration
    for v in range(4):
        out.append((f"last-saved-{v}", gen.simple_form([("text", f"x{v}", {"label": "X", "default": "${last-saved#x%d}" % v}),
                                                        ("integer", "y", {"label": "Y", "relevant": "${last-saved#y} > %d" % v}),
                                                        ("begin group", f"g{v}", {"label": "G"}, [("text", "z", {"label": "Z ${x%d}" % v})])],
                                                       settings={"form_id": f"ls{v}"}), {}))
    # reading tables during generation must not change them: triggers + a name used in two groups (never referenced)
    out.append(("trigger+same-name-in-two-groups", gen.simple_form([
        ("text", "t0", {"label": "T"}), ("calculate", "c0", {"calculation": "${t0} + 1", "trigger": "${t0}"}),
        ("begin group", "ga", {"label": "A"}, [("text", "comment", {"label": "C"})]),
        ("begin group", "gb", {"label": "B"}, [("text", "comment", {"label": "C"}), ("background-geopoint", "bg", {"trigger": "${t0}"})])]), {}))
    # cell values made of several words (appearances, parameters, multi-word types): word order in the output may not depend on the hash seed
    out.append(("many-word-appearances", gen.simple_form([
        ("begin group", "tl", {"label": "TL", "appearance": "table-list w4 no-collapse compact minimal"}, [("select_one l1", "t1", {"label": "a"}), ("select_one l1", "t2", {"label": "b"})]),
        ("begin repeat", "tr", {"label": "TR", "appearance": "table-list zeta alpha mid"}, [("select_multiple l1", "t3", {"label": "c"})]),
        ("begin group", "fl", {"label": "FL", "appearance": "field-list w8 no-collapse custom-a custom-b"}, [("text", "t4", {"label": "d", "appearance": "multiline w3 numbers thousands-sep"})]),
        ("select_one l1", "s9", {"label": "S", "appearance": "minimal quick w2 horizontal-compact", "parameters": "randomize=true seed=3"}),
        ("range", "r9", {"label": "R", "parameters": "start=1 end=9 step=2", "appearance": "vertical no-ticks picker"})],
        choices={"l1": [{"name": "x", "label": "X"}, {"name": "y", "label": "Y"}]}), {}))
    # names the converter generates (count helpers, table-list helpers, or_other companions) meeting names the author already uses
    out.append(("generated-name-meets-authors-name", gen.simple_form([
        ("integer", "n", {"label": "N"}), ("calculate", "member_count", {"calculation": "${n} + 1"}),
        ("begin repeat", "member", {"label": "M", "repeat_count": "${n} * 2"}, [("text", "nm", {"label": "name"})])]), {}))
    out.append(("or-other-companion-meets-authors-name", gen.simple_form([
        ("select_one l1 or_other", "pick", {"label": "P"}), ("text", "pick_other", {"label": "mine"})],
        choices={"l1": [{"name": "x", "label": "X"}, {"name": "y", "label": "Y"}]}), {}))
    for v in range(3):
        rows = [("text", "a", {"label": "A"}), ("text", "b", {"label": "B"})]
        for k in range(24):
            rows.append(("note", f"n{v}_{k}", {"label": f"v{v} k{k} " + "x" * k + f" instance('l1')/root/item[name = ${{a}}]/label mid{k} instance('l1')/root/item[name = ${{b}} and {k} < 99]/label end"}))
        rows.append(("select_one l1", "s", {"label": "S"}))
        out.append((f"instance-labels-{v}", gen.simple_form(rows, choices={"l1": [{"name": "x", "label": "X"}, {"name": "y", "label": "Y"}]}), {}))
    return out


def late_failing_forms():
    """Forms that pass workbook_to_json and tree building but are refused inside to_xml() (after itext preparation has started)."""
    tr = {"label::en": "S", "label::fr": "S"}
    ch = {"l1": [{"name": "a", "label::en": "A", "label::fr": "A"}, {"name": "b", "label::en": "B", "label::fr": "B"}]}
    out = []
    out.append(("search-and-plain-share-list", gen.simple_form([("select_one l1", "s1", dict(tr, appearance="search('f')")), ("select_one l1", "s2", dict(tr))], choices=ch)))
    # the refusal names the other users of the list: several of them, so that any unordered collection behind the message shows across hash seeds
    out.append(("search-and-five-plain-share-list", gen.simple_form([("select_one l1", "s1", dict(tr, appearance="search('f')"))] +
                                                                    [("select_one l1", f"plain_{w}", dict(tr)) for w in ("alpha", "bravo", "charlie", "delta", "echo")] +
                                                                    [("select_one l1", "s9", dict(tr, appearance="search('g')"))], choices=ch)))
    out.append(("search-on-select-from-file", gen.simple_form([("select_one_from_file c.csv", "s1", dict(tr, appearance="search('f')")), ("text", "t", dict(tr))], choices=ch)))
    out.append(("unknown-reference-in-label", gen.simple_form([("text", "t", {"label::en": "x ${nosuch}", "label::fr": "y"}), ("select_one l1", "s2", dict(tr))], choices=ch)))
    out.append(("unknown-reference-in-choice-label", gen.simple_form([("select_one l1", "s2", dict(tr))],
                                                                       choices={"l1": [{"name": "a", "label::en": "A ${nosuch}", "label::fr": "A"}]})))
    out.append(("label-missing", gen.simple_form([("text", "t", {"hint::en": "h"}), ("text", "u", {})], choices=ch)))
    out.append(("instance-id-clash", gen.simple_form([("xml-external", "l1", {}), ("select_one l1", "s2", dict(tr))], choices=ch)))
    out.append(("valid-control", gen.simple_form([("select_one l1", "s1", dict(tr, appearance="search('f')")), ("text", "t", dict(tr))], choices=ch)))
    return out


def make_batch(seed, n):
    """[(case_id, kind, form, render_kw)] — identical in every shard."""
    import random
    batch = []
    for name, f, kw in special_forms():
        batch.append((f"special:{name}", "special", f, kw))
    for k in range(6):
        a, b = confusable_pair(k % 2)
        batch.append((f"confusable:{k}:group", "confusable", a, {}))
        batch.append((f"confusable:{k}:repeat", "confusable", b, {}))
    i = 0
    while len(batch) < n:
        rng = random.Random(f"C14|{seed}|batch|{i}")
        f = gen.gen_form(rng, common.rich_cfg(rng, p_trigger=0.2, p_or_other=0.3, p_choice_filter=0.3, max_depth=4, p_repeat=0.25))
        if i % 9 == 0:
            f.settings["namespaces"] = 'k1="http://k1.example/x" k2="http://k2.example/x" k3="http://k3.example/x"'
        batch.append((f"core:{i}", "core", f, {}))
        i += 1
    return batch


def digests(o):
    import hashlib
    def h(s):
        return hashlib.sha256(s.encode("utf-8")).hexdigest()[:16]
    if o.ok:
        return {"outcome": "ok", "xform": h(o.xform), "warnings": h("\x01".join(o.warnings)), "itemsets": h(o.itemsets or "<none>")}
    return {"outcome": "exc", "xform": h(f"{o.exc_type}:{o.exc_msg}"), "warnings": "-", "itemsets": "-"}


def first_diff(a, b):
    for k in ("outcome", "xform", "warnings", "itemsets"):
        if a[k] != b[k]:
            return k
    return None


def conv(form, kw):
    return drive.call_convert(render.to_dict(form.to_sheets(), **kw), **form.args)


# ----------------------------------------------------------------------------- shard = one process / one hash seed
def run_shard(ctx):
    import random
    pl = plan(ctx.tier, ctx.seed)
    hs = os.environ.get("PYTHONHASHSEED")
    batch = make_batch(ctx.seed, pl["batch"])
    hooks.install_cache_shadows()
    tables0 = hooks.snapshot_tables()
    tmpdir = os.environ.get("TMPDIR")
    base = {}
    # -- pass 1: sequential, with temp-file ledger.  Every other process meets the forms in its own order, so that anything remembered
    #    from the *first* encounter (of a text, a language label, a file name) differs between the processes that aggregate() compares.
    first_order = list(batch)
    if ctx.shard % 2 == 1:
        random.Random(f"first-pass|{ctx.seed}|{ctx.shard}").shuffle(first_order)
    for cid, kind, form, kw in first_order:
        with hooks.audit_window() as aw:
            o = conv(form, kw)
        d = digests(o)
        base[cid] = d
        ctx.obs(case=cid, hs=hs, **d)
        ctx.ctr("temp_files_tracked", len(aw.created))
        if aw.leaked:
            ctx.viol("residue:temp-file-left-after-convert", f"temp file(s) {aw.leaked[:2]} still exist after convert() returned ({d['outcome']})",
                     common.witness(form, case=cid))
        ctx.case(sig=f"{cid}|seq|{hs}")
    ctx.sample({"hash_seed": hs, "batch": len(batch), "first_cases": [c[0] for c in batch[:8]], "observed": "digests logged for offline comparison"}, force=(ctx.shard == 0))
    # -- pass 2: permutations inside the process
    nperm = 2 if ctx.tier == "quick" else 4
    for p in range(nperm):
        order = list(range(len(batch)))
        random.Random(f"perm|{ctx.seed}|{hs}|{p}").shuffle(order)
        for idx in order:
            cid, kind, form, kw = batch[idx]
            d = digests(conv(form, kw))
            ctx.ctr("digest_comparisons")
            ctx.case(sig=f"{cid}|perm{p}|{hs}")
            fd = first_diff(base[cid], d)
            if fd:
                ctx.viol(f"order-dependence:{kind}:{fd}", f"{cid}: {fd} differs between the first pass and permutation {p} in the same process (hash seed {hs})",
                         common.witness(form, case=cid, history=f"perm{p}"))
    # -- pass 3: confusable neighbours with garbage collection in between (stale object-keyed caches)
    conf = [b for b in batch if b[1] == "confusable"]
    for rep in range(6 if ctx.tier == "quick" else 40):
        for cid, kind, form, kw in conf:
            o = conv(form, kw)
            d = digests(o)
            del o
            gc.collect()
            ctx.ctr("digest_comparisons")
            fd = first_diff(base[cid], d)
            if fd:
                ctx.viol(f"history-dependence:confusable-neighbour:{fd}", f"{cid}: {fd} differs after converting its confusable twin and collecting garbage (iteration {rep})",
                         common.witness(form, case=cid, history="alternate+gc"))
        ctx.case(sig=f"confusable-gc|{rep}|{hs}")
    # -- pass 4: regeneration
    for cid, kind, form, kw in [b for k, b in enumerate(batch) if b[1] == "special" or ctx.tier != "quick" or k % 3 == 0]:
        o = conv(form, kw)
        if not o.ok:
            continue
        sv = o.result._survey
        xs = []
        # what convert() hands back (the JSON form in ConvertResult._pyxform) must not share objects with the library's own tables
        ctx.ctr("results_scanned_for_aliasing")
        al = hooks.aliased_module_tables(getattr(o.result, "_pyxform", None))
        if al:
            ctx.viol(f"residue:result-aliases-module-table:{al[0].split('[')[0]}", f"{cid}: ConvertResult._pyxform contains the very object {al[:3]} of the library: editing the result edits every later conversion",
                     common.witness(form, case=cid, history="identity scan of the result"))
        import json as _json
        try:
            dump_after_first = _json.dumps(sv.to_json_dict(), sort_keys=True, default=str)
        except Exception:  # noqa: BLE001 - C16's business
            dump_after_first = None
        for _ in range(3):
            try:
                xs.append(sv.to_xml(validate=False, pretty_print=False))
            except Exception as e:  # noqa: BLE001 - a survey that rendered once must render again
                xs.append(f"<<raised {type(e).__name__}: {e}>>")
        ctx.ctr("digest_comparisons", 3)
        ctx.case(sig=f"{cid}|regen|{hs}")
        if not (xs[0] == xs[1] == xs[2] == o.xform):
            which = [i for i, x in enumerate(xs) if x != o.xform]
            from .. import xdiff
            detail = xs[which[0]][:200] if xs[which[0]].startswith("<<raised") else xdiff.diffs(o.xform, xs[which[0]])[:2]
            ctx.viol(f"regeneration:to_xml-not-idempotent:{kind}", f"{cid}: survey.to_xml() call #{which[0] + 2} differs from the first: {detail}",
                     common.witness(form, case=cid, history="to_xml x3"))
        # what the survey would save of itself must not creep with the number of renderings either
        if dump_after_first is not None:
            try:
                dump_after_fourth = _json.dumps(sv.to_json_dict(), sort_keys=True, default=str)
            except Exception:  # noqa: BLE001
                dump_after_fourth = dump_after_first
            ctx.ctr("survey_dump_comparisons")
            if dump_after_fourth != dump_after_first:
                a, b = _json.loads(dump_after_first), _json.loads(dump_after_fourth)
                keys = sorted(k for k in set(a) | set(b) if a.get(k) != b.get(k))
                ctx.viol(f"regeneration:survey-state-grows-with-renderings:{'+'.join(keys)[:60]}",
                         f"{cid}: the survey's own dump after 4 renderings differs from the one after the first in {keys}: {str(a.get(keys[0]))[:120]!r} -> {str(b.get(keys[0]))[:160]!r}",
                         common.witness(form, case=cid, history="to_xml x4, to_json_dict compared"))
        same = render.to_dict(form.to_sheets(), **kw)
        o1 = drive.call_convert(same, **form.args)
        o2 = drive.call_convert(same, **form.args)
        ctx.ctr("digest_comparisons")
        fd = first_diff(digests(o1), digests(o2))
        if fd:
            ctx.viol(f"regeneration:same-dict-object-twice:{fd}", f"{cid}: converting the same dict object twice gives different {fd}: {o1.brief()} / {o2.brief()}",
                     common.witness(form, case=cid, history="same dict object twice"))
    # -- pass 4a: the same in-memory stream handed over twice (a cache of uploaded files): the converter reads it, it neither consumes nor closes it
    import gc as _gc
    import io as _io
    from .C12 import md_representable
    for k, (cid, kind, form, kw) in enumerate(batch):
        if kw or (ctx.tier == "quick" and k % 4):
            continue
        sheets = form.to_sheets()
        for fmt in (["csv", "md"] if md_representable(sheets) else []) + ["xlsx", "xls"]:
            try:
                data = render.render(sheets, fmt)
            except Exception:  # noqa: BLE001 - a cell the container cannot carry
                continue
            raw = data.encode("utf-8") if isinstance(data, str) else data
            bio = _io.BytesIO(raw)
            outs = []
            for _ in range(3):
                outs.append(drive.call_convert(bio, file_type="." + fmt, **form.args))
                _gc.collect()
            ctx.ctr("digest_comparisons", 2)
            ctx.ctr("stream_reuse_cases")
            ctx.case(sig=f"{cid}|stream-reuse|{fmt}|{hs}")
            fd = first_diff(digests(outs[0]), digests(outs[1])) or first_diff(digests(outs[0]), digests(outs[2]))
            if fd or bio.closed:
                ctx.viol(f"regeneration:same-stream-object-again:{fmt}:{'closed' if bio.closed else fd}",
                         f"{cid}: converting the same BytesIO ({fmt}) again gives {[o.brief()[:80] for o in outs]}; stream closed afterwards: {bio.closed}",
                         common.witness(form, case=cid, history=f"same BytesIO x3 ({fmt})"))
    # -- pass 4b: regeneration after a refusal: a survey whose to_xml() raises must keep raising the same error on every later call
    for name, form in late_failing_forms():
        from pyxform.builder import create_survey_element_from_dict
        from pyxform.errors import PyXFormError
        from pyxform.xls2json import workbook_to_json
        from pyxform.xls2json_backends import get_xlsform
        try:
            sv = create_survey_element_from_dict(workbook_to_json(get_xlsform(render.to_dict(form.to_sheets())), warnings=[]))
        except Exception as e:  # noqa: BLE001
            ctx.obs(kind="late_form_failed_early", name=name, err=repr(e)[:200])
            continue
        outs = []
        for _ in range(3):
            try:
                x = sv.to_xml(validate=False, pretty_print=False)
                outs.append(("xform", len(x), hash(x)))
            except PyXFormError as e:
                outs.append(("PyXFormError", str(e)))
            except Exception as e:  # noqa: BLE001
                outs.append((type(e).__name__, str(e)))
        ctx.ctr("digest_comparisons", 3)
        ctx.ctr("regeneration_after_refusal")
        ctx.case(sig=f"late-fail|{name}|{hs}")
        if not (outs[0] == outs[1] == outs[2]):
            ctx.viol(f"regeneration:outcome-changes-after-refusal:{name}", f"{name}: successive to_xml() calls on one survey give {[o[0] for o in outs]}: {outs[0][1] if outs[0][0] != 'xform' else ''!s:.150}",
                     common.witness(form, case=name, history="to_xml x3 on a survey that is refused"))
    # -- pass 4c: the file at a path replaced by another form of the same length with its timestamp preserved (rsync -t, cp -p, archive
    # extraction): a conversion depends on what the path holds now, not on what was converted from it earlier in this process
    import shutil
    import tempfile
    from pyxform.xls2xform import xls2xform_convert
    pdir = tempfile.mkdtemp(prefix="verif_c14_", dir=tmpdir if tmpdir and os.path.isdir(tmpdir) else None)
    try:
        for k, ext in enumerate(("md", "csv", "md", "csv")):
            texts = []
            for word, typ in (("alpha", "text"), ("bravo", "note")):
                sheets = {"survey": (["type", "name", "label"], [[typ, f"q_{word}", f"Label {word} {k}"], ["integer", "n", "N"]]),
                          "settings": (["form_title", "form_id"], [[f"T {word}", f"id_{word}"]])}
                texts.append(render.render(sheets, ext))
            if len(texts[0].encode()) != len(texts[1].encode()):
                continue
            path = os.path.join(pdir, f"swap{k}.{ext}")
            def by_path(pth):
                if k < 2:
                    o_ = drive.call_convert(pth)
                    return o_.xform if o_.ok else o_.brief()
                out_ = os.path.join(os.path.dirname(pth), f"swap{k}.xml")
                xls2xform_convert(xlsform_path=pth, xform_path=out_, validate=False, pretty_print=False)
                with open(out_, encoding="utf-8") as fh_:
                    got_ = fh_.read()
                os.unlink(out_)
                return got_
            alone = []
            for j_, t in enumerate(texts):  # reference: each text converted by the same route from a path of its own (same file name, other folder)
                os.mkdir(os.path.join(pdir, f"ref{k}_{j_}"))
                rp = os.path.join(pdir, f"ref{k}_{j_}", f"swap{k}.{ext}")
                with open(rp, "w", encoding="utf-8") as fh:
                    fh.write(t)
                alone.append(by_path(rp))
            seen = []
            with open(path, "w", encoding="utf-8") as fh:
                fh.write(texts[0])
            st = os.stat(path)
            seen.append(by_path(path))
            for turn in (1, 0, 1):
                with open(path, "w", encoding="utf-8") as fh:
                    fh.write(texts[turn])
                os.utime(path, ns=(st.st_atime_ns, st.st_mtime_ns))
                ok = by_path(path) == alone[turn]
                ctx.ctr("digest_comparisons")
                ctx.ctr("path_rewritten_cases")
                ctx.case(sig=f"path-rewritten|{k}|{ext}|{turn}|{hs}")
                if not ok:
                    ctx.viol(f"history:path-content-replaced:{ext}:stale-result", f"{os.path.basename(path)} was rewritten with another form of the same size and its old timestamp; converting the path "
                             f"{'through xls2xform_convert ' if k >= 2 else ''}does not give the form the file holds now", {"klass": "path-rewritten", "ext": ext, "texts": texts})
                    break
            os.unlink(path)
    finally:
        shutil.rmtree(pdir, ignore_errors=True)
    # -- pass 4d: which reader recognised the previous input must not matter when the type is left open (str, bytes and stream inputs)
    import io as _io2
    md_commas = ("| survey |\n| | type | name | label | calculation |\n| | integer | a | A, B, C, D and E | |\n| | calculate | c | | if(${a} > 1, concat('x, y', ',', 'z'), 'p, q') |\n"
                 "| settings |\n| | form_title | form_id |\n| | Commas, commas, commas | rm |\n")
    csv_pipes = "survey,,,,\n,type,name,label,constraint\n,text,t,\"T | U | V\",\"regex(., 'a|b|c|d')\"\n"
    alone = {"md": drive.call_convert(md_commas, file_type=".md"), "csv": drive.call_convert(csv_pipes, file_type=".csv")}
    for first, then in (("csv", "md"), ("md", "csv"), ("csv", "md")):
        texts_ = {"md": md_commas, "csv": csv_pipes}
        for how in ("str", "bytes", "stream"):
            drive.call_convert(texts_[first], file_type="." + first)  # the conversion before: its reader succeeds
            data_ = texts_[then] if how == "str" else (texts_[then].encode() if how == "bytes" else _io2.BytesIO(texts_[then].encode()))
            o_ = drive.call_convert(data_)
            ctx.ctr("digest_comparisons")
            ctx.ctr("reader_memory_cases")
            ctx.case(sig=f"reader-memory|{first}|{then}|{how}|{hs}")
            fd_ = first_diff(digests(alone[then]), digests(o_))
            if fd_:
                ctx.viol(f"history:type-detection-depends-on-previous-input:{then}-after-{first}:{fd_}", f"{then} text given as {how} without a type right after a {first} conversion: {o_.brief()[:160]}; "
                         f"alone (or with the type named) it gives {alone[then].brief()[:80]}", {"klass": "reader-memory"})
    # -- pass 5: threads
    container_thread_pass(ctx, hs)
    thread_pass(ctx, batch, base, hs, inject=(ctx.tier == "thorough"))
    # focused pass: only the forms that touch process-wide singletons / shared helpers, many times over, so that two such conversions overlap often
    focus = [b for b in batch if b[1] in ("special", "confusable")]
    thread_pass(ctx, focus * (4 if ctx.tier == "quick" else 12), base, hs, inject=False, label="focus")
    # -- residue
    tables1 = hooks.snapshot_tables()
    ch = hooks.diff_tables(tables0, tables1)
    ctx.ctr("tables_compared", len(tables0))
    if ch:
        ctx.viol("residue:module-table-mutated:" + ",".join(sorted(ch))[:80], f"module-level tables changed during the batch: {ch[:5]}", {"tables": ch})
    if tmpdir and os.path.isdir(tmpdir):
        left = [x for x in os.listdir(tmpdir)]
        ctx.ctr("tmpdir_listings")
        if left:
            ctx.viol("residue:tmpdir-not-empty", f"private TMPDIR still holds {left[:5]} after the batch", {"left": left[:20]})
    ctx.ctr("cache_shadow_evals", sum(v for k, v in hooks.counters.items() if k.startswith("cache:") and isinstance(v, int)))
    for msg in hooks.counters.get("cache_violations", []):
        fn = msg.split("(")[0]
        ctx.viol(f"cache-not-transparent:{fn}", msg, {"klass": "hook"})


def container_thread_pass(ctx, hs):
    """Container readers under threads: the same CSV / markdown bytes (one of them with a cell beyond the csv module's default field limit, in a sheet the
    readers skip) converted by several threads at once. Every outcome equals the one obtained alone, and the process-wide csv limit is what it was."""
    import csv as _csv
    big = "x" * 140000
    short_rows = "".join(f",text,q{k},Q{k}\n" for k in range(400))
    cases = {
        "csv-plain": ("survey,,,\n,type,name,label\n" + short_rows).encode(),
        "csv-big-cell-in-skipped-sheet": ("survey,,,\n,type,name,label\n" + short_rows + "notes,,\n,a,b\n,1," + big + "\n").encode(),
        "csv-big-label": ("survey,,,\n,type,name,label\n" + short_rows + ",note,big," + big + "\n").encode(),
        "md-plain": ("| survey |\n| | type | name | label |\n" + "".join(f"| | text | q{k} | Q{k} |\n" for k in range(400))).encode(),
    }
    limit0 = _csv.field_size_limit()
    alone = {k: digests(drive.call_convert(v, file_type="." + k.split("-")[0])) for k, v in cases.items()}
    res = []
    lock = threading.Lock()
    order = list(cases)

    def work(t):
        for r in range(3):
            for j in range(len(order)):
                k = order[(j + t) % len(order)]
                o = drive.call_convert(cases[k], file_type="." + k.split("-")[0])
                with lock:
                    res.append((k, t, digests(o), o.brief()[:100]))
    old = sys.getswitchinterval()
    sys.setswitchinterval(1e-5)
    try:
        ths = [threading.Thread(target=work, args=(t,)) for t in range(4)]
        for t_ in ths:
            t_.start()
        for t_ in ths:
            t_.join()
    finally:
        sys.setswitchinterval(old)
    for k, t, d, brief in res:
        ctx.ctr("thread_conversions")
        ctx.ctr("container_thread_conversions")
        ctx.ctr("digest_comparisons")
        fd = first_diff(alone[k], d)
        if fd:
            ctx.viol(f"schedule-dependence:container-readers:{k}:{fd}", f"{k}: {fd} differs when the same bytes are converted in 4 threads at once (thread {t}: {brief}; hash seed {hs})", {"klass": "container-threads", "case": k})
            break
    ctx.case(sig=f"container-threads|{hs}")
    if _csv.field_size_limit() != limit0:
        ctx.viol("residue:csv-field-size-limit-changed", f"csv.field_size_limit() was {limit0} before the conversions and is {_csv.field_size_limit()} after them", {"klass": "container-threads"})


def thread_pass(ctx, batch, base, hs, inject=False, label="all"):
    nthreads = 8 if ctx.tier == "quick" else 16
    old = sys.getswitchinterval()
    sys.setswitchinterval(1e-6)
    hooks.shadow_enabled[0] = False
    results = []
    lock = threading.Lock()
    mon_state = None
    if inject:
        mon_state = start_yield_injection(ctx.rng("yield", hs), prob=0.02)

    def work(t):
        n = len(batch)
        for k in range(n):
            cid, kind, form, kw = batch[(k * (t + 1) + t * 7) % n]
            o = conv(form, kw)
            with lock:
                results.append((cid, kind, digests(o), t))

    ths = [threading.Thread(target=work, args=(t,)) for t in range(nthreads)]
    for t in ths:
        t.start()
    for t in ths:
        t.join()
    sys.setswitchinterval(old)
    hooks.shadow_enabled[0] = True
    if mon_state:
        y, sites = stop_yield_injection(mon_state)
        ctx.ctr("injected_yields", y)
        ctx.ctr("distinct_yield_sites", sites)
    forms = {b[0]: b[2] for b in batch}
    for cid, kind, d, t in results:
        ctx.ctr("thread_conversions")
        ctx.ctr("digest_comparisons")
        fd = first_diff(base[cid], d)
        if fd:
            ctx.viol(f"schedule-dependence:{nthreads}-threads:{fd}", f"{cid}: {fd} differs when converted concurrently in thread {t} (hash seed {hs}, pass {label})",
                     common.witness(forms[cid], case=cid, history=f"{nthreads} threads"))
    ctx.case(sig=f"threads|{nthreads}|{hs}|{label}", n=len(results))


def start_yield_injection(rng, prob):
    import time
    mon = sys.monitoring
    tool = 3
    try:
        mon.use_tool_id(tool, "verif-yield")
    except ValueError:
        return None
    st = {"y": 0, "sites": set(), "tool": tool}
    rnd = rng.random

    def on_line(code, line):
        fn = code.co_filename
        if "/pyxform/" not in fn:
            return mon.DISABLE
        if rnd() < prob:
            st["y"] += 1
            st["sites"].add((fn, line))
            time.sleep(0)

    mon.register_callback(tool, mon.events.LINE, on_line)
    mon.set_events(tool, mon.events.LINE)
    return st


def stop_yield_injection(st):
    mon = sys.monitoring
    mon.set_events(st["tool"], 0)
    mon.register_callback(st["tool"], mon.events.LINE, None)
    mon.free_tool_id(st["tool"])
    return st["y"], len(st["sites"])


# ----------------------------------------------------------------------------- cross-process rule
def aggregate(agg, plan_, tier, seed):
    by_case = {}
    for r in agg["obs"]:
        if "case" in r:  # (other observations - the W-suite's pytest summary - are not digests)
            by_case.setdefault(r["case"], []).append(r)
    batch = None
    groups = 0
    for cid, recs in by_case.items():
        if len(recs) < 2:
            continue
        groups += 1
        ref = recs[0]
        for r in recs[1:]:
            agg["counters"]["digest_comparisons"] = agg["counters"].get("digest_comparisons", 0) + 1
            fd = first_diff(ref, r)
            if fd:
                if batch is None:
                    batch = {b[0]: b for b in make_batch(seed, plan_["batch"])}
                b = batch.get(cid)
                kind = b[1] if b else "?"
                agg["viols"].append({"t": "viol", "key": f"hashseed-dependence:{cid.split(':')[0]}{':' + cid.split(':')[1] if kind == 'special' else ''}:{fd}",
                                     "what": f"{cid}: {fd} differs between two fresh processes (PYTHONHASHSEED={ref['hs']} vs {r['hs']}; every other process also meets the batch in its own order, so this is a hash-seed or a first-encounter-order dependence)",
                                     "witness": common.witness(b[2], case=cid, hashseeds=[ref["hs"], r["hs"]], render_kw=b[3]) if b else {"case": cid}})
                break
    agg["counters"]["cross_process_groups"] = groups
    agg["extra_coverage"] = {"hash_seeds": plan_["seeds"], "histories": ["sequential (own first-pass order in every other process)", "permutations", "confusable+gc", "to_xml x3", "regeneration after refusal", "same dict twice", "threads", "threads focused on shared singletons"]}


def replay(w):
    import subprocess
    wit = w.get("witness") or {}
    print(f"replaying C14 key={w.get('key')}: {w.get('what')}")
    if "hashseeds" in wit:
        outs = []
        for hs in wit["hashseeds"]:
            code = ("import sys,json; sys.path[:0]=['/repo','/verif'];from vlib import common,drive,render;from vlib.monitors import C14;"
                    f"w=json.load(open({sys.argv[-1]!r}))['witness'];f=common.form_from_witness(w);print(C14.digests(C14.conv(f,w.get('render_kw',{{}}))))")
            env = dict(os.environ, PYTHONHASHSEED=str(hs))
            outs.append(subprocess.run(["/venv/bin/python", "-c", code], env=env, capture_output=True, text=True).stdout.strip())
        print("\n".join(outs))
        if len(set(outs)) > 1:
            print(f"VIOLATION property={PROP} replay=(this file)")
            return 1
        print("not reproduced")
        return 0
    print("history-dependent witness: re-run ./check C14 to reproduce (the history is the whole batch)")
    return 0
