"""C09 — choice lists survive intact and selects are wired to their own list.

Deciding oracle: reference model from the abstract form's choices.  Every choice cell
carries a unique marker so truncation, shifting and merging identify themselves.
 * one secondary instance per list (inline items instead iff the list is only used by
   search() selects), ids unique; items == the list's rows in sheet order; each item ==
   [itextId?] name, label (iff the list is not itext-bearing), extra columns in column
   order skipping empty cells;
 * each select's itemset is parsed (not string-compared): randomize(X[, seed]), X =
   instance('<own list or file id>')/root/item[<own filter>]; value/label refs are
   name/label (jr:itext(itextId) for itext lists; id/title for geojson; parameters
   value/label for files);
 * or_other: one 'other' item appended to the list and a '<name>_other' text question;
 * external sources (select-from-file, xml-/csv-external, pulldata(), last-saved) each
   declared exactly once with the conventional jr:// URI; clashing ids with different
   URIs must be rejected;
 * itemsets CSV == external_choices sheet, cell for cell under its headers.
"""
from __future__ import annotations

import csv
import io
import re

from .. import common, drive, gen, refmodel, render, xf
from ..model import Form, Row
from ..refmodel import MEDIA, base_type, split_header

PROP = "C09"
LEVEL = "exploration"
TECHNIQUE = "runtime reference-model monitor: choice instances/items/itemsets/external instances/itemsets.csv compared with the abstract choices (unique cell markers)"
RULE = ("cases = generated forms with 0-5 lists of 1-30 choices (shared/unused lists, sparse extra columns, interleaved list rows, duplicate "
        "names when allowed), every select variant (select_one/multiple/rank, from file csv/xml/geojson, external, or_other, randomize/seed, "
        "choice_filter, search) at any nesting, external instances and pulldata/last-saved mixes; non-trivial = converted and all instances "
        "compared; distinct = distinct form feature signatures")
ASSUMPTIONS = ["field order inside an item follows choices column order (as the statement says)", "media columns live in itext, not in items"]


def plan(tier, seed):
    n = 1600 if tier == "quick" else 24000
    return {"shards": 16, "timeout": 900 if tier == "quick" else 3600, "n": n,
            "floors": {"suite_conversions_judged": 500, "instances_compared": n, "itemsets_parsed": n, "csv_compared": n // 12, "distinct": 100, "pulldata_channel_forms": 50}}


EXTRA = ["region", "code", "grp", "lvl", "zone"]


def make_form(rng, i):
    f = Form()
    nl = rng.randint(0, 5)
    lists = [f"{rng.choice(['l', 'lst', 'opts', 'c', 'fruits.v', 'sizes.20', 'a-b.c'])}{k}" for k in range(nl)]  # a dot in a list name does not make it a file
    if nl >= 2 and rng.random() < 0.2:
        lists[1] = lists[0].upper() if rng.random() < 0.5 else lists[0].capitalize()  # two lists whose names differ only by case are two lists
        if lists[1] == lists[0]:
            lists[1] = lists[0] + "X"
    langs = rng.choice([[], [], ["en", "fr"]])
    dup_ok = rng.random() < 0.15
    extras_used = []
    notes_col = rng.random() < 0.2  # an author's notes column whose header has a space: dropped with a warning, the other columns keep their order
    for ln in lists:
        n = rng.choice([1, 2, 3, 5, 8, 30]) if rng.random() < 0.3 else rng.randint(1, 6)
        extra = rng.sample(EXTRA, rng.randint(0, 3))
        translated = bool(langs) and rng.random() < 0.4
        rows = []
        for k in range(n):
            nm = f"n{k}" if not (dup_ok and k and rng.random() < 0.3) else "n0"
            c = {"name": nm}
            if translated:
                for L in langs:
                    c[f"label::{L}"] = f"lab.{ln}.{k}.{L[:1]}x"
            else:
                c["label"] = f"lab.{ln}.{k}"
            for ec in extra:
                if rng.random() < 0.7:
                    c[ec] = f"{ec}.{ln}.{k}"
            if rng.random() < 0.1:
                c["image"] = f"img.{ln}.{k}.png"
            if notes_col and rng.random() < 0.6:
                c["internal notes"] = f"note {k}"
            if k == n // 2 and rng.random() < 0.12 and not dup_ok:
                c["name"] = "other"  # the list brings its own 'other' (anywhere in the list): or_other must not add a second one
            if n > 1 and k < n - 1 and rng.random() < 0.08 and "image" not in c:
                for h in [h for h in c if h.startswith("label")]:
                    del c[h]  # a choice without any label (pyxform only warns): everything after it must stay aligned
            rows.append(c)
        f.choices[ln] = rows
        for ec in extra:
            if ec not in extras_used:
                extras_used.append(ec)
    f.choice_headers = ["name"] + ([f"label::{L}" for L in langs] if langs else []) + ["label"] + extras_used + (["internal notes"] if notes_col else [])
    rng.shuffle(f.choice_headers)
    f.choice_headers = [h for h in f.choice_headers if any(h in c for lst in f.choices.values() for c in lst)]
    if dup_ok:
        f.settings["allow_choice_duplicates"] = "yes"
    # interleave list rows on the sheet sometimes (lists need not be contiguous)
    f.meta["interleave"] = rng.random() < 0.3
    # survey
    names = gen.Names(rng, "mixed")
    rows = []
    nq = rng.randint(2, 9)
    ext_used = False
    search_lists = set(rng.sample(lists, 1)) if lists and rng.random() < 0.25 else set()
    for k in range(nq):
        x = rng.random()
        nm = names.new()
        if lists and x < 0.55:
            ln = rng.choice(lists)
            st = rng.choice(["select_one", "select_multiple", "rank"])
            has_space = any(" " in c["name"] for c in f.choices[ln])
            cells = {"label": f"q {nm}"}
            t = f"{st} {ln}"
            meta = {"list": ln, "select": st}
            if ln in search_lists and st != "rank":
                cells["appearance"] = rng.choice([f"search('file_{ln}')", f"minimal search('file_{ln}')", f"quick search('file_{ln}', 'matches', 'name', 'x')",
                                                  f"search('file_{ln}') compact"])
                meta["search"] = True
            elif ln in search_lists:
                ln2 = [x_ for x_ in lists if x_ not in search_lists]
                if not ln2:
                    continue
                ln = rng.choice(ln2)
                t = f"{st} {ln}"
                meta["list"] = ln
            if not meta.get("search"):
                if st != "rank" and rng.random() < 0.2:
                    t += " or_other"
                    meta["or_other"] = True
                else:
                    if rng.random() < 0.35:
                        ecs = [h for c in f.choices[ln] for h in c if h in EXTRA]
                        col = rng.choice(ecs) if ecs else "name"
                        cells["choice_filter"] = f"{col} != 'cf.{nm}'"
                    if rng.random() < 0.3 and st != "rank":
                        cells["parameters"] = rng.choice(["randomize=true", "randomize=true seed=42", "randomize=true seed=${seedq}", "randomize=false",
                                                          "randomize=true seed=${seedq}+1", "randomize=true, seed=${seedq}*1000+${seedq}", "randomize=true; seed=7-${seedq}"])
            rows.append(Row("q", t, nm, cells, meta=meta))
        elif x < 0.65:
            ext = rng.choice(["csv", "xml", "geojson"])
            st = rng.choice(["select_one_from_file", "select_multiple_from_file"])
            fn = rng.choice(["cities", "zones", "wards"]) + "." + ext
            cells = {"label": f"q {nm}"}
            if rng.random() < 0.4:
                cells["parameters"] = rng.choice(["value=code label=nm", "value=v1", "label=l1", "randomize=true", "Value=PlaceID LABEL=Name_EN", "VALUE=Code_1", "Label=NameFr value=id"])
            if rng.random() < 0.3:
                cells["choice_filter"] = f"x != 'cf.{nm}'"
            rows.append(Row("q", f"{st} {fn}", nm, cells, meta={"file": fn, "select": st}))
        elif x < 0.72:
            rows.append(Row("q", rng.choice(["xml-external", "csv-external"]), rng.choice(["extdata", "lookup", "cities"]) + str(k % 2), {}))
        elif x < 0.8:
            fnm = rng.choice(["fruits", "cities", "prices"])
            if rng.random() < 0.5:
                # a blank before the parenthesis, or a line break inside the call, is still the same call
                call = rng.choice(["pulldata(", "pulldata(", "pulldata (", "pulldata  (", "pulldata( "])
                rows.append(Row("q", "calculate", nm, {"calculation": f"{call}'{fnm}', 'a', 'b', ${{seedq}})"}))
            else:
                # one row calling pulldata() from several of its cells, each naming another file: every file needs its instance
                files = rng.sample(["fruits", "cities", "prices", "previous", "planned", "stock"], rng.randint(2, 4))
                cols = rng.sample(["choice_filter", "default", "relevant", "constraint", "required", "read_only", "calculation"], len(files))
                free = [x_ for x_ in lists if x_ not in search_lists]
                is_sel = "choice_filter" in cols and free
                cells = {"label": f"q {nm}"}
                for c_, f_ in zip(cols, files):
                    if c_ == "choice_filter" and not is_sel:
                        c_ = "relevant" if "relevant" not in cols else "constraint"
                    cells[c_] = f"pulldata('{f_}', 'a', 'b', ${{seedq}})" + (" != ''" if c_ not in ("default", "calculation") else "")
                if is_sel:
                    ln_ = rng.choice(free)
                    rows.append(Row("q", f"select_one {ln_}", nm, cells, meta={"list": ln_, "select": "select_one"}))
                else:
                    rows.append(Row("q", "text", nm, cells))
        elif x < 0.85:
            where = rng.choice(["default", "default", "message", "label", "hint"])
            if where == "default":
                rows.append(Row("q", "text", nm, {"label": f"q {nm}", "default": "${last-saved#seedq}"}))
            elif where == "message":
                # the reference only inside a (possibly translated) message: two levels down in the bind
                col = rng.choice(["constraint_message", "required_message"])
                cells = {"label": f"q {nm}", "constraint": ". != 'z'", "required": "yes"}
                if langs:
                    cells = {f"label::{langs[0]}": f"q {nm}", "constraint": ". != 'z'", "required": "yes"}
                    cells[f"{col}::{rng.choice(langs)}"] = "last time: ${last-saved#seedq}"
                else:
                    cells[col] = "last time: ${last-saved#seedq}"
                rows.append(Row("q", rng.choice(["text", "integer"]), nm, cells))
            else:
                rows.append(Row("q", "text", nm, {"label": f"q {nm}", where: "was ${last-saved#seedq}"} if where != "label" else {"label": "was ${last-saved#seedq}"}))
        elif x < 0.92 and not ext_used:
            ext_used = True
            rows.append(Row("q", "select_one_external ext1", nm, {"label": f"q {nm}", "choice_filter": "grp=${seedq}"}))
        else:
            rows.append(Row("q", "text", nm, {"label": f"q {nm}"}))
    rows.insert(0, Row("q", "integer", "seedq", {"label": "seed"}))
    # nest some rows
    if len(rows) > 3 and rng.random() < 0.6:
        cut = rng.randint(1, len(rows) - 1)
        kind = rng.choice(["group", "repeat"])
        sec = Row(kind, f"begin {kind}", names.new(), {"label": "sec"}, rows[cut:])
        rows = rows[:cut] + [sec]
    f.survey = rows
    if ext_used:
        hdr = ["list_name", "name", "label", "grp", "zone"]
        rng.shuffle(hdr)
        f.external_headers = hdr
        for k in range(rng.randint(1, 6)):
            c = {"list_name": "ext1", "name": f"e{k}", "label": f"xl.{k}"}
            if rng.random() < 0.7:
                c["grp"] = f"xg.{k}"
            if rng.random() < 0.5:
                c["zone"] = f"xz.{k}"
            f.external_choices.append(c)
        if rng.random() < 0.5:
            f.meta["dict_key_order"] = rng.randrange(1, 10**6)
        elif rng.random() < 0.5:
            f.meta["ext_list_space"] = rng.choice(["list name", "list name", "List Name"])
    return f


def to_sheets(form):
    sheets = form.to_sheets()
    if form.meta.get("interleave") and "choices" in sheets:
        h, rows = sheets["choices"]
        # round-robin the rows of different lists while keeping each list's internal order
        by = {}
        for r in rows:
            by.setdefault(r[0], []).append(r)
        out = []
        qs = list(by.values())
        while any(qs):
            for q_ in qs:
                if q_:
                    out.append(q_.pop(0))
        sheets["choices"] = (h, out)
    if form.meta.get("ext_list_space") and "external_choices" in sheets:
        # the older documented spelling of the list column ('list name'), on a sheet whose other headers are all plain
        h, rows = sheets["external_choices"]
        sheets["external_choices"] = ([form.meta["ext_list_space"] if x == "list_name" else x for x in h], rows)
    return sheets


def expected_items(form, ln, rm_entries):
    rows = [c for c in form.choices[ln]]
    req = any((any(split_header(h)[0] in MEDIA for h in c) or any(split_header(h)[0] == "label" and split_header(h)[1] is not None for h in c)
               or any(split_header(h)[0] == "label" and "${" in v for h, v in c.items())) for c in rows)
    col_order = [h for h in ([form.list_name_header] + form.choice_headers)] + [h for c in rows for h in c]
    seen = []
    for h in col_order:
        if h not in seen:
            seen.append(h)
    items = []
    for idx, c in enumerate(rows):
        it = []
        if req:
            it.append(("itextId", f"{ln}-{idx}"))
        it.append(("name", c["name"]))
        if not req and "label" in c:
            it.append(("label", c["label"]))
        extra = []
        for h in seen:
            b, lg = split_header(h)
            if h in c and b not in ("name", "label", "list_name") and b not in MEDIA and " " not in h:  # a header with a space is dropped (with a warning): not an element name
                extra.append((h, c[h]))
        items.append((it, extra))
    return items, req


NODESET = re.compile(r"^(randomize\()?\s*instance\('([^']*)'\)/root/item(\[(.*)\])?\s*(,\s*(.+?))?\)?$", re.S)


def check(ctx, form, sig, sample=False):
    sheets = to_sheets(form)
    if form.external_choices and form.meta.get("dict_key_order"):
        # a dict workbook whose row dicts list their keys in another order than the header row (an API caller builds rows as it likes)
        import random as _r
        wb = render.to_dict(sheets)
        rr = _r.Random(form.meta["dict_key_order"])
        for row in wb["external_choices"]:
            items = list(row.items())
            rr.shuffle(items)
            row.clear()
            row.update(items)
        ctx.ctr("dict_rows_in_other_key_order")
        o = drive.call_convert(wb, **form.args)
    elif form.meta.get("spacer"):
        # a spreadsheet whose choices / external_choices header row has blank cells between the headers (spacer columns): every cell stays under its header
        import random as _r
        fmt, sd = form.meta["spacer"]
        rr = _r.Random(sd)
        sp = dict(sheets)
        for shn in ("choices", "external_choices"):
            if shn in sp:
                h, rows_ = sp[shn]
                at = rr.randint(1, len(h) - 1) if len(h) > 2 else len(h) - 1
                k = rr.choice([1, 1, 2])
                sp[shn] = (h[:at] + [None] * k + h[at:], [r_[:at] + [None] * k + r_[at:] for r_ in rows_])
        ctx.ctr(f"spacer_columns:{fmt}")
        o = drive.convert_sheets(sp, fmt=fmt, args=form.args)
    elif form.meta.get("multiline"):
        # choice labels, extra columns and external_choices cells of two lines, through a container that can carry them (a quoted CSV field, a spreadsheet cell)
        ctx.ctr(f"multiline_choice_cells:{form.meta['multiline']}")
        o = drive.convert_sheets(sheets, fmt=form.meta["multiline"], args=form.args)
    else:
        o = drive.convert_sheets(sheets, args=form.args)
    wit = lambda **kw: common.witness(form, sheets_md=common.sheets_to_md(sheets)[:3000], **kw)  # noqa: E731
    rm = refmodel.RM(form)
    # -- expected rejections: instance id clashes with different URIs
    decl = {}
    clash = False
    for e in rm.entries:
        r = e.row
        if r is None or r.kind != "q":
            continue
        bt = base_type(r)
        srcs = []
        if bt in ("xml-external", "csv-external"):
            srcs.append((r.name, f"jr://file{'-csv' if bt.startswith('csv') else ''}/{r.name}.{bt.split('-')[0]}"))
        if r.meta.get("file"):
            stem, ext = r.meta["file"].rsplit(".", 1)
            srcs.append((stem, f"jr://file{'-csv' if ext == 'csv' else ''}/{r.meta['file']}"))
        for cell in ("calculation", "relevant", "constraint", "required", "read_only", "choice_filter", "default"):
            for m in re.finditer(r"pulldata\s*\(\s*'([^']*)'", r.cells.get(cell) or ""):
                srcs.append((m.group(1), f"jr://file-csv/{m.group(1)}.csv"))
        for iid, src in srcs:
            if iid in decl and decl[iid] != src:
                clash = True
            decl.setdefault(iid, src)
    ext_rows = [e.row for e in rm.entries if e.row is not None and base_type(e.row) in ("xml-external", "csv-external")]
    ext_names = [r.name for r in ext_rows]
    dup_ext = len(set(ext_names)) != len(ext_names)
    for ln in form.choices:
        if ln in decl:
            pass  # a choice list named like an external instance: the external one wins silently (documented in _generate_instances)
    if any("${last-saved#" in (r.cells.get(c) or "") for r, _ in form.walk() for c in r.cells):
        decl["__last-saved"] = "jr://instance/last-saved"
    if not o.ok:
        ctx.ctr("rejected")
        if not o.exc_is_pyxform:
            ctx.ctr("internal_exception_seen(C17's business)")
        elif not (clash or dup_ext):
            ctx.ctr("rejected_without_modelled_reason")
        return
    if clash or dup_ext:
        ctx.viol("instance-id-clash-accepted", f"the same instance id is declared with different URIs (or two external rows share a name) but the form was converted: {decl}", wit())
        return
    try:
        p = xf.Parsed(o.xform)
    except xf.XFError:
        ctx.ctr("unparseable_output(C01's business)")
        return
    ctx.case(sig=sig)
    # -- secondary instances
    ids = [i.get("id") for i in p.secondary]
    if len(set(ids)) != len(ids):
        ctx.viol("instances:duplicate-id", f"instance ids {ids}", wit())
    users = {}
    for e in rm.entries:
        if e.row is not None and e.row.meta.get("list"):
            users.setdefault(e.row.meta["list"], []).append(e.row)
    or_other_lists = {ln for ln, us in users.items() if any(u.meta.get("or_other") for u in us)}
    for ln in form.choices:
        only_search = ln in users and all(u.meta.get("search") for u in users[ln])
        inst = [i for i in p.secondary if i.get("id") == ln and i.get("src") is None]
        if ln in decl:
            continue
        ctx.ctr("instances_compared")
        if only_search:
            if inst:
                ctx.viol("instance:search-list-has-instance", f"list {ln} is only used by search() selects but an instance was emitted", wit())
            continue
        if len(inst) != 1:
            ctx.viol("instance:count", f"list {ln}: {len(inst)} instances with that id", wit())
            continue
        exp_items, req = expected_items(form, ln, rm.entries)
        if ln in or_other_lists and not any(c["name"] == "other" for c in form.choices[ln]):
            idx = len(exp_items)
            if req:
                exp_items.append(([("itextId", f"{ln}-{idx}"), ("name", "other")], []))
            else:
                exp_items.append(([("name", "other"), ("label", "Other")], []))
        root = inst[0].find(xf.q(xf.XF, "root"))
        got_items = [[(xf.local(c.tag), c.text or "") for c in it if isinstance(c.tag, str)] for it in root.findall(xf.q(xf.XF, "item"))]
        if len(got_items) != len(exp_items):
            kind = "truncated" if len(got_items) < len(exp_items) else "extra-items"
            ctx.viol(f"items:{kind}", f"list {ln}: {len(got_items)} items, sheet has {len(exp_items)}", wit())
            continue
        for idx, (g, (fixed, extra)) in enumerate(zip(got_items, exp_items)):
            want = fixed + extra
            if g != want:
                gn = [x[0] for x in g]
                wn = [x[0] for x in want]
                if sorted(g) == sorted(want):
                    kind = "field-order"
                elif gn == wn:
                    owner = [v for (k, v), (k2, v2) in zip(g, want) if v != v2]
                    kind = "cell-from-another-row-or-list" if owner and any(m in owner[0] for m in (".",)) and owner[0].split(".")[1:2] != [ln] else "cell-value"
                elif set(wn) - set(gn):
                    kind = "field-missing"
                else:
                    kind = "field-unexpected"
                ctx.viol(f"items:{kind}", f"list {ln} item {idx}: {g}, expected {want}", wit())
                break
        if req:
            # the itextId of every choice must lead, in each language the sheet gives a label for, to that choice's own label
            trs, _n = p.itext()
            bylang = {t[0]: t[2] for t in trs}
            for idx, c in enumerate(form.choices[ln]):
                for h, v in c.items():
                    b, lg = split_header(h)
                    if b != "label" or lg is None or lg not in bylang or "${" in str(v):
                        continue
                    vals = bylang[lg].get(f"{ln}-{idx}")
                    ctx.ctr("choice_itext_labels_followed")
                    got = None if vals is None else next((xf.segs_text(sg) for fm, sg in vals if fm is None), None)
                    if got != v:
                        ctx.viol("items:itext-label-of-another-choice" if (got and str(got).startswith("lab.")) else "items:itext-label-missing",
                                 f"list {ln} choice {idx} ({c.get('name')!r}): itext '{ln}-{idx}' in {lg!r} is {got!r}, the sheet says {v!r}", wit())
                        break
    # -- declared external instances
    for iid, src in decl.items():
        ctx.ctr("instances_compared")
        m = [i for i in p.secondary if i.get("id") == iid]
        if len(m) != 1:
            ctx.viol("external-instance:count", f"instance {iid!r} ({src}) declared {len(m)} times", wit())
        elif m[0].get("src") != src:
            ctx.viol("external-instance:uri", f"instance {iid!r} src={m[0].get('src')!r}, expected {src!r}", wit())
    extra_inst = [i for i in ids if i not in form.choices and i not in decl]
    if extra_inst:
        ctx.viol("instances:unexpected", f"instances {extra_inst} correspond to no list or data source", wit())
    # -- selects
    ctl = {}
    for el in p.body.iter():
        if isinstance(el.tag, str) and el.get("ref") and xf.local(el.tag) in ("select", "select1", "rank", "input"):
            ctl.setdefault(el.get("ref"), el)
    for e in rm.entries:
        r = e.row
        if r is None or r.kind != "q":
            continue
        c = ctl.get(e.path)
        if r.meta.get("search"):
            if c is not None:
                its = c.find(xf.q(xf.XF, "itemset"))
                items = c.findall(xf.q(xf.XF, "item"))
                ctx.ctr("itemsets_parsed")
                if its is not None or [i.find(xf.q(xf.XF, "value")).text for i in items] != [x["name"] for x in form.choices[r.meta["list"]]]:
                    ctx.viol("search-select:inline-items", f"{e.path}: search() select must carry its list as inline items in order", wit())
            continue
        target = None
        if r.meta.get("list"):
            target = r.meta["list"]
            want_value, want_label = "name", None
        elif r.meta.get("file"):
            stem, ext = r.meta["file"].rsplit(".", 1)
            target = stem
            want_value, want_label = ("id", "title") if ext == "geojson" else ("name", "label")
            prm = refmodel.parse_params(r.cells.get("parameters"))
            want_value = prm.get("value", want_value)
            want_label = prm.get("label", want_label)
        if target is None or c is None:
            if base_type(r) == "select_one_external" and c is not None:
                ctx.ctr("itemsets_parsed")
                q_ = c.get("query") or ""
                if not q_.startswith("instance('ext1')/root/item["):
                    ctx.viol("external-select:query", f"{e.path}: query={q_!r}", wit())
            continue
        its = c.find(xf.q(xf.XF, "itemset"))
        if its is None:
            ctx.viol("select:no-itemset", f"{e.path} ({r.type}): no itemset", wit())
            continue
        ctx.ctr("itemsets_parsed")
        ns = its.get("nodeset") or ""
        m = NODESET.match(ns)
        if not m:
            ctx.viol("select:nodeset-unparseable", f"{e.path}: nodeset {ns!r}", wit())
            continue
        rand, iid, _, flt, _, seed = m.groups()
        if iid != target:
            ctx.viol("select:wrong-instance", f"{e.path} ({r.type}) reads instance {iid!r}, its list/file is {target!r}", wit())
        cf = r.cells.get("choice_filter")
        if bool(cf) != bool(flt):
            ctx.viol("select:filter-presence", f"{e.path}: choice_filter cell {cf!r} but nodeset predicate {flt!r}", wit())
        elif cf:
            from .C05 import value_pattern
            if value_pattern(cf).match(flt) is None and value_pattern(cf).match(flt.strip()) is None:
                ctx.viol("select:filter-differs", f"{e.path}: predicate {flt!r} for choice_filter {cf!r} (another select's filter?)", wit())
        prm = refmodel.parse_params(r.cells.get("parameters"))
        want_rand = prm.get("randomize") == "true"
        if want_rand != bool(rand):
            ctx.viol("select:randomize", f"{e.path}: parameters {r.cells.get('parameters')!r} but nodeset {ns!r}", wit())
        if want_rand and ("seed" in prm) != bool(seed):
            ctx.viol("select:seed-presence", f"{e.path}: seed {prm.get('seed')!r} vs nodeset {ns!r}", wit())
        elif want_rand and seed and not prm["seed"].startswith("${") and seed.strip() != prm["seed"]:
            ctx.viol("select:seed-value", f"{e.path}: seed {seed!r}, expected {prm['seed']!r}", wit())
        elif want_rand and seed and "${" in prm["seed"]:
            # a seed computed from answers: the expression as written, every ${seedq} replaced by the question's path
            from .C05 import value_pattern
            ctx.ctr("computed_seeds_checked")
            vp_ = value_pattern(prm["seed"])  # blanks at either end of the seed are not significant (the nodeset parser above eats them)
            ms = next((m_ for m_ in (vp_.match(a_ + seed.strip() + b_) for a_ in ("", " ") for b_ in ("", " ")) if m_), None)
            if ms is None or any(not g.endswith("/seedq") for g in ms.groups()):
                ctx.viol("select:seed-expression", f"{e.path}: seed {seed!r} in the nodeset, parameters say seed={prm['seed']!r}", wit())
        vr = its.find(xf.q(xf.XF, "value")).get("ref")
        lr = its.find(xf.q(xf.XF, "label")).get("ref")
        if r.meta.get("list"):
            _, req = expected_items(form, target, rm.entries)
            want_label = "jr:itext(itextId)" if req else "label"
        if vr != want_value or lr != want_label:
            ctx.viol(f"select:value-label-refs:{'itext-list' if want_label == 'jr:itext(itextId)' else 'plain'}", f"{e.path} ({r.type}, parameters {r.cells.get('parameters')!r}): value/label refs {vr!r}/{lr!r}, expected {want_value!r}/{want_label!r}", wit())
        if r.meta.get("or_other"):
            nodes = p.resolve(e.path + "_other")
            if len(nodes) < 1 or (e.path + "_other") not in ctl:
                ctx.viol("or_other:companion-missing", f"{e.path}: no '<name>_other' text question", wit())
    # -- itemsets CSV
    if form.external_choices:
        ctx.ctr("csv_compared")
        if o.itemsets is None:
            ctx.viol("csv:missing", "external choices are used but ConvertResult.itemsets is None", wit())
        else:
            rows = list(csv.reader(io.StringIO(o.itemsets)))
            h, want_rows = sheets["external_choices"]
            h = ["list_name" if str(x).lower() == "list name" else x for x in h]  # the CSV is read by clients under the canonical header
            if rows[0] != list(h):
                ctx.viol("csv:header", f"CSV header {rows[0]}, sheet headers {list(h)}", wit())
            elif len(rows) - 1 != len(want_rows):
                ctx.viol("csv:row-count", f"{len(rows) - 1} CSV records, sheet has {len(want_rows)}", wit())
            else:
                for ri, (g, w_) in enumerate(zip(rows[1:], want_rows)):
                    gd = {k: v for k, v in zip(rows[0], g) if v != ""}
                    wd = {k: v for k, v in zip(h, w_) if v not in (None, "")}
                    if gd != wd or len(g) > len(rows[0]):
                        kind = "cells-shifted-for-sparse-row" if len(g) < len(rows[0]) or sorted(gd.values()) == sorted(wd.values()) else "cell-value"
                        ctx.viol(f"csv:{kind}", f"CSV record {ri + 1}: {dict(zip(rows[0], g))}, sheet row {wd}", wit())
                        break
    elif o.itemsets is not None:
        ctx.viol("csv:unexpected", "itemsets produced without external choices", wit())
    if sample:
        ctx.sample({"form_md": common.sheets_to_md(sheets)[:1800], "observed": "instances, items, itemsets, external instances and CSV as expected"})


def shared_filter_text_forms(ctx):
    """The same choice_filter text written on selects that sit in different places of one repeat (two sibling groups, the repeat itself, a nested
    group): each select's itemset predicate reaches the question the filter names from where that select is."""
    k = 0
    for order in ((0, 1), (1, 0)):
        for kind in ("select_one l1", "select_multiple l1", "select_one_external ext"):
            for deep in (False, True):
                k += 1
                if not ctx.mine(k):
                    continue
                sel = lambda nm: Row("q", kind, nm, {"label": nm, "choice_filter": "grp = ${state}"})  # noqa: E731
                g1 = Row("group", "begin group", "g1", {"label": "G1"}, [Row("q", "text", "state", {"label": "S"}), sel("city1")])
                inner = [sel("city2")]
                g2 = Row("group", "begin group", "g2", {"label": "G2"}, [Row("group", "begin group", "g2in", {"label": "I"}, inner)] if deep else inner)
                groups = [g1, g2]
                rep = Row("repeat", "begin repeat", "rep", {"label": "R"}, [groups[order[0]], groups[order[1]], sel("city0")])
                f = Form()
                f.survey = [rep]
                f.choices = {"l1": [{"name": "a", "label": "A", "grp": "x"}, {"name": "b", "label": "B", "grp": "y"}]}
                if "external" in kind:
                    f.external_choices = [{"list_name": "ext", "name": "a", "label": "A", "grp": "x"}]
                o = drive.convert_form(f)
                ctx.case(sig=f"shared-filter|{order}|{kind}|{deep}")
                ctx.ctr("shared_filter_text_forms")
                wit = common.witness(f, klass="shared-filter")
                if not o.ok:
                    ctx.viol("shared-filter:refused", o.brief()[:200], wit)
                    continue
                p = xf.Parsed(o.xform)
                want = {"/data/rep/g1/city1": "../state", "/data/rep/city0": "../g1/state", ("/data/rep/g2/g2in/city2" if deep else "/data/rep/g2/city2"): ("../../../g1/state" if deep else "../../g1/state")}
                for el in p.body.iter():
                    ref = el.get("ref") if isinstance(el.tag, str) else None
                    if ref not in want:
                        continue
                    its = el.find(xf.q(xf.XF, "itemset"))
                    text = (its.get("nodeset") if its is not None else el.get("query")) or ""
                    ctx.ctr("itemsets_parsed")
                    m_ = re.search(r"grp\s*=\s*(?:current\(\)/)?([./\w-]+)", text)
                    got = m_.group(1) if m_ else None
                    # current() is the select itself (the predicate is evaluated at an item of the list, hence the anchor)
                    if got != want[ref] and got != "/data/rep/g1/state":
                        ctx.viol("shared-filter:predicate-reaches-another-node", f"{ref}: filter 'grp = ${{state}}' became {text!r}; from this select the question is at {want[ref]!r} (relative to current())", wit)


PULLDATA_CHANNELS = ["calculation", "relevant", "constraint", "required", "read_only", "default", "choice_filter", "triggered-calculation",
                     "group-relevant", "repeat-relevant", "repeat_count", "entity-label", "entity-create_if", "entity-update_if", "entity-entity_id"]


def pulldata_channel_forms(ctx):
    """A pulldata() call in every cell that holds an expression (question, group and repeat logic, dynamic default, filter, repeat count, triggered
    calculation, the expressions of the entities sheet): the file it names is declared exactly once as jr://file-csv/<file>.csv - also when a second
    cell names the same file."""
    k = 0
    for ch in PULLDATA_CHANNELS:
        for call in ("pulldata('%s', 'a', 'b', ${k})", "pulldata ( \"%s\" , 'a', 'b', ${k})"):
            for twice in (False, True):
                k += 1
                if not ctx.mine(k):
                    continue
                fn = f"pd{k}"
                ex = call % fn
                cmp_ = ex + " != ''"
                rows = [Row("q", "text", "k", {"label": "K"})]
                f = Form()
                ent = None
                if ch in ("calculation",):
                    rows.append(Row("q", "calculate", "c", {"calculation": ex}))
                elif ch in ("relevant", "constraint", "required", "read_only"):
                    rows.append(Row("q", "text", "t", {"label": "T", ch: cmp_}))
                elif ch == "default":
                    rows.append(Row("q", "text", "t", {"label": "T", "default": ex}))
                elif ch == "choice_filter":
                    rows.append(Row("q", "select_one l1", "s", {"label": "S", "choice_filter": "name = " + ex}, meta={"list": "l1", "select": "select_one"}))
                    f.choices = {"l1": [{"name": "a", "label": "A"}, {"name": "b", "label": "B"}]}
                elif ch == "triggered-calculation":
                    rows.append(Row("q", "text", "t", {"label": "T", "calculation": ex, "trigger": "${k}"}))
                elif ch == "group-relevant":
                    rows.append(Row("group", "begin group", "g", {"label": "G", "relevant": cmp_}, [Row("q", "text", "ing", {"label": "I"})]))
                elif ch == "repeat-relevant":
                    rows.append(Row("repeat", "begin repeat", "r", {"label": "R", "relevant": cmp_}, [Row("q", "text", "inr", {"label": "I"})]))
                elif ch == "repeat_count":
                    rows.append(Row("repeat", "begin repeat", "r", {"label": "R", "repeat_count": ex}, [Row("q", "text", "inr", {"label": "I"})]))
                else:
                    col = ch.split("-", 1)[1]
                    ent = {"dataset": "trees", "label": "concat('x', ${k})"}
                    if col == "label":
                        ent["label"] = ex
                    elif col == "create_if":
                        ent["create_if"] = cmp_
                    elif col == "update_if":
                        ent.update({"update_if": cmp_, "entity_id": "${k}"})
                    else:
                        ent.update({"entity_id": ex})
                        ent.pop("label")
                if twice:
                    rows.append(Row("q", "calculate", "again", {"calculation": "pulldata('%s', 'x', 'y', ${k})" % fn}))
                f.survey = rows
                if ent:
                    f.entities = ent
                try:
                    o = drive.convert_form(f)
                except Exception as e:  # noqa: BLE001 - a renderer problem is not pyxform's
                    ctx.ctr("render_error")
                    ctx.obs(kind="render_error", err=repr(e)[:200])
                    continue
                ctx.case(sig=f"pulldata-channel|{ch}|{call[:10]}|{twice}")
                ctx.ctr("pulldata_channel_forms")
                wit = common.witness(f, klass="pulldata-channel", channel=ch)
                if not o.ok:
                    ctx.viol(f"pulldata-channel:{ch}:refused", f"a valid form with pulldata() in {ch} was refused: {o.brief()[:200]}", wit)
                    continue
                p = xf.Parsed(o.xform)
                m = [i for i in p.secondary if i.get("id") == fn]
                if len(m) != 1:
                    ctx.viol(f"external-instance:count:pulldata-in-{ch}", f"{ex!r} in {ch}{' (and in a calculation)' if twice else ''}: instance {fn!r} declared {len(m)} times; "
                             f"instances: {[i.get('id') for i in p.secondary]}", wit)
                elif m[0].get("src") != f"jr://file-csv/{fn}.csv":
                    ctx.viol(f"external-instance:uri:pulldata-in-{ch}", f"instance {fn!r} src={m[0].get('src')!r}", wit)


def run_shard(ctx):
    pl = plan(ctx.tier, ctx.seed)
    shared_filter_text_forms(ctx)
    pulldata_channel_forms(ctx)
    for i in range(pl["n"]):
        if not ctx.mine(i):
            continue
        rng = ctx.rng("case", i)
        form = make_form(rng, i)
        if i % 6 == 2 and not form.meta.get("dict_key_order"):
            form.meta["spacer"] = (rng.choice(["xlsx", "xls"]), i)
        elif i % 6 == 4 and not form.meta.get("dict_key_order"):
            form.meta["multiline"] = rng.choice(["csv", "csv", "xlsx", "xls"])
            for rows_ in list(form.choices.values()) + [form.external_choices or []]:
                for c_ in rows_:
                    for k_ in list(c_):
                        if (k_.startswith("label") or k_ in EXTRA) and isinstance(c_[k_], str) and c_[k_] and "${" not in c_[k_] and rng.random() < 0.6:
                            c_[k_] = c_[k_] + "\n" + "line two " + k_  # (a CR LF would come back from any XML parser as LF: not pyxform's doing)
        check(ctx, form, common.feature_sig(form, extra=(form.meta.get("interleave"),)), sample=(i < 2))


def replay(w):
    def chk(ctx, wit):
        if wit.get("klass") == "shared-filter":
            shared_filter_text_forms(ctx)
            return
        if wit.get("klass") == "pulldata-channel":
            pulldata_channel_forms(ctx)
            return
        check(ctx, common.form_from_witness(wit), "replay")
    return common.replay_with(PROP, w, chk)
