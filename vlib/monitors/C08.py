"""C08 — each language shows exactly the text written for it.

Deciding oracle: reference model of the documented translation rules evaluated on the
abstract form, compared with the *effective* text computed from the XForm (follow
jr:itext -> translation -> value with the matching form, or the inline text):
  an element is itext-bearing for a kind iff a language-suffixed cell of that kind exists
  on the row (labels: or any media; hints: or a guidance hint; messages: or a ${ref});
  then for every language L of the form: the suffixed cell if present, else the unsuffixed
  cell when L is the default language, else the placeholder '-' (media: absent);
  otherwise the unsuffixed cell is shown inline in every language.
  Translations present == languages named in any translatable column (+ the default
  language iff an itext-bearing element has an unsuffixed cell).
Every text is a unique marker 'kind.row.lang', so another row's or another language's
text identifies itself.
"""
from __future__ import annotations

import itertools

import re

from .. import render, common, drive, gen, refmodel, xf
from ..model import Row
from ..refmodel import MEDIA, base_type, default_language, split_header, texts

PROP = "C08"
LEVEL = "exploration"
TECHNIQUE = "runtime reference-model monitor: effective text per (element, kind, language) computed from the parsed XForm vs the documented translation rules on the abstract form"
RULE = ("cases = generated multi-language forms (sparse patterns, unsuffixed+suffixed mixes, media, guidance, messages, choices) x "
        "default_language in {unset, listed, unlisted} by setting or argument x delimiter style; non-trivial = converted and >=1 "
        "(element, kind, language) triple compared; distinct = distinct (form feature signature, default-language mode)")
ASSUMPTIONS = ["texts contain no ${references} here (C03/C06 cover those channels)", "or_other 'Other'/'Specify other.' texts are part of the model",
               "choices without any label/media in an itext list are skipped (known C07 finding)"]

L1, L2, L3 = "English (en)", "French (fr)", "Deutsch (de)"


def plan(tier, seed):
    n = 1800 if tier == "quick" else 26000
    return {"shards": 16, "timeout": 900 if tier == "quick" else 3600, "n": n,
            "floors": {"triples_compared": n * 10, "forms_compared": n // 2, "distinct": 100}}


def make_form(rng, i):
    langs = rng.choice([[L1, L2], [L1, L2, L3], [L1], ["en", "fr"], []])
    cfg = common.rich_cfg(rng, langs=langs, p_translated=rng.choice([0.6, 0.9]), p_sparse=rng.choice([0.0, 0.3, 0.6]),
                          unsuffixed_too=rng.choice([0.0, 0.4, 0.8]), p_label_ref=0, p_choice_label_ref=0, p_hint=0.5, p_guidance=0.35, p_media=0.35,
                          p_constraint=0.5, p_constraint_msg=0.9, p_required=0.4, p_required_msg=0.8, p_choice_media=0.3, p_section_media=0.15,
                          p_or_other=rng.choice([0, 0.25]), p_select=0.35, p_randomize=rng.choice([0, 0.3]), p_search=0, p_trigger=0, p_choice_nolabel=rng.choice([0, 0, 0.25]), delim=rng.choice(["::", "::", ":", ": ", " : ", ":: ", " :: "]),  # the delimiters may have blanks around them
                          p_bind_extra=0, p_instance_extra=0, p_body_extra=0, p_msg_ref=rng.choice([0, 0.4]))
    f = gen.gen_form(rng, cfg)
    mode = i % 4
    f.settings.pop("default_language", None)
    if langs:
        if mode == 1:
            f.settings["default_language"] = rng.choice(langs)
        elif mode == 2:
            f.settings["default_language"] = "Other (ot)"
        elif mode == 3:
            f.args["default_language"] = rng.choice(langs + ["Arg (ar)"])
    f.meta["dl_mode"] = mode
    return f


# ----------------------------------------------------------------------------- model
def model(form, rm):
    """expected: {(path, kind): ('itext', {lang: text|None}) | ('inline', text) }, plus expected language set"""
    D = default_language(form)
    langs = list(rm.langs)
    need_default = [False]
    exp = {}

    def fam(cells, base):
        return texts(cells, base)

    def itext_map(t):
        """t: {lang|None: text}"""
        if None in t and D not in t:
            need_default[0] = True
        return t

    pending = []
    for e in rm.entries:
        r = e.row
        if r is None:
            if e.kind == "other-helper":
                exp[(e.path, "label")] = ("inline", "Specify other.")
            continue
        visible = r.is_section() or rm.has_control(r)
        if not visible:
            continue
        lab = fam(r.cells, "label")
        media = {m: fam(r.cells, m) for m in MEDIA if fam(r.cells, m)}
        hint = fam(r.cells, "hint")
        guid = fam(r.cells, "guidance_hint")
        if r.kind == "group" and not lab and not media:
            pass
        elif any(k is not None for k in lab) or media:
            pending.append(((e.path, "label"), itext_map(lab) if lab else {}, "text"))
        elif lab:
            exp[(e.path, "label")] = ("inline", lab[None])
        for m, t in media.items():
            pending.append(((e.path, m), itext_map(t), "media"))  # also for a group whose only 'label' is its media
        if r.kind == "q":
            if any(k is not None for k in hint) or guid:
                if hint:
                    pending.append(((e.path, "hint"), itext_map(hint), "text"))
            elif hint:
                exp[(e.path, "hint")] = ("inline", hint[None])
            if guid:
                pending.append(((e.path, "guidance_hint"), itext_map(guid), "text"))
            for kind in ("constraint_message", "required_message"):
                t = fam(r.cells, kind)
                if not t:
                    continue
                if any(k is not None for k in t) or "${" in "".join(t.values()):
                    pending.append(((e.path, kind), itext_map(t), "text"))
                else:
                    exp[(e.path, kind)] = ("inline", t[None])
    # choices
    for ln, rows in form.choices.items():
        rows = [c for c in rows if not c.get("__blank")]
        req = False
        label_langs = []
        for c in rows:
            lab = {split_header(h)[1]: v for h, v in c.items() if split_header(h)[0] == "label"}
            med = any(split_header(h)[0] in MEDIA for h in c)
            if med or any(k is not None for k in lab) or any("${" in v for v in lab.values()):
                req = True
            for k in lab:
                kk = D if k is None else k
                if any(x is not None for x in lab) and kk not in label_langs:
                    label_langs.append(kk)
        used_or_other = any((e.row is not None and e.row.meta.get("list") == ln and e.row.meta.get("or_other")) for e in rm.entries)
        has_other = any(c.get("name") == "other" for c in rows)
        for idx, c in enumerate(rows):
            lab = {split_header(h)[1]: v for h, v in c.items() if split_header(h)[0] == "label"}
            med = {}
            for h, v in c.items():
                b, lg = split_header(h)
                if b in MEDIA:
                    med.setdefault(b, {})[lg] = v
            if req:
                if not lab and not med:
                    continue
                pending.append(((f"choice:{ln}", idx, "label"), itext_map(lab) if lab else {}, "text"))
                for m, t in med.items():
                    pending.append(((f"choice:{ln}", idx, m), itext_map(t), "media"))
            elif lab:
                exp[(f"choice:{ln}", idx, "label")] = ("inline", lab[None])
        if used_or_other and not has_other:
            idx = len(rows)
            if label_langs:
                pending.append(((f"choice:{ln}", idx, "label"), {lg: "Other" for lg in label_langs}, "text"))
            elif req:
                pending.append(((f"choice:{ln}", idx, "label"), itext_map({None: "Other"}), "text"))
            else:
                exp[(f"choice:{ln}", idx, "label")] = ("inline", "Other")
    exp_langs = list(langs)
    if need_default[0] and D not in exp_langs:
        exp_langs.append(D)
    for key, t, cls in pending:
        by = {}
        for L in exp_langs:
            if L in t:
                by[L] = t[L]
            elif L == D and None in t:
                by[L] = t[None]
            else:
                by[L] = None if (cls == "media" or not t) else "-"
        exp[key] = ("itext", by)
    return exp, exp_langs, D


# ----------------------------------------------------------------------------- observation
def effective(p: xf.Parsed, rm):
    """{(path, kind): ('itext', {lang: text|None}) | ('inline', text)} as a user of each language would see it."""
    trs, _ = p.itext()
    langs = [t[0] for t in trs]
    table = {t[0]: t[2] for t in trs}

    def lookup(tid, form):
        out = {}
        for lg in langs:
            vals = table[lg].get(tid)
            v = None
            if vals is not None:
                for f_, segs in vals:
                    if f_ == form:
                        v = xf.segs_text(segs)
            out[lg] = v
        return out

    def media_strip(v, m):
        if v is None:
            return None
        pre = "jr://images/" if m in ("image", "big-image") else f"jr://{m}/"
        return v[len(pre):] if v.startswith(pre) else "??" + v

    obs = {}
    binds = {b.get("nodeset"): b for b in p.binds()}
    for el in p.body.iter():
        if not isinstance(el.tag, str):
            continue
        t = xf.local(el.tag)
        if t in ("label", "hint", "value", "item", "itemset", "output", "setvalue", "setgeopoint"):
            continue
        path = el.get("ref") if t != "repeat" else None
        if path is None:
            continue
        for kind in ("label", "hint"):
            ch = el.find(xf.q(xf.XF, kind))
            if ch is None:
                continue
            ref = ch.get("ref")
            tid = xf.itext_id(ref) if ref else None
            if tid:
                obs[(path, kind)] = ("itext", lookup(tid, None))
                if kind == "hint":
                    g = lookup(tid, "guidance")
                    if any(v is not None for v in g.values()):
                        obs[(path, "guidance_hint")] = ("itext", g)
                if kind == "label":
                    for m in MEDIA:
                        mm = lookup(tid, m)
                        if any(v is not None for v in mm.values()):
                            obs[(path, m)] = ("itext", {k: media_strip(v, m) for k, v in mm.items()})
            else:
                txt = xf.segs_text(xf.content_segments(ch))
                if txt != "" or kind == "label":
                    obs[(path, kind)] = ("inline", txt)
    for ns, b in binds.items():
        for kind, attr in (("constraint_message", "constraintMsg"), ("required_message", "requiredMsg")):
            v = b.get(xf.q(xf.JR, attr))
            if v is None:
                continue
            tid = xf.itext_id(v)
            if tid:
                obs[(ns, kind)] = ("itext", lookup(tid, None))
            else:
                obs[(ns, kind)] = ("inline", v)
    for inst in p.secondary:
        iid = inst.get("id")
        root = inst.find(xf.q(xf.XF, "root"))
        if root is None:
            continue
        for idx, it in enumerate(root.findall(xf.q(xf.XF, "item"))):
            tid_el = it.find(xf.q(xf.XF, "itextId"))
            lab = it.find(xf.q(xf.XF, "label"))
            if tid_el is not None:
                tid = tid_el.text or ""
                obs[(f"choice:{iid}", idx, "label")] = ("itext", lookup(tid, None))
                for m in MEDIA:
                    mm = lookup(tid, m)
                    if any(v is not None for v in mm.values()):
                        obs[(f"choice:{iid}", idx, m)] = ("itext", {k: media_strip(v, m) for k, v in mm.items()})
            elif lab is not None:
                obs[(f"choice:{iid}", idx, "label")] = ("inline", lab.text or "")
    return obs, langs


_OUT = re.compile("\u00ab[^\u00bb]*\u00bb")
_REF = re.compile(r"\$\{[^}]*\}")


def norm_refs(v):
    """Compare texts with references abstracted: '${x}' (source) and '«path»' (output element) -> '«*»'.
    The writer pads mixed content with one leading/trailing space; references sit between single spaces."""
    if not isinstance(v, str):
        return v
    if "${" in v:
        v = _REF.sub("\u00ab*\u00bb", v)
    elif "\u00ab" in v:
        v = _OUT.sub("\u00ab*\u00bb", v)
    else:
        return v
    return " ".join(v.split())


def check(ctx, form, sig, sample=False, fmt="dict", spacers=0):
    sheets = form.to_sheets()
    if spacers:
        # empty spacer columns (no header, no cells) inside the header rows of the translated sheets
        import random as _r
        rr = _r.Random(spacers)
        for nm in ("survey", "choices"):
            if nm in sheets:
                h, rows = sheets[nm]
                for _ in range(rr.choice([1, 2, 2, 3])):
                    pos = rr.randint(1, len(h))
                    h = h[:pos] + [None] + h[pos:]
                    rows = [r[:pos] + [None] + r[pos:] for r in rows]
                sheets[nm] = (h, rows)
    if form.meta.get("scatter_choices") and "choices" in sheets and len(form.choices) >= 1:
        # a list's rows need not be adjacent on the choices sheet (an option appended at the bottom later, two lists maintained side by side):
        # their order within the list is their order on the sheet
        import random as _r
        rr = _r.Random(form.meta["scatter_choices"])
        h, rows = sheets["choices"]
        by = {}
        for r_ in rows:
            by.setdefault(r_[0], []).append(r_)
        if rr.random() < 0.5 and len(by) >= 2:
            # interleave: round-robin over the lists
            its = [list(v) for v in by.values()]
            rows2 = []
            while any(its):
                for it in its:
                    if it:
                        rows2.append(it.pop(0))
        else:
            # the last option of the first list moved to the very bottom, after everything else
            first = next(iter(by))
            rows2 = [r_ for r_ in rows if not (r_[0] == first and r_ is by[first][-1])] + [by[first][-1]]
        sheets["choices"] = (h, rows2)
        ctx.ctr("scattered_choice_list_forms")
    o = drive.convert_sheets(sheets, fmt=fmt, args=form.args)
    if not o.ok:
        ctx.ctr("rejected")
        if not o.exc_is_pyxform:
            ctx.ctr("internal_exception_seen(C17's business)")
        return
    try:
        p = xf.Parsed(o.xform)
    except xf.XFError:
        ctx.ctr("unparseable_output(C01's business)")
        return
    rm = refmodel.RM(form)
    exp, exp_langs, D = model(form, rm)
    obs, langs = effective(p, rm)
    ctx.case(sig=sig)
    ctx.ctr("forms_compared")
    wit = lambda **kw: common.witness(form, default_language=D, **kw)  # noqa: E731
    has_itext = any(v[0] == "itext" for v in exp.values())
    if has_itext or langs:
        if sorted(langs) != sorted(exp_langs):
            extra = [x for x in langs if x not in exp_langs]
            missing = [x for x in exp_langs if x not in langs]
            kind = "invented" if extra else "missing"
            ctx.viol(f"translations:{kind}-language", f"translations in output {langs}, expected {exp_langs} (default language {D!r}); extra={extra} missing={missing}", wit())
    # what a select shows for a choice goes through its itemset: the label ref must name the child the items of that instance really have
    # (jr:itext(itextId) for items carrying an itext id, the label child otherwise) - or the user is shown nothing in any language
    for el in p.body.iter():
        if not isinstance(el.tag, str) or xf.local(el.tag) != "itemset":
            continue
        m_ = re.search(r"instance\('([^']+)'\)/root/item", el.get("nodeset") or "")
        lab_ = el.find(xf.q(xf.XF, "label"))
        if not m_ or lab_ is None:
            continue
        inst_ = next((i_ for i_ in p.secondary if i_.get("id") == m_.group(1)), None)
        root_ = inst_.find(xf.q(xf.XF, "root")) if inst_ is not None else None
        items_ = root_.findall(xf.q(xf.XF, "item")) if root_ is not None else []
        if not items_:
            continue
        ref_ = lab_.get("ref") or ""
        child_ = "itextId" if ref_.replace(" ", "") == "jr:itext(itextId)" else ref_
        ctx.ctr("itemset_label_refs_followed")
        # (a choice without a label has no label child: only a ref that NO item can answer is judged)
        other_ = "itextId" if child_ == "label" else ("label" if child_ == "itextId" else None)
        if other_ and all(it_.find(xf.q(xf.XF, child_)) is None for it_ in items_) and any(it_.find(xf.q(xf.XF, other_)) is not None for it_ in items_):
            have_ = sorted({xf.local(c_.tag) for it_ in items_ for c_ in it_ if isinstance(c_.tag, str)})
            ctx.viol("choice-label:itemset-label-ref-names-no-child-of-the-items", f"select {el.getparent().get('ref')}: <label ref={ref_!r}> but the items of instance "
                     f"{m_.group(1)!r} have {have_}: no choice label or media is shown in any language", wit())
    for key, e in exp.items():
        g = obs.get(key)
        kind = key[-1]
        ctx.ctr("triples_compared", len(e[1]) if e[0] == "itext" else 1)
        if g is None:
            if e[0] == "itext" and all(v is None for v in e[1].values()):
                continue
            ctx.viol(f"{kind}:not-shown", f"{key}: nothing shown in the XForm, expected {e}", wit())
            continue
        if e[0] != g[0]:
            # inline vs itext with identical text in every language is still 'the text written for it'
            if e[0] == "inline" and g[0] == "itext" and all(v == e[1] for v in g[1].values()):
                continue
            ctx.viol(f"{kind}:mode:{e[0]}-expected", f"{key}: expected {e}, XForm shows {g}", wit())
            continue
        if e[0] == "inline":
            if norm_refs(e[1]) != norm_refs(g[1]):
                ctx.viol(f"{kind}:inline-text", f"{key}: shows {g[1]!r}, written {e[1]!r}", wit())
            continue
        for L in e[1]:
            ev, gv = norm_refs(e[1][L]), norm_refs(g[1].get(L, "<no such translation>"))
            if ev != gv:
                cls = "placeholder-expected" if ev == "-" else ("absent-expected" if ev is None else ("other-language-text" if gv in e[1].values() else "wrong-text"))
                ctx.viol(f"{kind}:{cls}", f"{key} language {L!r}: shows {gv!r}, expected {ev!r} (default language {D!r})", wit())
    for key, g in obs.items():
        if key not in exp and key[-1] in ("label", "hint", "guidance_hint", "constraint_message", "required_message") + MEDIA:
            if isinstance(key[0], str) and key[0].startswith("choice:"):
                continue
            if g == ("inline", "") or (g[0] == "inline" and g[1].strip() == ""):
                continue
            if g[0] == "itext" and all(v is None for v in g[1].values()):
                continue
            if "generated_table_list_label" in str(key[0]) or "reserved_name_for_field_list" in str(key[0]):
                continue
            ctx.viol(f"{key[-1]}:unexpected-text", f"{key}: XForm shows {g} but nothing was written for it", wit())
    if sample:
        ctx.sample({"form_md": common.sheets_to_md(form.to_sheets())[:1800], "default_language": D, "languages": exp_langs,
                    "observed": f"{len(exp)} (element, kind) entries matched"})


def search_twin_forms(ctx):
    """search() changes where a list's items are written (inline in the control instead of a secondary instance), not what each language is shown:
    the same list content under a second name, read by a plain select, must show the same label and media per choice and language."""
    from ..model import Form, Row
    k = 0
    for langs in ([], ["en", "fr"], ["English (en)", "French (fr)"]):
        for media in (None, "image", "audio"):
            for shape in ("all-translated", "mixed-plain", "plain-only", "one-unlabeled"):
                for style in ("search('f')", "minimal search('f', 'matches', 'name', 'x')"):
                    k += 1
                    if not ctx.mine(k):
                        continue
                    if not langs and shape in ("all-translated", "mixed-plain"):
                        continue
                    rows = []
                    for j in range(3):
                        c = {"name": f"c{j}"}
                        plain = shape == "plain-only" or (shape == "mixed-plain" and j == 1)
                        if shape == "one-unlabeled" and j == 2:
                            pass
                        elif plain or not langs:
                            c["label"] = f"plain {j}"
                        else:
                            for lg in langs:
                                c[f"label::{lg}"] = f"{lg[:2]} {j}"
                        if media and j != 1:
                            c[media if not langs or j == 0 else f"{media}::{langs[0]}"] = f"m{j}.{'png' if media == 'image' else 'mp3'}"
                        rows.append(c)
                    f = Form()
                    f.survey = [Row("q", "select_one l1", "sa", {"label": "S", "appearance": style}), Row("q", "select_one l2", "pl", {"label": "P"})]
                    f.choices = {"l1": [dict(c) for c in rows], "l2": [dict(c) for c in rows]}
                    o = drive.convert_form(f)
                    ctx.ctr("search_twin_forms")
                    ctx.case(sig=f"search-twin|{len(langs)}|{media}|{shape}|{style[:7]}")
                    if not o.ok:
                        ctx.ctr("search_twin_rejected")
                        continue
                    pp = xf.Parsed(o.xform)
                    trs, _ = pp.itext()
                    tl = [t[0] for t in trs] or [None]

                    def show(tid, lg):
                        for l_, _d, texts, _x in trs:
                            if l_ == lg:
                                return tuple(sorted((form or "long", xf.segs_text(sg)) for form, sg in texts.get(tid, [])))
                        return ()
                    ctl = next((el for el in pp.body.iter() if isinstance(el.tag, str) and el.get("ref") == "/data/sa"), None)
                    inst = next((i_ for i_ in pp.secondary if i_.get("id") == "l2"), None)
                    if ctl is None or inst is None:
                        ctx.viol("search-twin:structure", f"control /data/sa or instance l2 missing", common.witness(f, klass="search-twin"))
                        continue
                    for lg in tl:
                        a = []
                        for it in ctl.findall(xf.q(xf.XF, "item")):
                            lab = it.find(xf.q(xf.XF, "label"))
                            val = it.find(xf.q(xf.XF, "value"))
                            if lab is not None and lab.get("ref"):
                                a.append((val.text, show(xf.itext_id(lab.get("ref")), lg)))
                            else:
                                a.append((val.text, (("long", (lab.text or "") if lab is not None else ""),)))
                        b = []
                        root = inst.find(xf.q(xf.XF, "root"))
                        for it in root.findall(xf.q(xf.XF, "item")):
                            tid = it.find(xf.q(xf.XF, "itextId"))
                            lab = it.find(xf.q(xf.XF, "label"))
                            nm = it.find(xf.q(xf.XF, "name"))
                            if tid is not None:
                                b.append((nm.text, show(tid.text, lg)))
                            else:
                                b.append((nm.text, (("long", (lab.text or "") if lab is not None else ""),)))
                        ctx.ctr("search_twin_choice_lists_compared")
                        if a != b:
                            d = next(((x, y) for x, y in zip(a, b) if x != y), (a, b))
                            ctx.viol("search-twin:choice-shown-differently", f"language {lg!r}: the search() select shows {d[0]!r} where the plain select of the same list content shows {d[1]!r}",
                                     common.witness(f, klass="search-twin"))
                            break


def loop_text_forms(ctx):
    """Looped questions (begin loop over <list>): every copy shows its own choice's label, per language, hostile characters intact."""
    from .. import looptext
    rng = ctx.rng("looptext")
    frags = ["<b>", "&amp;", "]]>", "a < b", '"q"', "\u00e9\u05d0", "&", "</label>", "{x}", "#"]
    for k, (sheets, exp, sig) in enumerate(looptext.cases(rng, lambda: rng.choice(frags))):
        if not ctx.mine(k):
            continue
        o, viols = looptext.judge(sheets, exp)
        ctx.ctr("loop_text_forms")
        ctx.ctr("loop_text_cells", len(exp))
        ctx.case(sig=sig)
        for key, msg in viols[:4]:
            ctx.viol(key, msg, {"klass": "loop-text", "sheets_md": common.sheets_to_md(sheets)[:2500], "sheets": {n: [list(h), r] for n, (h, r) in sheets.items()}})


def table_list_text_forms(ctx):
    """A table-list section shows its own label and hint through the generated heading note (a group's <hint> is never written into the body):
    whatever the author wrote there - plain or per language - is what a user of each language sees on that note."""
    from ..model import Form, Row
    from ..refmodel import texts
    k = 0
    for langs in ([], ["en", "fr"], ["English (en)", "French (fr)"]):
        for lshape, hshape in itertools.product(("plain", "translated", "one-language", "none"), ("plain", "translated", "one-language", "none")):
            for sk in ("group", "repeat"):
                k += 1
                if not ctx.mine(k):
                    continue
                if (lshape == "none" and hshape == "none") or (not langs and {lshape, hshape} & {"translated", "one-language"}):
                    continue
                cells = {"appearance": "table-list" if k % 3 else "table-list compact"}
                for base, shape in (("label", lshape), ("hint", hshape)):
                    if shape == "plain":
                        cells[base] = f"{base} plain {k}"
                    elif shape == "translated":
                        for L in langs:
                            cells[f"{base}::{L}"] = f"{base} {L[:2]} {k}"
                    elif shape == "one-language":
                        cells[f"{base}::{langs[k % 2]}"] = f"{base} only {k}"
                f = Form()
                qcells = {"label": "Q"} if not langs or k % 2 else {f"label::{L}": f"Q {L[:2]}" for L in langs}
                f.survey = [Row(sk, f"begin {sk}", "tl", cells, [Row("q", "select_one l1", "s1", dict(qcells)), Row("q", "select_one l1", "s2", dict(qcells))])]
                f.choices = {"l1": [{"name": "a", "label": "A"}, {"name": "b", "label": "B"}]}
                o = drive.convert_form(f)
                ctx.case(sig=f"table-list-text|{langs}|{lshape}|{hshape}|{sk}")
                ctx.ctr("table_list_text_forms")
                wit = common.witness(f, klass="table-list-text")
                if not o.ok:
                    ctx.viol("table-list:rejected", f"a table-list {sk} with {lshape} label and {hshape} hint was refused: {o.brief()}", wit)
                    continue
                p = xf.Parsed(o.xform)
                rm = refmodel.RM(f)
                obs, out_langs = effective(p, rm)
                note = next((e.path for e in rm.entries if e.kind == "tl-label"), None)
                D = default_language(f)
                for base in ("label", "hint"):
                    t = texts(cells, base)
                    if not t:
                        continue
                    g = obs.get((note, base))
                    ctx.ctr("triples_compared", max(1, len(out_langs)))
                    if g is None:
                        ctx.viol(f"table-list:{base}:not-shown", f"the {base} written on the table-list {sk} ({t}) is shown nowhere: the heading note {note} has no {base}", wit)
                        continue
                    for L in (out_langs or [None]):
                        shown = g[1] if g[0] == "inline" else g[1].get(L)
                        want = t.get(L, t.get(None) if (L == D or L is None or L == "default") else None)
                        if None in t and L not in t and g[0] == "inline":
                            want = t[None]
                        if want is not None and shown != want:
                            ctx.viol(f"table-list:{base}:wrong-text", f"heading note {note} {base}, language {L!r}: shows {shown!r}, the {sk} row says {want!r}", wit)


def run_shard(ctx):
    loop_text_forms(ctx)
    search_twin_forms(ctx)
    table_list_text_forms(ctx)
    pl = plan(ctx.tier, ctx.seed)
    for i in range(pl["n"]):
        if not ctx.mine(i):
            continue
        rng = ctx.rng("case", i)
        form = make_form(rng, i)
        if i % 9 == 2:
            # a question whose name carries a declared prefix (a colon in the name, and therefore in every itext id built from it)
            langs = form.meta.get("langs") or []
            form.settings["namespaces"] = (form.settings.get("namespaces", "") + ' ex="http://example.org/ex"').strip()
            cells = {}
            hdrs_now = [h for r_, _ in form.walk() for h in r_.cells] + [h for l_ in form.choices.values() for c_ in l_ for h in c_]
            dl = ":" if (any(":" in h for h in hdrs_now) and not any("::" in h for h in hdrs_now)) else "::"  # the sheet's own delimiter style
            for base in rng.sample(["label", "hint", "guidance_hint", "constraint_message"], rng.randint(2, 4)) + ["label"]:
                for lg in (rng.sample(langs, rng.randint(1, len(langs))) if langs and rng.random() < 0.7 else [None]):
                    cells[base if lg is None else f"{base}{dl}{lg}"] = f"{base[:4]}.ns.{(lg or 'x')[:2]}"
            if any(c.startswith("constraint_message") for c in cells):
                cells["constraint"] = ". != 'z'"
            form.survey.append(Row("q", "text", f"ex:nsq{i % 5}", cells))
            ctx.ctr("prefixed_name_forms")
        if i % 5 == 3:
            form.meta["scatter_choices"] = i + 1
        fmt, spacers = "dict", 0
        if i % 6 == 4:
            fmt = rng.choice(["csv", "xlsx", "xls", "csv"])
            spacers = rng.randrange(1, 10**6)
            if fmt == "csv" and not all(isinstance(c, str) and "\n" not in c or c is None for _, (h, rows) in form.to_sheets().items() for r in rows for c in r):
                fmt = "xlsx"
            ctx.ctr("spacer_column_cases")
        if i % 6 == 1:
            # text containers: pipes inside markdown cells (written escaped, as markdown tables require), line breaks and Unicode line separators inside
            # quoted CSV cells - the text of a cell stays in its cell, its column and its language
            fmt = rng.choice(["md", "csv"])
            extra_ = {"md": [" | years", " a|b|c", "| lead", " \\ back"], "csv": ["\nsecond line", " \u2028 sep", " \u0085 nel", ", comma \"quoted\""]}[fmt]  # (CRLF inside a cell is read back as LF by every XML parser: not used)
            cellsets = [r_.cells for r_, _ in form.walk()] + [c_ for l_ in form.choices.values() for c_ in l_]
            touched = 0
            for cs_ in rng.sample(cellsets, min(len(cellsets), 6)):
                for h_ in [h_ for h_ in cs_ if split_header(h_)[0] in ("label", "hint", "constraint_message", "guidance_hint") and isinstance(cs_[h_], str) and "${" not in cs_[h_]][:2]:
                    add_ = rng.choice(extra_)
                    if "\n" in add_ and split_header(h_)[0] == "constraint_message":
                        add_ = " \u2028 sep"  # an untranslated message is an attribute value: a line break there is read back as a blank
                    cs_[h_] = cs_[h_] + add_
                    touched += 1
            sheets_now = form.to_sheets()
            if fmt == "md" and not all(render.md_ok_cell(c) for _, (h, rows) in sheets_now.items() for r in rows for c in r if isinstance(c, str)):
                fmt = "csv"
            ctx.ctr(f"text_container_cases:{fmt}")
        check(ctx, form, common.feature_sig(form, extra=(form.meta.get("dl_mode"), fmt, bool(spacers))), sample=(i < 2), fmt=fmt, spacers=spacers)


def replay(w):
    def chk(ctx, wit):
        if wit.get("klass") == "loop-text":
            loop_text_forms(ctx)  # the family is small and deterministic: run it whole
            return
        if wit.get("klass") == "table-list-text":
            table_list_text_forms(ctx)
            return
        if wit.get("klass") == "search-twin":
            search_twin_forms(ctx)
            return
        check(ctx, common.form_from_witness(wit), "replay")
    return common.replay_with(PROP, w, chk)
