"""C17 — broken forms are rejected with a located diagnosis; nothing ever crashes.

Two workloads, both judged at the convert() boundary (exception type, message, innermost
pyxform frame):

 (A) catalogue: valid generated forms (deep, with repeats, blank rows, several containers)
     x one catalogued breaking mutation x a site where it applies.  The reference model
     (KINDS below, written from the XLSForm documentation and the statement) says what the
     only acceptable outcome is: a PyXFormError whose message matches the kind's pattern
     and cites the spreadsheet row (computed from the abstract form's rendering, header =
     row 1, blank rows counted) when the error belongs to a row, or names the offending
     element / sheet / column otherwise.
 (B) crash monitor: vocabulary-level fuzz (types, names, parameters, references,
     appearances, sparse sheets, empty groups, settings) stacked on valid forms; the only
     acceptable outcomes are a result or PyXFormError.
"""
from __future__ import annotations

import copy
import random
import re

from .. import common, drive, gen, render
from ..model import Form, Row, sheets_to_md

PROP = "C17"
LEVEL = "exploration"
TECHNIQUE = ("runtime boundary monitor on convert(): error-catalogue reference model (mutation kind -> required error type, message pattern, "
             "row/name locator computed from the abstract form) over generated forms x mutations x sites, plus a crash monitor (exception type and "
             "innermost pyxform frame) over vocabulary-level fuzz")
RULE = ("case = one conversion of a generated valid form carrying exactly one catalogued breaking mutation at one site (A), or 1-6 stacked "
        "vocabulary mutations (B); non-trivial = (A) every case (each must be rejected), (B) cases that reached the converter with a "
        "syntactically plausible workbook; distinct = distinct (kind, site depth, in-repeat, blank rows before, container, column) for A and "
        "distinct (mutation-kind multiset, outcome class) for B")
ASSUMPTIONS = ["the catalogue covers the documented error kinds listed in KINDS; errors of entity declarations are C19's",
               "row numbers: header = row 1; blank rows are only representable (and only injected) in dict/xlsx/xls containers",
               "tree-level checks (duplicate names, unknown/ambiguous references, instance-id clashes, missing label) are judged on naming the element, not on a row"]

FORMATS = ["dict", "dict", "dict", "xlsx", "md", "xls", "csv"]


# =============================================================================== helpers on forms
def parent_list(form, row):
    for r, anc in form.walk():
        if r is row:
            return anc[-1].children if anc else form.survey
    raise KeyError(row)


def rows_where(form, pred):
    return [(i, r, anc) for i, (r, anc) in enumerate(form.walk()) if pred(r, anc)]


def nth(form, i):
    for k, (r, anc) in enumerate(form.walk()):
        if k == i:
            return r, anc
    raise IndexError(i)


def base_type(r):
    return (r.type or "").split(" ")[0]


VISIBLE_PLAIN = ("text", "integer", "decimal", "date", "time", "dateTime", "geopoint", "barcode", "acknowledge", "note")


def is_visible_q(r, anc=None):
    return r.kind == "q" and base_type(r) in VISIBLE_PLAIN + ("select_one", "select_multiple", "image", "audio", "range")


def fresh(form, stem):
    names = {r.name for r, _ in form.walk() if r.name}
    k = 0
    while f"{stem}{k}" in names:
        k += 1
    return f"{stem}{k}"


def label_cells(r):
    return [h for h in r.cells if h.split(":")[0].strip() in ("label", "hint", "guidance_hint", "image", "audio", "video", "big-image", "media")]


class Exp:
    """What the statement prescribes for a mutated form."""

    def __init__(self, pattern, locator="none", row=None, end_of=None, name=None, choice=None, names=None, alt_patterns=(), weak_row=False):
        self.pattern, self.locator, self.row, self.end_of, self.name, self.choice = pattern, locator, row, end_of, name, choice
        self.names = names
        self.alt_patterns = alt_patterns
        self.patch = None  # optional function(sheets, fmt) applied to the rendered sheets
        self.formats = None  # restrict containers
        self.column = None


KINDS = {}


def kind(name, weight=1):
    def deco(fn):
        KINDS[name] = (fn, weight)
        return fn
    return deco


def pick(rng, xs):
    return xs[rng.randrange(len(xs))] if xs else None


def add_row_somewhere(form, rng, row, want_depth=None):
    """Insert `row` at a random position of a random child list (top-level or inside any section)."""
    lists = [form.survey] + [r.children for r, _ in form.walk() if r.is_section()]
    lst = pick(rng, lists)
    lst.insert(rng.randint(0, len(lst)), row)
    return row


# =============================================================================== (A) catalogue of breaking mutations
# ---- survey rows --------------------------------------------------------------------------------------------
@kind("no-type", 2)
def k_no_type(f, rng):
    c = rows_where(f, lambda r, a: is_visible_q(r) and any(h.startswith("label") for h in r.cells))
    if not c:
        return None
    _, r, _ = pick(rng, c)
    r.type = None
    return Exp(r"Question with no type", "row", row=r)


@kind("unknown-type", 2)
def k_unknown_type(f, rng):
    c = rows_where(f, lambda r, a: r.kind == "q" and base_type(r) in VISIBLE_PLAIN)
    if not c:
        return None
    _, r, _ = pick(rng, c)
    t = pick(rng, ["textt", "integr", "selectone l1", "geo point", "begin grp", "string1", "numeric"])
    r.type = t
    r.cells.pop("parameters", None)
    r.cells.pop("appearance", None)
    return Exp(r"Unknown question type '%s'" % re.escape(t), "row", row=r)


@kind("no-name", 2)
def k_no_name(f, rng):
    c = rows_where(f, lambda r, a: (r.kind == "q" and base_type(r) not in ("note", "audit")) or r.is_section())
    if not c:
        return None
    _, r, _ = pick(rng, c)
    # nothing may refer to it any more
    if any(("${%s}" % r.name) in str(v) for x, _ in f.walk() for v in list(x.cells.values()) + [x.type or ""]) or \
       any(("${%s}" % r.name) in str(v) for lst in f.choices.values() for ch in lst for v in ch.values()):
        return None
    r.name = None
    return Exp(r"Question or group with no name", "row", row=r)


@kind("invalid-name", 2)
def k_invalid_name(f, rng):
    c = rows_where(f, lambda r, a: (r.kind == "q" and r.type != "audit") or r.is_section())
    _, r, _ = pick(rng, c)
    if any(("${%s}" % r.name) in str(v) for x, _ in f.walk() for v in list(x.cells.values()) + [x.type or ""]) or \
       any(("${%s}" % r.name) in str(v) for lst in f.choices.values() for ch in lst for v in ch.values()):
        return None
    bad = pick(rng, ["1abc", "a b", "a$b", "-x", "a/b", ".a", "a(b)", "q?", "a,b", "9"])
    r.name = bad
    return Exp(r"Invalid question name '%s'" % re.escape(bad), "row", row=r, alt_patterns=(r"contains an invalid character",))


@kind("end-unmatched", 2)
def k_end_unmatched(f, rng):
    t = pick(rng, ["end group", "end repeat", "end_group", "end loop"])
    raw = Row("raw", t)
    f.survey.insert(rng.randint(0, len(f.survey)), raw)
    return Exp(r"Unmatched end statement", "row", row=raw)


@kind("end-mismatched", 2)
def k_end_mismatched(f, rng):
    c = rows_where(f, lambda r, a: r.is_section())
    if not c:
        return None
    _, s, _ = pick(rng, c)
    s.meta["end_type"] = "end repeat" if s.kind == "group" else "end group"
    return Exp(r"Unmatched end statement", "row", end_of=s)


@kind("begin-unclosed", 2)
def k_begin_unclosed(f, rng):
    c = [(i, r, a) for i, r, a in rows_where(f, lambda r, a: r.is_section()) if not a]
    if not c:
        return None
    _, s, _ = pick(rng, c)
    i = f.survey.index(s)
    raw = Row("raw", s.type, s.name, s.cells)
    f.survey[i:i + 1] = [raw] + s.children
    # everything after it at top level is now inside the unclosed section; the message must name it
    return Exp(r"Unmatched begin statement", "name", name=s.name)


@kind("calculate-without-calculation", 2)
def k_calc_no_calc(f, rng):
    c = rows_where(f, lambda r, a: r.kind == "q" and base_type(r) == "calculate")
    if c:
        _, r, _ = pick(rng, c)
    else:
        r = add_row_somewhere(f, rng, Row("q", "calculate", fresh(f, "calcx")))
    for h in ("calculation", "default", "trigger"):
        r.cells.pop(h, None)
    return Exp(r"Missing calculation", "row", row=r)


@kind("list-missing", 2)
def k_list_missing(f, rng):
    c = rows_where(f, lambda r, a: r.kind == "q" and base_type(r) in ("select_one", "select_multiple", "rank"))
    if not c:
        return None
    _, r, _ = pick(rng, c)
    st = base_type(r)
    r.type = f"{st} nolist_zz"
    r.cells.pop("choice_filter", None)
    r.cells.pop("default", None)
    return Exp(r"List name not in choices sheet: nolist_zz", "row", row=r)


@kind("no-choices-sheet", 1)
def k_no_choices_sheet(f, rng):
    c = rows_where(f, lambda r, a: r.kind == "q" and base_type(r) in ("select_one", "select_multiple", "rank"))
    if not c:
        return None
    f.choices = {}
    f.choice_headers = []
    for r, _ in f.walk():
        r.cells.pop("choice_filter", None)
    return Exp(r"There should be a choices sheet in this xlsform", "sheet", name="choices")


@kind("select-from-file-bad-extension", 1)
def k_from_file_ext(f, rng):
    cmd = pick(rng, ["select_one_from_file", "select_multiple_from_file"])
    fn = pick(rng, ["foo.txt", "foo", "foo.csv.bak", "foo.xlsx"])
    r = add_row_somewhere(f, rng, Row("q", f"{cmd} {fn}", fresh(f, "sff"), {"label": "L"}))
    return Exp(r"File name for '%s %s' should end with" % (cmd, re.escape(fn)), "row", row=r)


@kind("or-other-with-choice-filter", 1)
def k_or_other_filter(f, rng):
    ln = pick(rng, sorted(f.choices))
    if not ln:
        return None
    r = add_row_somewhere(f, rng, Row("q", f"select_one {ln} or_other", fresh(f, "soo"), {"label": "L", "choice_filter": "name != ''"}))
    return Exp(r"Choice filter not supported with or_other", "row", row=r)


@kind("or-other-without-choices", 1)
def k_or_other_file(f, rng):
    t = pick(rng, ["select_one_from_file x.csv or_other", "select_multiple_from_file y.xml or_other", "select_one_from_file z.geojson or_other"])
    r = add_row_somewhere(f, rng, Row("q", t, fresh(f, "sof"), {"label": "L"}))
    return Exp(r"Please specify choices for this 'or other' question", "row", row=r)


PARAM_CASES = [
    # (kind-suffix, type, parameters, pattern)
    ("malformed", "text", "rows", r"Expecting parameters to be in the form of"),
    ("malformed", "integer", "foo bar=1", r"Expecting parameters to be in the form of"),
    ("unknown-key", "text", "bogus=1", r"invalid parameter\(s\): 'bogus'"),
    ("unknown-key", "image", "rows=3", r"invalid parameter\(s\): 'rows'"),
    ("unknown-key", "geotrace", "capture-accuracy=3", r"invalid parameter\(s\): 'capture-accuracy'"),
    ("unknown-key", "audio", "max-pixels=3", r"invalid parameter\(s\): 'max-pixels'"),
    ("unknown-key", "range", "begin=3", r"invalid parameter\(s\): 'begin'"),
    ("unknown-key", "SELECT", "value=a", r"invalid parameter\(s\): 'value'"),
    ("rows-not-integer", "text", "rows=abc", r"Parameter rows must have an integer value"),
    # a value with a second '=' (a typing slip: rows=3=4, randomize=true=false) is a bad value, not a shorter good one
    ("rows-not-integer", "text", "rows=3=4", r"Parameter rows must have an integer value"),
    ("randomize-invalid", "SELECT", "randomize=true=false", r"randomize must be set to true or false"),
    ("max-pixels-not-integer", "image", "max-pixels=100=2", r"Parameter max-pixels must have an integer value"),
    ("audio-quality-invalid", "audio", "quality=low=x", r"Invalid value for quality"),
    ("seed-invalid", "SELECT", "randomize=true seed=5=6", r"seed value must be a number or a reference"),
    ("randomize-invalid", "SELECT", "randomize=maybe", r"randomize must be set to true or false"),
    ("seed-without-randomize", "SELECT", "seed=4", r"Parameters must include randomize=true to use a seed"),
    ("seed-invalid", "SELECT", "randomize=true seed=abc", r"seed value must be a number or a reference"),
    ("range-not-numeric", "range", "start=abc end=5", r"Range parameters 'start', 'end' or 'step' must all be numbers"),
    ("max-pixels-not-integer", "image", "max-pixels=abc", r"Parameter max-pixels must have an integer value"),
    ("max-pixels-not-integer", "image", "max-pixels=inf", r"Parameter max-pixels must have an integer value"),
    ("max-pixels-not-integer", "image", "max-pixels=-Infinity app=com.example.cam", r"Parameter max-pixels must have an integer value"),
    ("max-pixels-not-integer", "image", "max-pixels=1e999", r"Parameter max-pixels must have an integer value"),
    ("max-pixels-not-integer", "image", "max-pixels=nan", r"Parameter max-pixels must have an integer value"),
    ("rows-not-integer", "text", "rows=inf", r"Parameter rows must have an integer value"),
    ("audio-quality-invalid", "audio", "quality=loud", r"Invalid value for quality"),
    ("mock-accuracy-invalid", "geopoint", "allow-mock-accuracy=maybe", r"Invalid value for allow-mock-accuracy"),
    ("capture-accuracy-not-numeric", "geopoint", "capture-accuracy=abc", r"Parameter capture-accuracy must have a numeric value"),
    ("warning-accuracy-not-numeric", "geopoint", "warning-accuracy=abc", r"Parameter warning-accuracy must have a numeric value"),
    ("app-invalid", "image", "app=nodots", r"Parameter 'app' has an invalid Android package name"),
    ("app-invalid", "image", "app=com.1bad.pkg", r"Parameter 'app' has an invalid Android package name"),
    ("from-file-value-invalid", "select_one_from_file c.csv", "value=1bad", r"Parameter 'value' has a value which is not valid"),
    ("from-file-label-invalid", "select_multiple_from_file c.xml", "label=a b*", r"Parameter 'label' has a value which is not valid|Expecting parameters"),
    ("audit-track-changes-invalid", "audit", "track-changes=maybe", r"track-changes must be set to true or false"),
    ("audit-identify-user-invalid", "audit", "identify-user=maybe", r"identify-user must be set to true or false"),
    ("audit-reasons-invalid", "audit", "track-changes-reasons=always", r"track-changes-reasons must be set to on-form-edit"),
    ("audit-location-incomplete", "audit", "location-priority=balanced", r"are required parameters"),
    ("audit-location-priority-invalid", "audit", "location-priority=max location-min-interval=1 location-max-age=2", r"location-priority must be set to"),
    ("audit-location-interval-invalid", "audit", "location-priority=balanced location-min-interval=x location-max-age=2", r"location-min-interval must have an integer value"),
    ("audit-location-age-lt-interval", "audit", "location-priority=balanced location-min-interval=9 location-max-age=2", r"location-max-age must be greater than or equal to location-min-interval"),
    ("audit-unknown-key", "audit", "bogus=1", r"invalid parameter\(s\): 'bogus'"),
]


@kind("parameters", 8)
def k_parameters(f, rng):
    sub, t, params, pat = pick(rng, PARAM_CASES)
    if t == "SELECT":
        ln = pick(rng, sorted(f.choices))
        if not ln:
            return None
        t = f"{pick(rng, ['select_one', 'select_multiple'])} {ln}"
    if t == "audit":
        for r, _ in list(f.walk()):
            if r.type == "audit":
                parent_list(f, r).remove(r)
        r = Row("q", "audit", pick(rng, ["audit", None]), {"parameters": params})
        f.survey.insert(rng.randint(0, len(f.survey)), r)
    else:
        r = add_row_somewhere(f, rng, Row("q", t, fresh(f, "prm"), {"label": "L", "parameters": params}))
    e = Exp(pat, "row", row=r)
    e.sub = sub
    return e


@kind("character-xml-forbids-in-text", 8)
def k_forbidden_char(f, rng):
    """A character that XML 1.0 forbids (vertical tab, form feed, other C0 controls, U+FFFE/U+FFFF) in a text cell, with or without a ${reference}
    beside it (text with a reference is parsed as XML content on its way out)."""
    c = pick(rng, ["\x01", "\x0b", "\x0c", "\x1f", "\ufffe", "\x08", "\ud800", "\udfff", "\udc00", "\udbff"])
    if "\ud800" <= c <= "\udfff":
        f.meta["force_dict"] = True  # half of a surrogate pair: only a dict (say, loaded from JSON text with a \\ud800 escape) can carry it
    vis = [r for r, a in f.walk() if is_visible_q(r)]
    if not vis:
        return None
    r = pick(rng, vis)
    others = [x.name for x in vis if x is not r and x.name]
    ref = (" ${%s}" % pick(rng, others)) if others and rng.random() < 0.6 else ""
    hs = [h for h in r.cells if h.split(":")[0] in ("label", "hint")]
    if any(":" in h for h in hs):
        hs = [h for h in hs if ":" in h]  # an unsuffixed cell may be overridden by the default language's column (dead text)
    col = pick(rng, hs or ["label"])
    r.cells[col] = f"bad{c}char{ref}"
    e = Exp(r"not allowed in XML|[Ii]nvalid (text|character)", "none")
    e.column = f"{col.split(':')[0]}/{'with-ref' if ref else 'plain'}"
    return e


@kind("prefix-used-outside-its-declaration", 3)
def k_prefix_scope(f, rng):
    """A namespace prefix declared through an attribute column of one row (bind::xmlns:ex, body::xmlns:ex, instance::xmlns:ex) and used in an attribute
    column of another row (or of another part of the same row): the prefix is not in scope there, the document would not be namespace-valid."""
    vis = [r for r, a in f.walk() if is_visible_q(r)]
    if len(vis) < 2:
        return None
    d, u = rng.sample(vis, 2)
    dc, uc = pick(rng, ["bind", "body", "instance"]), pick(rng, ["bind", "body", "instance"])
    if rng.random() < 0.25:
        u = d
        uc = pick(rng, [c for c in ("bind", "body", "instance") if c != dc])
    d.cells[f"{dc}::xmlns:exq"] = "http://example.org/exq"
    u.cells[f"{uc}::exq:flag"] = "1"
    e = Exp(r"prefix 'exq' .*is not declared", "none")
    e.column = f"{dc}-declares/{uc}-uses/{'same-row' if u is d else 'other-row'}"
    return e


@kind("audit-named", 1)
def k_audit_named(f, rng):
    for r, _ in list(f.walk()):
        if r.type == "audit":
            parent_list(f, r).remove(r)
    r = Row("q", "audit", "my_audit")
    f.survey.insert(rng.randint(0, len(f.survey)), r)
    return Exp(r"Audits must always be named 'audit.'", "row", row=r)


@kind("trigger-not-a-reference", 3)
def k_trigger_nonref(f, rng):
    qs = [x.name for x, _ in f.walk() if x.kind == "q" and base_type(x) in ("text", "integer", "decimal")]
    vals = ["abc", "1", "today()"]
    if qs:
        # a reference plus anything else is not "a reference to another question" either; accepted, such a cell used to lose the calculation without a word
        a, b = pick(rng, qs), pick(rng, qs)
        vals += ["${%s}, ${%s}" % (a, b), "${%s} ${%s}" % (a, b), "${%s} + 1" % a, "x ${%s}" % a, "${%s}${%s}" % (a, b)]
    r = add_row_somewhere(f, rng, Row("q", pick(rng, ["calculate", "text", "integer"]), fresh(f, "trg"), {"label": "L", "calculation": "1 + 1", "trigger": pick(rng, vals)}))
    if r.type == "calculate":
        r.cells.pop("label")
    return Exp(r"Only references to other fields are allowed in the 'trigger' column", "row", row=r)


@kind("trigger-on-element-without-control", 3)
def k_trigger_no_control(f, rng):
    """The action of a triggered calculation is nested in the triggering question's control: a trigger that names something without a control
    (a hidden/metadata question, a calculate, a group or repeat, the last-saved copy of a question) leaves nowhere to put it."""
    variant = pick(rng, ["hidden", "start", "today", "deviceid", "calculate", "group", "repeat", "last-saved", "bg-calculate", "bg-hidden"])
    tname = fresh(f, "trgsrc")
    if variant in ("hidden", "start", "today", "deviceid"):
        f.survey.insert(rng.randint(0, len(f.survey)), Row("q", variant, tname, {}))
    elif variant in ("calculate", "bg-calculate"):
        f.survey.insert(rng.randint(0, len(f.survey)), Row("q", "calculate", tname, {"calculation": "1 + 1"}))
    elif variant == "bg-hidden":
        f.survey.insert(rng.randint(0, len(f.survey)), Row("q", "hidden", tname, {}))
    elif variant in ("group", "repeat"):
        f.survey.append(Row(variant, f"begin {variant}", tname, {"label": "sec"}, [Row("q", "text", fresh(f, "insec"), {"label": "in"})]))
    else:
        f.survey.insert(0, Row("q", "text", tname, {"label": "src"}))
    trig = "${last-saved#%s}" % tname if variant == "last-saved" else "${%s}" % tname
    if variant.startswith("bg-"):
        r = Row("q", "background-geopoint", fresh(f, "bgp"), {"trigger": trig})
    else:
        r = Row("q", pick(rng, ["calculate", "text", "integer"]), fresh(f, "trg"), {"label": "L", "calculation": "1 + 1", "trigger": trig})
        if r.type == "calculate":
            r.cells.pop("label")
    f.survey.append(r)
    e = Exp(r"not user-visible so it can't be used as a calculation trigger|Only references to other fields are allowed in the 'trigger' column|the 'trigger' column must be a reference to another", "none")
    e.sub = variant
    return e


@kind("trigger-unknown-reference", 1)
def k_trigger_unknown(f, rng):
    r = add_row_somewhere(f, rng, Row("q", pick(rng, ["calculate", "text"]), fresh(f, "trg"), {"label": "L", "calculation": "1 + 1", "trigger": "${nosuch_trig}"}))
    if r.type == "calculate":
        r.cells.pop("label")
    return Exp(r"There is no survey element with this name|must be a reference to another question that exists", "name", name="nosuch_trig", alt_patterns=(r"\[row : \d+\]",))


@kind("background-geopoint", 3)
def k_bg_geopoint(f, rng):
    tg = [r for r, a in f.walk() if r.kind == "q" and base_type(r) in ("text", "integer")]
    which = rng.randrange(5)
    name = fresh(f, "bgp")
    secs = [r for r, a in f.walk() if r.is_section() and r.name]
    if which == 4:
        # the trigger names a group or a repeat: not "another question" - there is no control to hang the action on
        if not secs:
            return None
        r = Row("q", "background-geopoint", name, {"trigger": "${%s}" % pick(rng, secs).name})
        pat = r"For 'background-geopoint' questions, the 'trigger' column must be a reference"
    elif which == 0:
        r = Row("q", "background-geopoint", name, {})
        pat = r"For 'background-geopoint' questions, the 'trigger' column must be a reference"
    elif which == 1:
        r = Row("q", "background-geopoint", name, {"trigger": "not-a-ref"})
        pat = r"For 'background-geopoint' questions, the 'trigger' column must be a reference"
    elif which == 2:
        r = Row("q", "background-geopoint", name, {"trigger": "${nosuch_bg}"})
        pat = r"For 'background-geopoint' questions, the 'trigger' column must be a reference"
    else:
        if not tg:
            return None
        r = Row("q", "background-geopoint", name, {"trigger": "${%s}" % pick(rng, tg).name, "calculation": "1 + 1"})
        pat = r"For 'background-geopoint' questions, the 'calculation' column must be empty"
    add_row_somewhere(f, rng, r)
    return Exp(pat, "row", row=r)


REF_COLUMNS = ["relevant", "constraint", "calculation", "required", "read_only", "label", "hint", "default", "choice_filter", "repeat_count",
               "constraint_message", "required_message", "guidance_hint", "instance::x", "bind::odk:q", "parameters-seed", "choice-label", "entity-label", "instance_name"]


def _plant_ref(f, rng, refname, col=None):
    """Put ${refname} into some reference-bearing cell; return (column, owner Row or None)."""
    col = col or pick(rng, REF_COLUMNS)
    vis = [r for r, a in f.walk() if is_visible_q(r) and base_type(r) not in ("note",)]
    if col in ("relevant", "constraint", "required", "read_only", "constraint_message", "required_message", "hint", "label", "guidance_hint", "instance::x", "bind::odk:q"):
        if not vis:
            return None
        r = pick(rng, vis)
        if col in ("label", "hint", "constraint_message", "required_message", "guidance_hint"):
            hs = [h for h in r.cells if h == col or h.startswith(col + ":")]
            if any(h != col for h in hs):
                hs = [h for h in hs if h != col]  # an unsuffixed cell may be overridden by the default language's column (dead text)
            h = pick(rng, hs) if hs else col
            r.cells[h] = (r.cells.get(h) or "T") + " ${%s} end" % refname
            if col == "guidance_hint" and not any(h2.startswith("hint") for h2 in r.cells):
                r.cells["hint"] = "H"
        elif col in ("instance::x", "bind::odk:q"):
            r.cells[col] = "${%s}" % refname
        else:
            old = r.cells.get(col)
            r.cells[col] = ("(%s) and " % old if old and old not in ("yes", "true()") else "") + "${%s} != ''" % refname
        return col, r
    if col == "calculation":
        r = add_row_somewhere(f, rng, Row("q", "calculate", fresh(f, "cx"), {"calculation": "${%s} + 1" % refname}))
        return col, r
    if col == "default":
        r = add_row_somewhere(f, rng, Row("q", "text", fresh(f, "dx"), {"label": "L", "default": "${%s}" % refname}))
        return col, r
    if col == "choice_filter":
        ln = pick(rng, sorted(f.choices))
        if not ln:
            return None
        r = add_row_somewhere(f, rng, Row("q", f"select_one {ln}", fresh(f, "sx"), {"label": "L", "choice_filter": "name = ${%s}" % refname}))
        return col, r
    if col == "repeat_count":
        rp = Row("repeat", "begin repeat", fresh(f, "rx"), {"label": "R", "repeat_count": pick(rng, ["${%s}", "${%s} + 1"]) % refname},
                 [Row("q", "text", fresh(f, "rq"), {"label": "L"})])
        add_row_somewhere(f, rng, rp)
        return col, rp
    if col == "parameters-seed":
        ln = pick(rng, sorted(f.choices))
        if not ln:
            return None
        r = add_row_somewhere(f, rng, Row("q", f"select_one {ln}", fresh(f, "sx"), {"label": "L", "parameters": "randomize=true seed=${%s}" % refname}))
        return col, r
    if col == "choice-label":
        ln = pick(rng, sorted(f.choices))
        if not ln or not any(r.meta.get("list") == ln for r, _ in f.walk()):
            return None
        ch = pick(rng, f.choices[ln])
        hs = [h for h in ch if h.startswith("label")]
        if any(h != "label" for h in hs):
            hs = [h for h in hs if h != "label"]  # unsuffixed text may be overridden by the default language's column
        if not hs:
            return None
        h = pick(rng, hs)
        ch[h] = str(ch[h]) + " ${%s} z" % refname
        return col, None
    if col == "entity-label":
        if f.entities is not None or any("save_to" in r.cells for r, _ in f.walk()):
            return None
        f.entities = {"list_name": "ents", "label": "concat(${%s}, 'x')" % refname}
        return col, None
    if col == "instance_name":
        f.settings["instance_name"] = "concat(${%s}, 'x')" % refname
        return col, None
    return None


@kind("reference-unknown", 8)
def k_ref_unknown(f, rng):
    name = pick(rng, ["nosuch_q", "Nosuch", "zzz9", "no-such.q"])
    got = _plant_ref(f, rng, name)
    if not got:
        return None
    e = Exp(r"There is no survey element with this name|no survey element named", "name", name=name)
    e.column = got[0]
    return e


@kind("reference-ambiguous", 4)
def k_ref_ambiguous(f, rng):
    n = pick(rng, [2, 2, 3, 3, 4, 5])
    dn = fresh(f, "dupq")
    for k in range(n):
        g = Row("group", "begin group", fresh(f, f"gamb{k}_"), {"label": "G"}, [Row("q", "text", dn, {"label": "L"})])
        add_row_somewhere(f, rng, g)
    got = _plant_ref(f, rng, dn, col=pick(rng, ["relevant", "constraint", "calculation", "label", "default", "required"]))
    if not got:
        return None
    e = Exp(r"There are multiple survey elements with this name|multiple survey elements named", "name", name=dn)
    e.column = f"{got[0]}/x{n}"
    return e


@kind("reference-last-saved-ambiguous-or-unknown", 4)
def k_ref_last_saved_bad(f, rng):
    """${last-saved#name} where the name belongs to several elements, or to none: refused like the plain reference would be."""
    if rng.random() < 0.6:
        dn = fresh(f, "lsdup")
        for k in range(pick(rng, [2, 2, 3])):
            g = Row(pick(rng, ["group", "repeat"]), None, fresh(f, f"gls{k}_"), {"label": "G"}, [Row("q", "text", dn, {"label": "L"})])
            g.type = f"begin {g.kind}"
            add_row_somewhere(f, rng, g)
        e = Exp(r"There are multiple survey elements with this name|multiple survey elements named", "name", name=dn)
        tag = "ambiguous"
    else:
        dn = pick(rng, ["nosuch_ls", "zz_last"])
        e = Exp(r"There is no survey element with this name|no survey element named", "name", name=dn)
        tag = "unknown"
    got = _plant_ref(f, rng, "last-saved#" + dn, col=pick(rng, ["relevant", "constraint", "calculation", "label", "default", "required", "choice_filter", "parameters-seed", "hint"]))
    if not got:
        return None
    e.column = f"{got[0]}/{tag}"
    return e


@kind("trigger-ambiguous-reference", 3)
def k_trigger_ambiguous(f, rng):
    """A trigger cell naming a question that exists more than once: refused like any ambiguous reference, for value and for location actions alike."""
    dn = fresh(f, "trdup")
    for k in range(pick(rng, [2, 2, 3])):
        g = Row("group", "begin group", fresh(f, f"gtr{k}_"), {"label": "G"}, [Row("q", "text", dn, {"label": "L"})])
        add_row_somewhere(f, rng, g)
    how = pick(rng, ["calculate", "background-geopoint", "text"])
    cells = {"trigger": "${%s}" % dn}
    if how != "background-geopoint":
        cells["calculation"] = "1 + 1"
    if how == "text":
        cells["label"] = "T"
    f.survey.append(Row("q", how, fresh(f, "trtarget"), cells))
    e = Exp(r"There are multiple survey elements with this name|multiple survey elements named", "name", name=dn)
    e.column = f"trigger/{how}"
    return e


MALFORMED = ["${a", "${ a}", "${a }", "${a b}", "${a${b}}", "${}", "${a} + ${", "${a} and ${b", "${a.}}", "${1a}", "$ {a}x${", "${a}${", "${${a}}"]


@kind("reference-malformed", 6)
def k_ref_malformed(f, rng):
    bad = pick(rng, MALFORMED)
    where = pick(rng, ["relevant", "constraint", "calculation", "label", "hint", "default", "required", "choices.label", "choice_filter", "repeat_count", "trigger"])
    if where == "choices.label":
        ln = pick(rng, sorted(f.choices))
        if not ln:
            return None
        ch = pick(rng, f.choices[ln])
        hs = [h for h in ch if h.startswith("label")] or ["label"]
        if any(h != "label" for h in hs):
            hs = [h for h in hs if h != "label"]
        ch[pick(rng, hs)] = "lbl " + bad
        e = Exp(r"On the 'choices' sheet, the '[^']+' value is invalid\. Reference expressions must only include question names", "row", choice=ch,
                alt_patterns=(r"There is no survey element with this name",))
        e.column = where
        e.needs_use = ln
        return e
    vis = [r for r, a in f.walk() if is_visible_q(r)]
    if where == "repeat_count":
        r = Row("repeat", "begin repeat", fresh(f, "rx"), {"label": "R", "repeat_count": bad}, [Row("q", "text", fresh(f, "rq"), {"label": "L"})])
        add_row_somewhere(f, rng, r)
    elif where == "calculation":
        r = add_row_somewhere(f, rng, Row("q", "calculate", fresh(f, "cx"), {"calculation": bad}))
    elif where == "trigger":
        r = add_row_somewhere(f, rng, Row("q", "calculate", fresh(f, "cx"), {"calculation": "1", "trigger": bad}))
    elif where == "choice_filter":
        ln = pick(rng, sorted(f.choices))
        if not ln:
            return None
        r = add_row_somewhere(f, rng, Row("q", f"select_one {ln}", fresh(f, "sx"), {"label": "L", "choice_filter": "name = " + bad}))
    else:
        if not vis:
            return None
        r = pick(rng, vis)
        if where in ("label", "hint"):
            hs = [h for h in r.cells if h.startswith(where + ":")]
            r.cells[pick(rng, hs) if hs else where] = "x " + bad
        else:
            r.cells[where] = bad
    if rng.random() < 0.3 and f.choices:
        # the very same text also sits in a cell where reference syntax is not checked (a choice name): irrelevant to the verdict on this cell
        full = r.cells.get(where, bad) if where not in ("repeat_count", "calculation", "trigger", "choice_filter") else bad
        f.choices.setdefault("unused_list_zz", []).append({"name": full, "label": "same text as a choice name"})  # an unused list: no select's rules apply to it
        where += "+same-text-as-choice-name"
    e = Exp(r"On the 'survey' sheet, the '[^']+' value is invalid\. Reference expressions must only include question names", "row", row=r,
            alt_patterns=(r"There is no survey element with this name",) +
            # '${a.}}' is a well-formed reference followed by a brace: in the trigger column the diagnosis is the cell-shape error, with its row
            ((r"Only references to other fields are allowed in the 'trigger' column",) if where.startswith("trigger") else ()))
    e.column = where
    e.bad = bad
    return e


@kind("duplicate-sibling-name", 4)
def k_dup_sibling(f, rng):
    c = rows_where(f, lambda r, a: (r.kind == "q" and base_type(r) not in ("audit",)) or r.is_section())
    _, r, anc = pick(rng, c)
    variant = pick(rng, ["same", "case", "case"]) if r.name.isascii() else "same"  # pyxform refuses names starting with an upper-case accented letter
    nm = r.name if variant == "same" else (r.name.upper() if r.name.upper() != r.name else r.name.lower())
    if nm == r.name and variant != "same":
        variant = "same"
    lst = anc[-1].children if anc else f.survey
    lst.insert(rng.randint(0, len(lst)), Row("q", "text", nm, {"label": "dup"}))
    e = Exp(r"There are more than one survey elements named '%s' \(case-insensitive\)" % re.escape(r.name.lower()), "name", name=r.name.lower())
    e.column = variant
    # if the duplicated name is referenced somewhere, the ambiguity error may legitimately come first
    e.alt_patterns = (r"There are multiple survey elements with this name", r"There are two sections with the name")
    return e


@kind("duplicate-section-name", 3)
def k_dup_section(f, rng):
    nm = fresh(f, "sec")
    a = Row(pick(rng, ["group", "repeat"]), None, nm, {"label": "A"}, [Row("q", "text", fresh(f, "sa"), {"label": "L"})])
    a.type = f"begin {a.kind}"
    f.survey.insert(rng.randint(0, len(f.survey)), a)
    holder = Row("group", "begin group", fresh(f, "hold"), {"label": "H"}, [])
    b = Row(pick(rng, ["group", "repeat"]), None, nm, {"label": "B"}, [Row("q", "text", fresh(f, "sb"), {"label": "L"})])
    b.type = f"begin {b.kind}"
    holder.children.append(b)
    f.survey.insert(rng.randint(0, len(f.survey)), holder)
    return Exp(r"There are two sections with the name %s" % re.escape(nm), "name", name=nm)


@kind("section-named-like-form", 1)
def k_section_root(f, rng):
    root = f.args.get("form_name") or f.settings.get("name") or "data"
    f.meta["force_dict"] = True  # path containers take the name from the file stem
    if any(r.name == root for r, _ in f.walk()):
        return None
    g = Row("group", "begin group", root, {"label": "G"}, [Row("q", "text", fresh(f, "rn"), {"label": "L"})])
    add_row_somewhere(f, rng, g)
    return Exp(r"The name '%s' is the same as the form name" % re.escape(root), "name", name=root)


@kind("label-missing", 4)
def k_label_missing(f, rng):
    c = rows_where(f, lambda r, a: r.kind == "q" and base_type(r) in ("text", "integer", "decimal", "date", "select_one", "select_multiple", "geopoint", "image", "note")
                   and "calculation" not in r.cells and not r.meta.get("default_dynamic") and "trigger" not in r.cells)
    if not c:
        return None
    _, r, _ = pick(rng, c)
    for h in label_cells(r):
        del r.cells[h]
    variant = pick(rng, ["none", "guidance-only"])
    if variant == "guidance-only":
        r.cells["guidance_hint"] = "only guidance"
    e = Exp(r"The survey element named '%s' has no label or hint" % re.escape(r.name), "name", name=r.name)
    e.column = variant
    return e


@kind("big-image-without-image", 1)
def k_big_image(f, rng):
    c = rows_where(f, lambda r, a: r.kind == "q" and base_type(r) in ("text", "integer", "note", "select_one"))
    if not c:
        return None
    _, r, _ = pick(rng, c)
    for h in [h for h in r.cells if h.split(":")[0] in ("image", "big-image", "media")]:
        del r.cells[h]
    r.cells[pick(rng, ["big-image", "media::big-image"])] = "big.png"
    return Exp(r"To use big-image, you must also specify an image", "name", name=r.name)


# ---- choices sheet ------------------------------------------------------------------------------------------
@kind("choice-without-name", 3)
def k_choice_no_name(f, rng):
    ln = pick(rng, sorted(f.choices))
    if not ln:
        return None
    ch = pick(rng, f.choices[ln])
    ch.pop("name", None)
    if not any(k != "name" for k in ch):
        ch["label"] = "L"
    if "name" not in f.choice_headers:
        f.choice_headers = ["name"] + list(f.choice_headers)  # the column stays, only this cell is empty
    return Exp(r"On the 'choices' sheet, the 'name' value is invalid\. Choices must have a name", "row", choice=ch)


@kind("choices-extra-column-with-language-suffix", 2)
def k_choice_extra_suffix(f, rng):
    """Only label and media columns take a ::language suffix; on any other choices column the grouped cell is a dict where the choice instance needs text."""
    ln = pick(rng, sorted(f.choices))
    if not ln:
        return None
    uses_double = any("::" in h for lst in f.choices.values() for c in lst for h in c) or any("::" in h for r, _ in f.walk() for h in r.cells)
    hdr = pick(rng, ["pop::2020", "hint::fr", "note::English (en)", "code::a::b"] + ([] if uses_double else ["x:y", "geo:lat"]))
    ch = pick(rng, f.choices[ln])
    ch[hdr] = "v1"
    base = hdr.split(":")[0]
    return Exp(r"On the 'choices' sheet, the '%s' value is invalid" % re.escape(base), "none")


@kind("survey-column-with-unsupported-suffix", 3)
def k_survey_suffix(f, rng):
    """A language (or any further ::part) on a survey column that is not translatable: the cell would be grouped into a dict where text is expected."""
    uses_double = any("::" in h for r, _ in f.walk() for h in r.cells) or any("::" in h for l_ in f.choices.values() for c_ in l_ for h in c_)
    # (columns that are spellings of body:: attributes - appearance, repeat_count - are left out: three-part body headers such as body:esri:style are in use)
    col = pick(rng, ["type", "name", "save_to", "parameters", "trigger", "default", "relevant", "required", "constraint", "calculation", "read_only", "choice_filter",
                     "disabled", "intent", "label::English", "hint::fr", "image::en", "constraint_message::en", "bind::a"])
    hdr = col + "::" + pick(rng, ["en", "English (en)", "x"])
    rows = [r for r, _ in f.walk() if r.kind == "q" and r.type != "audit"]
    if not rows:
        return None
    r = pick(rng, rows)
    r.cells[hdr] = pick(rng, ["x", "yes", "1"])
    e = Exp(r"On the 'survey' sheet, the '[^']+' column has a '::' \(or ':'\) part that is not supported", "none",
            alt_patterns=(r"different names for the same column",))
    e.sub = "core" if col in ("type", "name") else "other"
    return e


@kind("reserved-column-name", 3)
def k_reserved_column(f, rng):
    """Column names taken by the converter's own element classes, and grouped columns written without their attribute (bind instead of bind::x)."""
    where = pick(rng, ["survey", "survey", "choices"])
    if where == "choices":
        ln = pick(rng, sorted(f.choices))
        if not ln:
            return None
        col = pick(rng, ["fields", "self"])
        pick(rng, f.choices[ln])[col] = "v1"
        return Exp(r"On the 'choices' sheet, the '%s' value is invalid" % col, "none")
    col = pick(rng, ["action", "fields", "self", "question_type_dictionary", "bind", "control", "instance"])
    rows = [r for r, _ in f.walk() if r.kind in ("q", "group", "repeat") and r.type != "audit"]
    if not rows:
        return None
    r = pick(rng, rows)
    r.cells[col] = pick(rng, ["x", "yes", "relevant", "{}"])
    if col in ("bind", "control", "instance"):
        e = Exp(r"the '%s' column needs the name of an attribute" % col, "none")
    else:
        e = Exp(r"The '%s' column is not supported: the name is reserved" % col, "row", row=r)
    e.sub = "survey:" + ("grouped" if col in ("bind", "control", "instance") else "class-field")
    return e


@kind("choice-without-list-name", 2)
def k_choice_no_list(f, rng):
    """A choices row with content but an empty list_name cell belongs to no list: refused (it used to vanish without a word)."""
    ln = pick(rng, sorted(f.choices))
    if not ln or len(f.choices[ln]) < 2:
        return None
    ch = dict(pick(rng, f.choices[ln]))
    ch["name"] = "orphan_" + str(rng.randrange(100))
    e = Exp(r"On the 'choices' sheet, the 'list_name' value is invalid\. Choices must have a list name", "none")

    def patch(sheets, fmt):
        h, rows = sheets["choices"]
        li = 0  # list_name is the first column
        src = next((r for r in rows if r[li] == ln), None)
        if src is None:
            return sheets
        new = list(src)
        new[li] = None
        if "name" in h:
            new[h.index("name")] = ch["name"]
        at = rng.randint(1, len(rows))
        sheets["choices"] = (h, rows[:at] + [new] + rows[at:])
        return sheets
    e.patch = patch
    return e


@kind("choice-duplicate-name", 3)
def k_choice_dup(f, rng):
    ln = pick(rng, sorted(f.choices))
    if not ln or f.settings.get("allow_choice_duplicates"):
        return None
    src = pick(rng, f.choices[ln])
    dup = dict(src)
    variant = pick(rng, ["labelled", "labelled", "dup-unlabeled", "dup-image-only", "original-unlabeled"])
    if variant == "dup-unlabeled":
        for h in [h for h in dup if h.split(":")[0].strip() in ("label", "image", "audio", "video")]:
            del dup[h]
    elif variant == "dup-image-only":
        for h in [h for h in dup if h.split(":")[0].strip() == "label"]:
            del dup[h]
        dup["image"] = "dup.png"
    elif variant == "original-unlabeled":
        for h in [h for h in src if h.split(":")[0].strip() == "label"]:
            del src[h]
    f.choices[ln].insert(rng.randint(f.choices[ln].index(src) + 1, len(f.choices[ln])), dup)
    e = Exp(r"Choice names must be unique for each choice list", "row", choice=dup)
    e.column = variant
    return e


@kind("choice-name-with-space-in-select-multiple", 2)
def k_choice_space(f, rng):
    c = rows_where(f, lambda r, a: r.kind == "q" and base_type(r) == "select_multiple" and r.meta.get("list") in f.choices)
    if not c:
        ln = pick(rng, sorted(f.choices))
        if not ln:
            return None
        r = add_row_somewhere(f, rng, Row("q", f"select_multiple {ln}", fresh(f, "sm"), {"label": "L"}, meta={"list": ln}))
    else:
        _, r, _ = pick(rng, c)
    ln = r.type.split(" ")[1]
    ch = pick(rng, f.choices[ln])
    # defaults naming the choice would dangle, harmless
    ch["name"] = "sp ace"
    return Exp(r"Choice names with spaces cannot be added to multiple choice selects", "row", row=r, names=["sp ace", ln])


@kind("choices-sheet-without-name-column", 1)
def k_choices_no_name_col(f, rng):
    if not f.choices:
        return None
    for lst in f.choices.values():
        for ch in lst:
            ch.pop("name", None)
            if not ch:
                ch["label"] = "L"
    f.choice_headers = [h for h in f.choice_headers if h != "name"]
    return Exp(r"Invalid headers provided for sheet: 'choices'.*required column headers were not found: 'name'", "sheet", name="choices")


@kind("survey-sheet-without-type-column", 1)
def k_survey_no_type_col(f, rng):
    f.type_header = pick(rng, ["typ", "question type", "kind"])
    return Exp(r"Invalid headers provided for sheet: 'survey'.*required column headers were not found: 'type'", "sheet", name="survey")


@kind("missing-survey-sheet", 1)
def k_no_survey(f, rng):
    e = Exp(r"You must have a sheet named 'survey'", "sheet", name="survey")
    nm = pick(rng, ["surveys", "Survey1", "questions", "survey_", "srvey"])

    def patch(sheets, fmt):
        out = {}
        for k, v in sheets.items():
            out[nm if k == "survey" else k] = v
        return out
    e.patch = patch
    return e


@kind("duplicate-header", 2)
def k_dup_header(f, rng):
    sheet = pick(rng, ["survey", "choices"])
    if sheet == "choices" and not f.choices:
        sheet = "survey"
    e = Exp(r"Duplicate column header: ", "sheet", name=None)
    e.formats = ["xlsx", "xls", "md", "csv"]

    def patch(sheets, fmt):
        h, rows = sheets[sheet]
        cands = [x for x in h if x not in ("type", "name", "list_name")]
        dup = pick(rng, cands) if cands else h[-1]
        e.name = dup
        i = h.index(dup)
        # same content twice: only the header is wrong; in a spreadsheet the second copy may differ by a stray blank, which is trimmed away when the header is read
        dup2 = dup + pick(rng, ["", "", " ", "  "]) if fmt in ("xlsx", "xls") else dup
        sheets[sheet] = (h + [dup2], [r + [r[i]] for r in rows])
        return sheets
    e.patch = patch
    e.column = sheet
    return e


@kind("alias-duplicate-header", 2)
def k_alias_dup_header(f, rng):
    pairs = [("relevant", "relevance"), ("calculation", "calculate"), ("constraint_message", "constraint message"), ("label", "caption"), ("read_only", "readonly"),
             ("required_message", "required message"), ("choice_filter", "choice filter"), ("repeat_count", "repeat count")]
    a, b = pick(rng, pairs)
    used = [r for r, _ in f.walk() if a in r.cells]
    if not used:
        return None
    tgt = pick(rng, used)
    f.survey_headers = None
    tgt.cells[b] = tgt.cells[a]
    e = Exp(r"Invalid headers provided for sheet: 'survey'\. Headers that are different names for the same column were found", "sheet", names=[a, b])
    e.column = a
    if rng.random() < 0.5:
        # the alias to the LEFT of the documented name: which of the two comes first must not matter
        def patch(sheets, fmt):
            h, rows = sheets["survey"]
            if a in h and b in h and h.index(a) < h.index(b):
                ia, ib = h.index(a), h.index(b)
                h = list(h)
                h[ia], h[ib] = h[ib], h[ia]
                rows = [[(r[ib] if k == ia else (r[ia] if k == ib else c)) for k, c in enumerate(r)] for r in rows]
                sheets["survey"] = (h, rows)
            return sheets
        e.patch = patch
        e.sub = "alias-first"
    return e


# ---- instances / lists ---------------------------------------------------------------------------------------
@kind("instance-id-clash", 3)
def k_instance_clash(f, rng):
    which = rng.randrange(4)
    if which == 3:
        # two select-from-file questions whose files share the stem (= the instance id) but not the extension (= the URI)
        nm = fresh(f, "cities")
        e1, e2 = rng.sample([".csv", ".xml", ".geojson"], 2)
        add_row_somewhere(f, rng, Row("q", f"{pick(rng, ['select_one_from_file', 'select_multiple_from_file'])} {nm}{e1}", fresh(f, "sfa"), {"label": "A"}))
        add_row_somewhere(f, rng, Row("q", f"{pick(rng, ['select_one_from_file', 'select_multiple_from_file'])} {nm}{e2}", fresh(f, "sfb"), {"label": "B"}))
    elif which == 0:
        nm = fresh(f, "extfile")
        add_row_somewhere(f, rng, Row("q", "xml-external", nm, {}))
        add_row_somewhere(f, rng, Row("q", f"select_one_from_file {nm}.csv", fresh(f, "sff"), {"label": "L"}))
    elif which == 1:
        used = sorted({r.meta.get("list") for r, _ in f.walk() if r.meta.get("list") in f.choices and not r.meta.get("search")})
        if not used:
            return None
        nm = pick(rng, used)
        if any(r.name == nm for r, _ in f.walk()):
            return None
        add_row_somewhere(f, rng, Row("q", pick(rng, ["xml-external", "csv-external"]), nm, {}))
    else:
        nm = fresh(f, "pd")
        add_row_somewhere(f, rng, Row("q", "calculate", fresh(f, "pdc"), {"calculation": "pulldata('%s', 'a', 'b', 'c')" % nm}))
        add_row_somewhere(f, rng, Row("q", "xml-external", nm, {}))
    e = Exp(r"The same instance id will be generated for different external instance source URIs.*Instance name: '%s'" % re.escape(nm), "name", name=nm,
            alt_patterns=(r"Instance names must be unique",))
    e.column = str(which)
    return e


@kind("external-instance-duplicate", 1)
def k_external_dup(f, rng):
    nm = fresh(f, "xdup")
    g = Row("group", "begin group", fresh(f, "gx"), {"label": "G"}, [Row("q", "xml-external", nm, {})])
    add_row_somewhere(f, rng, g)
    f.survey.append(Row("q", "xml-external", nm, {}))
    return Exp(r"Instance names must be unique within a form.*'%s'" % re.escape(nm), "name", name=nm, alt_patterns=(r"more than one survey elements named",))


@kind("search-and-plain-select-share-list", 3)
def k_search_shared(f, rng):
    ln = pick(rng, sorted(f.choices))
    if not ln:
        return None
    a = fresh(f, "srch")
    add_row_somewhere(f, rng, Row("q", f"select_one {ln}", a, {"label": "L", "appearance": "search('fruits')"}))
    b = fresh(f, "plain")
    cells = {"label": "L"}
    if rng.random() < 0.4:
        cells["parameters"] = "randomize=true"  # reads the list through its instance, which a searched list does not get
    add_row_somewhere(f, rng, Row("q", f"select_one {ln}", b, cells))
    return Exp(r"uses 'search\(\)', and its select type references the choice list name '%s'" % re.escape(ln), "name", name=a)


@kind("search-on-select-from-file", 1)
def k_search_from_file(f, rng):
    a = fresh(f, "srchf")
    add_row_somewhere(f, rng, Row("q", "select_one_from_file c.csv", a, {"label": "L", "appearance": "search('fruits')"}))
    return Exp(r"Question '%s' is a select from file type, using 'search\(\)'" % a, "name", name=a)


@kind("external-choices-missing", 3)
def k_external_missing(f, rng):
    which = rng.randrange(3)
    if which == 2:
        # without a choice_filter the question is an ordinary select (a warning says so) and reads the choices sheet: the list must be there
        f.external_choices = [{"list_name": "xl", "name": "a", "label": "A"}]
        r = add_row_somewhere(f, rng, Row("q", "select_one_external xl", fresh(f, "sx"), {"label": "L"}))
        return Exp(r"List name not in choices sheet: xl|There should be a choices sheet in this xlsform", "row", row=r)
    if which == 0:
        f.external_choices = []
        r = add_row_somewhere(f, rng, Row("q", "select_one_external xl", fresh(f, "sx"), {"label": "L", "choice_filter": "a=1"}))
        return Exp(r"There should be an external_choices sheet in this xlsform", "sheet", name="external_choices")
    f.external_choices = [{"list_name": "other_xl", "name": "a", "label": "A"}]
    r = add_row_somewhere(f, rng, Row("q", "select_one_external xl", fresh(f, "sx"), {"label": "L", "choice_filter": "a=1"}))
    return Exp(r"List name not in external choices sheet: xl", "row", row=r)


@kind("table-list", 2)
def k_table_list(f, rng):
    ls = sorted(f.choices)
    if not ls:
        return None
    which = rng.randrange(2)
    if which == 0 and len(ls) >= 2:
        a, b = rng.sample(ls, 2)
        bad = Row("q", f"select_one {b}", fresh(f, "tl"), {"label": "L2"})
        g = Row("group", "begin group", fresh(f, "tlg"), {"label": "G", "appearance": "table-list"},
                [Row("q", f"select_one {a}", fresh(f, "tl_"), {"label": "L1"}), bad])
        pat = r"Badly formatted table list, list names don't match"
    else:
        a = pick(rng, ls)
        bad = Row("q", f"select_one {a}", fresh(f, "tl"), {"label": "L1", "choice_filter": "name != ''"})
        g = Row("group", "begin group", fresh(f, "tlg"), {"label": "G", "appearance": "table-list"}, [bad])
        pat = r"Choice filter not supported for table-list appearance"
    add_row_somewhere(f, rng, g)
    return Exp(pat, "row", row=bad)


@kind("loop", 1)
def k_loop(f, rng):
    which = rng.randrange(2)
    if which == 0:
        s = Row("group", "begin loop over nolist_lp", fresh(f, "lp"), {"label": "L"}, [Row("q", "text", fresh(f, "lq"), {"label": "Q"})])
        s.meta["end_type"] = "end loop"
        pat = r"List name not in columns sheet: nolist_lp"
    else:
        s = Row("group", "begin loop", fresh(f, "lp"), {"label": "L"}, [Row("q", "text", fresh(f, "lq"), {"label": "Q"})])
        s.meta["end_type"] = "end loop"
        pat = r"Repeat loop without list name|Unknown question type 'begin loop'"
    add_row_somewhere(f, rng, s)
    return Exp(pat, "row", row=s)


@kind("omit-instance-id-with-encryption", 1)
def k_omit_id(f, rng):
    f.settings["omit_instanceID"] = pick(rng, ["yes", "true", "Yes"])
    f.settings["public_key"] = "MIIBIjANBgkqhkiG9w0BAQEFAAOCAQ8A"
    return Exp(r"Cannot omit instanceID, it is required for encryption", "sheet", name="instanceID")


@kind("save-to-inside-repeat", 2)
def k_saveto_in_repeat(f, rng):
    if f.entities is not None or any("save_to" in r.cells for r, _ in f.walk()):
        return None
    f.entities = {"list_name": "ents", "label": "concat('a', 'b')"}
    q = Row("q", "text", fresh(f, "svq"), {"label": "L", "save_to": "prop1"})
    node = q
    for k in range(rng.choice([0, 1, 1, 2, 3])):
        node = Row("group", "begin group", fresh(f, f"svg{k}_"), {"label": "G"}, [node])
    rep_ = Row("repeat", "begin repeat", fresh(f, "svr"), {"label": "R"}, [Row("q", "text", fresh(f, "svpad"), {"label": "p"}), node])
    add_row_somewhere(f, rng, rep_)
    return Exp(r"you can't create entities from repeats|save_to values for form fields outside of repeats", "row", row=q)


@kind("generated-helper-name-collision", 3)
def k_helper_collision(f, rng):
    which = rng.randrange(3)
    if which == 0:
        ln = pick(rng, sorted(f.choices))
        if not ln:
            return None
        nm = fresh(f, "oo")
        lst = pick(rng, [f.survey] + [r.children for r, _ in f.walk() if r.is_section()])
        i = rng.randint(0, len(lst))
        lst.insert(i, Row("q", f"select_one {ln} or_other", nm, {"label": "L"}))
        lst.insert(rng.randint(0, len(lst)), Row("q", "text", f"{nm}_other", {"label": "clash"}))
        clash = f"{nm}_other"
    elif which == 1:
        nm = fresh(f, "rc")
        lst = pick(rng, [f.survey] + [r.children for r, _ in f.walk() if r.is_section()])
        lst.insert(rng.randint(0, len(lst)), Row("repeat", "begin repeat", nm, {"label": "R", "repeat_count": "1 + 1"}, [Row("q", "text", fresh(f, "rcq"), {"label": "L"})]))
        lst.insert(rng.randint(0, len(lst)), Row("q", "text", f"{nm}_count", {"label": "clash"}))
        clash = f"{nm}_count"
    else:
        f.survey.insert(rng.randint(0, len(f.survey)), Row("q", "text", "meta", {"label": "clash"}))
        f.settings.pop("omit_instanceID", None)
        clash = "meta"
    e = Exp(r"There are more than one survey elements named '%s'" % re.escape(clash.lower()), "name", name=clash.lower())
    e.column = str(which)
    return e


# =============================================================================== running (A)
def inject_blank_rows(f, rng):
    n = 0
    lists = [f.survey] + [r.children for r, _ in f.walk() if r.is_section()]
    for lst in lists:
        if rng.random() < 0.4:
            for _ in range(rng.randint(1, 3)):
                lst.insert(rng.randint(0, len(lst)), Row("raw", None))
                n += 1
    for ln, lst in f.choices.items():
        if rng.random() < 0.3:
            lst.insert(rng.randint(0, len(lst)), {"__blank": True})
            n += 1
    return n


def choice_rownum(f, ch):
    n = 1
    for lst in f.choices.values():
        for c in lst:
            n += 1
            if c is ch:
                return n
    return None


def site_info(f, e):
    """(depth, in_repeat) of the row the error belongs to."""
    tgt = e.row or e.end_of
    if tgt is None:
        return (-1, False)
    for r, anc in f.walk():
        if r is tgt:
            return (len(anc), any(a.kind == "repeat" for a in anc))
    return (-1, False)


def judge_catalogue(ctx, kname, f, e, fmt, o, nblank):
    sub = getattr(e, "sub", None)
    kfull = kname + (":" + sub if sub else "")
    wit = lambda: common.witness(f, kind=kfull, fmt=fmt, outcome=o.brief(), column=e.column)
    if o.ok:
        ctx.viol(f"accepted:{kfull}" + (f":{fmt}" if kname == "duplicate-header" else ""), f"form with a '{kfull}' error was converted instead of refused (container {fmt})", wit())
        return
    if not o.exc_is_pyxform:
        ck = crash_key(o, f, f.to_sheets())
        if "@" not in ck:  # a mechanism known by a structural predicate: one key whichever workload meets it
            ctx.viol(ck, f"'{kfull}' raised internal {o.exc_type}: {o.exc_msg[:200]} (at {o.exc_frame})", wit())
            return
        ctx.viol(f"crash:{o.exc_type}@{o.exc_frame}:{kfull}", f"'{kfull}' raised internal {o.exc_type}: {o.exc_msg[:200]} (at {o.exc_frame})", wit())
        return
    msg = o.exc_msg or ""
    if fmt in ("md", "csv") and msg.startswith("Error reading"):
        pass
    if not re.search(e.pattern, msg, re.S):
        if any(re.search(p, msg, re.S) for p in e.alt_patterns):
            ctx.ctr("alt_message_accepted")
            return
        ctx.viol(f"wrong-message:{kfull}", f"'{kfull}' was refused but the message does not identify the problem: {msg[:300]!r} (expected /{e.pattern}/)", wit())
        return
    ctx.ctr("message_matched")
    if e.locator == "row":
        want = None
        if e.row is not None:
            want = e.row.rownum
        elif e.end_of is not None:
            want = e.end_of.end_rownum
        elif e.choice is not None:
            want = choice_rownum(f, e.choice)
        ctx.ctr("row_locator_judged")
        m = re.findall(r"\[row : (\d+)\]", msg)
        if not m:
            # a message that names the offending element/choice is the weaker locator; the statement asks for the row
            ctx.viol(f"no-row:{kfull}", f"'{kfull}' belongs to sheet row {want} but the message cites no row: {msg[:200]!r}", wit())
        elif str(want) not in m:
            ctx.viol(f"wrong-row:{kfull}", f"'{kfull}' belongs to sheet row {want} but the message cites row {m}: {msg[:200]!r} ({nblank} blank rows injected, container {fmt})", wit())
        else:
            ctx.ctr("row_locator_correct")
        if e.names and not all(n in msg for n in e.names):
            ctx.viol(f"no-name:{kfull}", f"'{kfull}': message does not name {e.names}: {msg[:200]!r}", wit())
    elif e.locator == "name":
        ctx.ctr("name_locator_judged")
        nm = e.name
        if nm is not None and nm not in msg:
            ctx.viol(f"no-name:{kfull}", f"'{kfull}': message does not name the offending element '{nm}': {msg[:200]!r}", wit())
    elif e.locator == "sheet":
        ctx.ctr("sheet_locator_judged")
        for n in ([e.name] if e.name else []) + list(e.names or []):
            if n not in msg:
                ctx.viol(f"no-name:{kfull}", f"'{kfull}': message does not name '{n}': {msg[:200]!r}", wit())


def base_form(rng, tier):
    cfg = common.rich_cfg(rng, p_trigger=rng.choice([0, 0.15]), n_rows=rng.choice([(3, 8), (8, 20), (15, 40)]), max_depth=rng.choice([2, 3, 4, 5]),
                          p_repeat=rng.choice([0.1, 0.2, 0.3]), p_group=rng.choice([0.1, 0.2]), name_style=rng.choice(["plain", "plain", "mixed"]),
                          p_select=0.3, p_bind_extra=0, p_instance_extra=0, delim="::")
    return gen.gen_form(rng, cfg)


def run_catalogue_case(ctx, i, rng, kname=None):
    f = base_form(rng, ctx.tier)
    names = sorted(KINDS)
    if kname is None:
        weights = [KINDS[k][1] for k in names]
        kname = rng.choices(names, weights)[0]
    fn = KINDS[kname][0]
    e = None
    for _ in range(4):
        g = f.clone()
        e = fn(g, rng)
        if e is not None:
            f = g
            break
    if e is None:
        ctx.ctr("inapplicable")
        return
    fmts = e.formats or FORMATS
    fmt = pick(rng, fmts)
    if f.meta.get("force_dict"):
        fmt = "dict"
    nblank = 0
    if fmt in ("dict", "xlsx", "xls") and rng.random() < 0.6:
        nblank = inject_blank_rows(f, rng)
    sheets = f.to_sheets()  # assigns row numbers
    if e.patch:
        sheets = e.patch(sheets, fmt)
    if fmt == "md" and not all(render.md_ok_cell(str(c)) for _, (h, rows) in sheets.items() for r in rows for c in r if c is not None):
        fmt = "dict" if not e.formats else "xlsx"
    try:
        o = drive.convert_sheets(sheets, fmt=fmt, args=f.args)
    except Exception as ex:  # renderer problem, not pyxform's
        ctx.ctr("render_error")
        ctx.obs(kind="render_error", err=repr(ex)[:200], k=kname)
        return
    depth, inrep = site_info(f, e)
    sub = getattr(e, "sub", None)
    ctx.case(sig=repr((kname, sub, e.column, min(depth, 5), inrep, min(nblank, 3), fmt)))
    ctx.ctr(f"kind:{kname}")
    if depth >= 2:
        ctx.ctr("site_depth_ge_2")
    if inrep:
        ctx.ctr("site_in_repeat")
    if nblank:
        ctx.ctr("with_blank_rows")
    judge_catalogue(ctx, kname, f, e, fmt, o, nblank)
    if i % 97 == 0:
        ctx.sample({"kind": kname, "container": fmt, "blank_rows": nblank, "outcome": o.brief(), "form_md": sheets_to_md(sheets)[:1500]})


# =============================================================================== (B) crash fuzz
TYPE_VOCAB = ["text", "integer", "int", "decimal", "date", "time", "dateTime", "datetime", "geopoint", "geotrace", "geoshape", "barcode", "note", "acknowledge",
              "trigger", "image", "photo", "audio", "video", "file", "calculate", "hidden", "start", "end", "today", "deviceid", "phonenumber", "username", "email",
              "simserial", "subscriberid", "audit", "range", "rank L", "select_one L", "select_multiple L", "select one L", "select all that apply from L",
              "select_one L or_other", "select_multiple L or_other", "select_one_external L", "select_one_from_file f.csv", "select_multiple_from_file f.xml",
              "select_one_from_file f.geojson", "select_one ${Q}", "select_multiple ${Q}", "rank ${Q}", "select_one", "select_multiple", "select_one  ", "rank",
              "xml-external", "csv-external", "osm", "osm L", "osm nolist", "background-audio", "background-geopoint", "start-geopoint", "hidden-data",
              "begin group", "end group", "begin repeat", "end repeat", "begin_group", "end_group", "begin loop over L", "end loop", "begin loop", "begin", "end",
              "add select one prompt using L", "select1 L", "string", "q string", "add note prompt", "photo L", "text text", "", " ", "None", "0", "select_one L L2",
              "select_one_external", "select_one_from_file", "select_one_from_file f.csv or_other", "select_one ${Q} or_other", "rank L or_other", "instance_id", "form_id",
              "title", "sms_keyword", "name", "id_string", "public_key", "submission_url", "default_language", "style", "version", "SELECT_ONE L", "Text", "Begin Group",
              "begin group x", "end group x", "end repeat group", "begin repeat group", "select_one L randomize", "cascading_select L", "loop"]
PARAM_KEYS = ["rows", "max-pixels", "app", "quality", "allow-mock-accuracy", "capture-accuracy", "warning-accuracy", "start", "end", "step", "randomize", "seed",
              "value", "label", "track-changes", "identify-user", "track-changes-reasons", "location-priority", "location-min-interval", "location-max-age", "bogus", ""]
PARAM_VALS = ["1", "0", "-1", "3.5", "abc", "true", "false", "TRUE", "", "${Q}", "${nosuch}", "a b", "com.x.y", "low", "normal", "voice-only", "external", "on-form-edit",
              "balanced", "1e9", "nan", "inf", "0x10", "١٢", "1_0", " 5 "]
APPEARANCES = ["minimal", "field-list", "table-list", "table-list minimal", "label", "list-nolabel", "search('f')", "search('f', 'matches', 'c', ${Q})", "search(",
               "minimal search('f')", "multiline", "signature", "annotate", "new", "w1", "map", "likert", "columns-pack", "quick", "autocomplete", "printer:templ", "ex:app.x(y=${Q})",
               "masked", "no-calendar", "hidden", "${Q}", "", "  "]
EXPRS = ["${Q}", "${Q} + 1", "${nosuch}", "${Q", "1", "", "today()", "now()", ". > 0", "selected(${Q}, 'a')", "indexed-repeat(${Q}, ${R}, 1)", "instance('L')/root/item[name=${Q}]/label",
         "pulldata('f', 'a', 'b', ${Q})", "${last-saved#Q}", "${last-saved#nosuch}", "position(..)", "../Q", "concat('${', 'x')", "'unclosed", "(((", "a b c", "1 div 0", "${Q}${Q}",
         "once(uuid())", "if(${Q}='', 1, 2)", "count(${R})", "$Q", "{Q}", "${Q }", "\n", "true", "yes", "no", "TRUE()", "-", "--", "jr:itext('x')", "&lt;", "<output value='x'/>", "]]>", "0", "None"]
NAMES = ["Q", "q2", "a", "meta", "data", "instanceID", "audit", "entity", "label", "name", "type", "Q_other", "R_count", "A.b", "a-b", "_x", "é", "ab:cd", "a:b:c", ":a", "a:", "xml", "XMLa",
         "1a", "a b", "", " ", "a\tb", "None", "0", "x" * 300, "__a", "generated_note_name_3", "__version__", "itext", "output", "html", "h:head", "Q", "Q"]
SETTING_KEYS = ["form_title", "form_id", "id_string", "version", "name", "default_language", "public_key", "submission_url", "auto_send", "auto_delete", "instance_name",
                "style", "namespaces", "allow_choice_duplicates", "omit_instanceID", "instance_xmlns", "clean_text_values", "add_none_option", "flat", "sms_keyword", "prefix",
                "delimiter", "attribute::x", "attribute::x::en", "version::en", "form_title::fr", "form_id::x", "style::a", "namespaces::n", "instance_name::en", "instance_id", "client_editable", "bogus_setting", "sms_separator", "sms_allow_media", "sms_date_format", "sms_datetime_format", "sms_response",
                # names of the form's own structural fields: text from a cell must never replace them
                "type", "children", "bind", "control", "instance", "_translations", "attribute", "choices", "title", "label", "parameters",
                "_xpath", "_created", "entity_features", "fields", "self", "setvalues_by_triggering_ref", "parent", "extra_data", "kwargs"]
SETTING_VALS = ["yes", "no", "true", "false", "", "1", "x", "a b", "${Q}", "concat(${Q}, 'x')", "pages", "theme-grid", 'a="http://x.y"', 'a=http://x.y b="u"', "a", "=", "French (fr)", "en", "None", "  ", "1.0"]
COLS = ["label", "hint", "guidance_hint", "relevant", "required", "read_only", "constraint", "constraint_message", "required_message", "calculation", "default", "trigger",
        "appearance", "parameters", "choice_filter", "repeat_count", "image", "audio", "video", "big-image", "media::image", "label::en", "label::fr (fr)", "hint::en",
        "save_to", "intent", "body::x", "bind::y", "bind::jr:z", "instance::w", "no_app_error_string", "autoplay", "body::accuracyThreshold", "bind::type", "bind::relevant",
        "control", "bind", "label::", "::en", "media::big-image::en", "image::en", "disabled", "query", "sms_field", "sms_option", "list_name", "name::en", "type::x", "note",
        "body::", "bind::", "instance::", "label:en", "label:jr", "hint:jr:x", "bind::nodeset", "bind::tag", "body::ref", "body::nodeset", "instance::jr:template", "bind::toParseString", "jr:count", "required message", "bind: required", "bind:jr:constraintMsg", "constraint-msg"]


def subst(s, rng, f):
    qn = [r.name for r, _ in f.walk() if r.kind == "q" and r.name] or ["q"]
    rn = [r.name for r, _ in f.walk() if r.kind == "repeat" and r.name] or qn
    ln = sorted(f.choices) or ["l1"]
    return s.replace("Q", pick(rng, qn)).replace("R", pick(rng, rn)).replace("L2", pick(rng, ln)).replace("L", pick(rng, ln))


def fuzz_mutate(f, rng, tags):
    m = rng.randrange(22)
    rows = list(f.walk())
    r, anc = pick(rng, rows) if rows else (None, None)
    if m == 0 and r is not None:
        t = subst(pick(rng, TYPE_VOCAB), rng, f)
        if r.is_section():
            # changing a begin row's type to a question type leaves a dangling end: covered by the catalogue, still must not crash
            r.meta["end_type"] = r.meta.get("end_type") or ("end group" if r.kind == "group" else "end repeat")
            raw = Row("raw", t, r.name, r.cells)
            lst = parent_list(f, r)
            i = lst.index(r)
            lst[i:i + 1] = [raw] + r.children + [Row("raw", r.meta["end_type"])]
        else:
            r.type = t
        tags.append("type")
    elif m == 1 and r is not None:
        r.name = pick(rng, NAMES)
        tags.append("name")
    elif m == 2 and r is not None:
        k = rng.randint(1, 3)
        sep = pick(rng, [" ", ";", ",", "  ", " ; "])
        r.cells["parameters"] = sep.join(f"{pick(rng, PARAM_KEYS)}{pick(rng, ['=', '=', ' = ', '', '=='])}{subst(pick(rng, PARAM_VALS), rng, f)}" for _ in range(k))
        tags.append("parameters")
    elif m == 3 and r is not None:
        r.cells["appearance"] = subst(pick(rng, APPEARANCES), rng, f)
        tags.append("appearance")
    elif m == 4 and r is not None:
        col = pick(rng, ["relevant", "constraint", "calculation", "required", "read_only", "default", "trigger", "choice_filter", "repeat_count", "label", "hint",
                         "constraint_message", "required_message", "save_to", "intent", "instance::w", "bind::y", "body::x", "no_app_error_string", "guidance_hint", "image"])
        r.cells[col] = subst(pick(rng, EXPRS), rng, f)
        tags.append("cell:" + col.split(":")[0])
    elif m == 5 and r is not None:
        hs = list(r.cells)
        if hs:
            del r.cells[pick(rng, hs)]
        tags.append("drop-cell")
    elif m == 6:
        # empty group / repeat (also nested, also with only a comment row)
        kind_ = pick(rng, ["group", "repeat"])
        s = Row(kind_, f"begin {kind_}", fresh(f, "emp"), {"label": "E"} if rng.random() < 0.7 else {}, [])
        if rng.random() < 0.3:
            s.children.append(Row("raw", None))
        if rng.random() < 0.2:
            s.children.append(Row(pick(rng, ["group", "repeat"]), None, fresh(f, "emp2"), {"label": "E2"}, []))
            s.children[-1].type = f"begin {s.children[-1].kind}"
        if rng.random() < 0.3:
            s.cells["appearance"] = pick(rng, ["field-list", "table-list"])
        if rng.random() < 0.3:
            s.cells["repeat_count"] = subst(pick(rng, EXPRS), rng, f)
        add_row_somewhere(f, rng, s)
        tags.append("empty-section")
    elif m == 7:
        which = pick(rng, ["choices", "settings", "external", "all-choices-of-a-list", "choice-cell", "choice-list-rename"])
        if which == "choices":
            f.choices = {}
            f.choice_headers = []
        elif which == "settings":
            f.settings = {}
        elif which == "external":
            f.external_choices = [] if f.external_choices else [{"list_name": pick(rng, sorted(f.choices) or ["xl"]), "name": "a", "label": "A"}]
        elif which == "all-choices-of-a-list" and f.choices:
            del f.choices[pick(rng, sorted(f.choices))]
        elif which == "choice-cell" and f.choices:
            ch = pick(rng, f.choices[pick(rng, sorted(f.choices))])
            k = pick(rng, list(ch) + ["label", "name", "image", "label::en", "extra col", "2nd", "audio::fr"])
            if rng.random() < 0.4:
                ch.pop(k, None)
            else:
                ch[k] = subst(pick(rng, EXPRS + NAMES), rng, f)
        elif which == "choice-list-rename" and f.choices:
            ln = pick(rng, sorted(f.choices))
            f.choices[pick(rng, ["", " ", "a b", ln.upper(), "${Q}", "f.csv"])] = f.choices.pop(ln)
        tags.append("sheet:" + which)
    elif m == 8:
        f.settings[pick(rng, SETTING_KEYS)] = subst(pick(rng, SETTING_VALS), rng, f)
        tags.append("setting")
    elif m == 9 and r is not None:
        r.cells[pick(rng, COLS)] = subst(pick(rng, EXPRS + ["x", "yes"]), rng, f)
        tags.append("column")
    elif m == 10:
        f.survey.insert(rng.randint(0, len(f.survey)), Row("raw", subst(pick(rng, TYPE_VOCAB), rng, f), pick(rng, NAMES + [None]), {"label": "L"} if rng.random() < 0.7 else {}))
        tags.append("raw-row")
    elif m == 11:
        if f.entities is None:
            f.entities = {pick(rng, ["list_name", "dataset"]): pick(rng, ["ents", "a.b", "__x", "", "e e"]), "label": subst(pick(rng, EXPRS), rng, f)}
            if rng.random() < 0.5:
                f.entities[pick(rng, ["entity_id", "create_if", "update_if", "bogus"])] = subst(pick(rng, EXPRS), rng, f)
        else:
            f.entities[pick(rng, ["entity_id", "create_if", "update_if", "label", "list_name", "bogus"])] = subst(pick(rng, EXPRS), rng, f)
        if r is not None and rng.random() < 0.6:
            r.cells["save_to"] = pick(rng, ["p1", "name", "label", "__x", "a b", "", "P1", "p-1"])
        tags.append("entities")
    elif m == 12 and r is not None and r.is_section():
        r.children = []
        tags.append("emptied-section")
    elif m == 13 and r is not None:
        # osm / external instance rows
        t = pick(rng, ["osm", "osm L", "osm nolist", "xml-external", "csv-external"])
        add_row_somewhere(f, rng, Row("q", subst(t, rng, f), pick(rng, NAMES[:12] + [fresh(f, "ox")]), {"label": "O"}))
        if rng.random() < 0.5:
            f.extra_sheets["osm"] = (["list_name", "name", "label"], [[pick(rng, ["tags", "nolist", subst("L", rng, f)]), "building", "Building"], ["building", "yes", "Yes"]])
        tags.append("osm-external")
    elif m == 14:
        # select from repeat
        qs = [x for x, a in rows if x.kind == "q" and any(p.kind == "repeat" for p in a)] or [x for x, a in rows if x.kind == "q"]
        if qs:
            t = pick(rng, ["select_one ${%s}", "select_multiple ${%s}", "rank ${%s}", "select_one ${%s} or_other"]) % pick(rng, qs).name
            cells = {"label": "SR"}
            if rng.random() < 0.4:
                cells["choice_filter"] = subst(pick(rng, EXPRS), rng, f)
            if rng.random() < 0.3:
                cells["parameters"] = pick(rng, ["randomize=true", "randomize=true seed=3", "value=a", "seed=${Q}".replace("Q", qs[0].name)])
            add_row_somewhere(f, rng, Row("q", t, fresh(f, "sfr"), cells))
        tags.append("select-from-repeat")
    elif m == 15:
        # translated or_other with unlabeled choices; search() on or_other
        if f.choices:
            ln = pick(rng, sorted(f.choices))
            for ch in f.choices[ln]:
                if rng.random() < 0.5:
                    for h in [h for h in ch if h.startswith("label")]:
                        del ch[h]
                if rng.random() < 0.5:
                    ch[pick(rng, ["label::en", "label::fr", "image::en", "audio"])] = "T"
            cells = {"label": "OO"}
            if rng.random() < 0.3:
                cells["appearance"] = "search('x')"
            add_row_somewhere(f, rng, Row("q", f"{pick(rng, ['select_one', 'select_multiple'])} {ln} or_other", fresh(f, "oo"), cells))
        tags.append("or-other-translations")
    elif m == 16:
        f.args[pick(rng, ["form_name", "default_language"])] = pick(rng, ["", "data", "1x", "a b", "French (fr)", "default", "é"])
        tags.append("args")
    elif m == 17 and r is not None:
        # swap two rows anywhere (may unbalance sections)
        lst = parent_list(f, r)
        if len(lst) >= 2:
            i, j = rng.sample(range(len(lst)), 2)
            lst[i], lst[j] = lst[j], lst[i]
        tags.append("swap")
    elif m == 18:
        f.survey_headers = rng.sample(COLS, rng.randint(1, 4))
        tags.append("empty-columns")
    elif m == 19 and r is not None:
        for h in list(r.cells):
            if rng.random() < 0.5:
                r.cells[h] = pick(rng, ["", " ", " ", "-", "0", "None", "null", "NaN"])
        tags.append("blank-values")
    elif m == 20:
        f.extra_sheets[pick(rng, ["Settings ", "setings", "choice", "entitie", "_notes", "cascades", "external_choices ", "osm", "Survey"])] = (["a", "b"], [["1", "2"]])
        tags.append("extra-sheet")
    else:
        if r is not None:
            r.cells["label"] = subst(pick(rng, EXPRS), rng, f)
            r.cells["calculation"] = subst(pick(rng, EXPRS), rng, f)
        tags.append("label+calc")


GROUP_PREFIXES = ("bind", "control", "body", "instance", "media", "choice_filter")


def crash_key(o, f, sheets):
    """Mechanism key of an escaped internal exception: type @ innermost pyxform frame : message with form-specific names removed,
    refined by a structural predicate of the workbook where one is known to be the cause."""
    msg = o.exc_msg or ""
    names = sorted({r.name for r, _ in f.walk() if r.name} | set(f.choices), key=len, reverse=True)
    for n in names:
        msg = re.sub(r"(?<![A-Za-z0-9_.-])" + re.escape(n) + r"(?![A-Za-z0-9_.-])", "NAME", msg)
    msg = re.sub(r"\d+", "N", msg)[:60]
    hdrs = [str(h) for h in sheets.get("survey", ([], []))[0]]
    mech = ""
    if any(h.strip().lower() in ("bind", "control", "instance") for h in hdrs) and o.exc_type in ("AttributeError", "ValueError", "TypeError") and \
            ("'str' object" in (o.exc_msg or "") or "dictionary update sequence" in (o.exc_msg or "")):
        mech = ":plain-column-named-bind-or-control"
    elif any(re.match(r"^(type|name)\s*::?\s*\S", h.strip().lower()) for h in hdrs) and o.exc_type in ("TypeError", "AttributeError"):
        mech = ":type-or-name-header-with-language-suffix"
    elif o.exc_type == "KeyError" and (o.exc_frame or "").endswith("add_choices_info_to_question") and any(
            isinstance(r.type, str) and re.match(r"^\s*select[_ ]one[_ ]external\s", r.type.lower()) and not r.cells.get("choice_filter") for r, _ in f.walk()):
        mech = ":external-select-without-filter-list-not-in-choices"
    if mech:
        return "crash" + mech  # one mechanism, several call sites
    return f"crash:{o.exc_type}@{o.exc_frame}:{msg}"


def run_fuzz_case(ctx, i, rng):
    if i % 40 == 7:
        return run_text_fuzz_case(ctx, i, rng)
    if i % 40 == 23:
        return run_binary_fuzz_case(ctx, i, rng)
    f = base_form(rng, ctx.tier)
    tags = []
    for _ in range(rng.choice([1, 1, 2, 2, 3, 4, 6])):
        try:
            fuzz_mutate(f, rng, tags)
        except (ValueError, KeyError, IndexError, AttributeError, TypeError):
            ctx.ctr("fuzz_mutator_skipped")
    fmt = pick(rng, ["dict", "dict", "dict", "xlsx", "md", "csv", "xls"])
    try:
        sheets = f.to_sheets()
        if fmt == "md" and not all(render.md_ok_cell(str(c)) for _, (h, rows) in sheets.items() for r in rows for c in list(r) + list(h) if c is not None):
            fmt = "dict"
        kw = {}
        if fmt == "dict" and rng.random() < 0.3:
            kw = {"render_kw": {"with_headers": False}}
        o = drive.convert_sheets(sheets, fmt=fmt, args=f.args, **kw)
    except Exception as ex:
        ctx.ctr("render_error")
        ctx.obs(kind="render_error", err=repr(ex)[:200], tags=tags)
        return
    cls = "ok" if o.ok else ("pyxform-error" if o.exc_is_pyxform else "internal")
    ctx.case(sig=repr((tuple(sorted(set(tags))), cls)))
    ctx.ctr(f"fuzz_outcome:{cls}")
    ctx.ctr("fuzz_cases")
    if cls == "internal":
        ctx.viol(crash_key(o, f, sheets), f"internal {o.exc_type} escaped convert(): {o.exc_msg[:200]!r} at {o.exc_frame}; fuzz steps {tags}",
                 common.witness(f, fmt=fmt, tags=tags, outcome=o.brief()))
    if i % 211 == 0:
        ctx.sample({"fuzz_steps": tags, "container": fmt, "outcome": o.brief(), "form_md": sheets_to_md(sheets)[:1200]})


def run_text_fuzz_case(ctx, i, rng):
    """Container-level fuzz: markdown / CSV text with structural damage (empty sheets, stray pipes, missing header rows, ragged rows)."""
    f = base_form(rng, ctx.tier)
    fmt = pick(rng, ["md", "csv"])
    try:
        text = render.render(f.to_sheets(), fmt)
    except Exception:
        return
    lines = text.split("\n")
    tags = []
    for _ in range(rng.randint(1, 3)):
        m = rng.randrange(7)
        k = rng.randrange(len(lines)) if lines else 0
        if m == 0:
            lines.insert(k, "| choices |" if fmt == "md" else "choices")
            tags.append("bare-sheet-name-line")
        elif m == 1 and lines:
            del lines[k]
            tags.append("line-deleted")
        elif m == 2:
            lines.insert(k, pick(rng, ["|||||||", "| | | |", "||", "| |", ",,,,", "\"", "| a | b", "a|b|c|d|e|f"]))
            tags.append("junk-line")
        elif m == 3 and lines:
            lines[k] = lines[k][: rng.randrange(len(lines[k]) + 1)]
            tags.append("line-truncated")
        elif m == 4 and lines:
            lines.insert(k, lines[k])
            tags.append("line-duplicated")
        elif m == 5:
            lines = [ln for ln in lines if ln.strip()][: rng.randint(1, 6)]
            tags.append("head-only")
        else:
            lines.insert(0, pick(rng, ["| survey |", "survey", "| settings |", "| |", ""]))
            tags.append("leading-line")
    text = "\n".join(lines)
    o = drive.call_convert(text, **({"file_type": "." + fmt} if rng.random() < 0.6 else {}))
    cls = "ok" if o.ok else ("pyxform-error" if o.exc_is_pyxform else "internal")
    ctx.case(sig=repr((fmt, tuple(sorted(set(tags))), cls)))
    ctx.ctr(f"fuzz_outcome:{cls}")
    ctx.ctr("fuzz_cases")
    ctx.ctr("text_fuzz_cases")
    if cls == "internal":
        ctx.viol(f"crash:{o.exc_type}@{o.exc_frame}:text-container:{fmt}", f"internal {o.exc_type} escaped convert() on damaged {fmt} text: {o.exc_msg[:200]!r} at {o.exc_frame}; steps {tags}",
                 {"text": text[:4000], "fmt": fmt, "tags": tags, "klass": "text"})


def run_binary_fuzz_case(ctx, i, rng):
    """Container-level fuzz: workbook bytes with damage (truncated, a flipped run of bytes, junk before or after, text bytes that are not UTF-8): a service is handed
    whatever was uploaded; the answer is a conversion or the library's error, never a zip/OLE/codec exception."""
    import base64
    f = base_form(rng, "quick")
    fmt = pick(rng, ["xlsx", "xls", "md", "csv"])
    try:
        data = render.render(f.to_sheets(), fmt)
    except Exception:
        return
    raw = bytearray(data.encode("utf-8") if isinstance(data, str) else data)
    tags = []
    for _ in range(rng.randint(1, 2)):
        m = rng.randrange(6)
        if m == 0 and len(raw) > 8:
            raw = raw[: rng.choice([4, 8, 30, len(raw) // 2, len(raw) - 1, rng.randrange(len(raw))])]
            tags.append("truncated")
        elif m == 1 and raw:
            k = rng.randrange(len(raw))
            n = rng.choice([1, 4, 64])
            raw[k:k + n] = bytes(rng.randrange(256) for _ in range(n))
            tags.append("bytes-overwritten")
        elif m == 2:
            raw = bytearray(pick(rng, [b"\xff\xfe", b"\x00\x00", b"\xef\xbb", b"garbage\n", b"\xd0\xcf\x11\xe0", b"PK\x03\x04"])) + raw
            tags.append("junk-prefix")
        elif m == 3:
            raw = raw + bytes(rng.randrange(256) for _ in range(rng.choice([1, 20, 500])))
            tags.append("junk-suffix")
        elif m == 4:
            raw = bytearray(pick(rng, [b"\xd0\xcf\x11\xe0\xa1\xb1\x1a\xe1" + bytes(100), b"PK\x03\x04truncated", b"\xff\xfe\x00x", b"\x09\x08\x10\x00\x00\x06\x05\x00", b"", b"\x00" * 64,
                                       "| survey |\n| | type | name | label |\n| | text | a | caf\xe9 |\n".encode("latin-1")]))
            tags.append("not-a-workbook")
        else:
            raw = bytearray(bytes(raw).decode("utf-8", "replace").encode("utf-16")) if fmt in ("md", "csv") else raw[::-1]
            tags.append("other-encoding")
    raw = bytes(raw)
    kw = {"file_type": "." + fmt} if rng.random() < 0.5 else {}
    o = drive.call_convert(raw, **kw)
    cls = "ok" if o.ok else ("pyxform-error" if o.exc_is_pyxform else "internal")
    ctx.case(sig=repr(("bin", fmt, tuple(sorted(set(tags))), bool(kw), cls)))
    ctx.ctr(f"fuzz_outcome:{cls}")
    ctx.ctr("fuzz_cases")
    ctx.ctr("binary_fuzz_cases")
    if cls == "internal":
        ctx.viol(f"crash:{o.exc_type}:damaged-container-bytes:{'typed' if kw else 'sniffed'}", f"internal {o.exc_type} escaped convert() on damaged {fmt} bytes ({tags}, file_type {'given' if kw else 'not given'}): {o.exc_msg[:160]!r} at {o.exc_frame}",
                 {"bytes_b64": base64.b64encode(raw[:6000]).decode(), "fmt": fmt, "tags": tags, "kw": kw, "klass": "binary"})


# =============================================================================== plan / shard / replay
def plan(tier, seed):
    na, nb = (3200, 4800) if tier == "quick" else (60000, 120000)
    return {"shards": 16, "timeout": 900 if tier == "quick" else 7200, "na": na, "nb": nb,
            "floors": {"evaluations": int((na + nb) * 0.9), "message_matched": int(na * 0.5), "row_locator_judged": int(na * 0.25), "fuzz_cases": int(nb * 0.95),
                       "fuzz_outcome:pyxform-error": int(nb * 0.2), "fuzz_outcome:ok": int(nb * 0.05), "site_in_repeat": int(na * 0.03), "with_blank_rows": int(na * 0.1),
                       "distinct": 300}}


def controls(ctx):
    """The other side of 'refused with the library's error': forms that use rarely combined but documented features are NOT errors. A refusal here, or an
    internal exception, is judged like one on a broken form (the catalogue would otherwise reward a converter that fails on everything unusual)."""
    base_q = [("text", "q1", {"label": "Q1"}), ("integer", "q2", {"label": "Q2"})]
    cases = []
    for v in ("yes", "true", "Yes", "TRUE"):
        cases.append((f"omit-instance-id-alone:{v}", gen.simple_form(base_q, settings={"omit_instanceID": v})))
    cases.append(("omit-instance-id+audit", gen.simple_form(base_q + [("audit", "audit", {})], settings={"omit_instanceID": "yes"})))
    cases.append(("omit-instance-id+instance-name", gen.simple_form(base_q, settings={"omit_instanceID": "yes", "instance_name": "concat('a', ${q1})"})))
    e1 = gen.simple_form([("text", "q1", {"label": "Q1", "save_to": "p1"})], settings={"omit_instanceID": "yes"})
    e1.entities = {"list_name": "things", "label": "'x'"}
    cases.append(("omit-instance-id+entities", e1))
    cases.append(("only-hidden-rows", gen.simple_form([("calculate", "c1", {"calculation": "1"}), ("hidden", "h1", {}), ("start", "s1", {})])))
    cases.append(("group-of-calculates", gen.simple_form([("begin group", "g", {"label": "G"}, [("calculate", "c1", {"calculation": "1"})]), ("text", "q", {"label": "Q"})])))
    cases.append(("settings-header-only", gen.simple_form(base_q, settings={"form_title": None})))
    cases.append(("instance-id-setting", gen.simple_form(base_q, settings={"instance_id": "timestamp"})))
    cases.append(("single-note", gen.simple_form([("note", "n", {"label": "N"})])))
    # sections that end up with nothing inside: converted or refused, but never an internal exception ('?' = a refusal is acceptable)
    lp = gen.simple_form([("begin loop over l9", "lp", {"label": "L"}, [("text", "q", {"label": "Q %(label)s"})])], choices={"l9": [{"name": "none", "label": "None"}]})
    lp.survey[0].meta["end_type"] = "end loop"
    cases.append(("?loop-over-a-list-whose-only-choice-is-none", lp))
    cases.append(("?survey-with-no-element", gen.simple_form([("form_title", "T", {})], settings={"omit_instanceID": "yes"})))
    cases.append(("?empty-group", gen.simple_form([("begin group", "g", {"label": "G"}, []), ("text", "q", {"label": "Q"})])))
    cases.append(("?empty-repeat", gen.simple_form([("begin repeat", "r", {"label": "R"}, []), ("text", "q", {"label": "Q"})])))
    cases.append(("?group-of-disabled-rows", gen.simple_form([("begin group", "g", {"label": "G"}, [("text", "d", {"label": "D", "disabled": "yes"})]), ("text", "q", {"label": "Q"})])))
    for k, (name, f) in enumerate(cases):
        if not ctx.mine(k):
            continue
        for fmt in ("dict", "xlsx", "md"):
            o = drive.convert_form(f, fmt=fmt)
            ctx.ctr("control_forms")
            ctx.case(sig=f"control|{name}|{fmt}|{'ok' if o.ok else o.exc_type}")
            if name.startswith("?") and (o.ok or o.exc_is_pyxform):
                continue
            if not o.ok:
                kind = "refused" if o.exc_is_pyxform else f"crash:{o.exc_type}"
                ctx.viol(f"control-form:{kind}:{name.split(':')[0]}", f"a valid form ({name}, {fmt}) is not converted: {o.brief()[:250]} at {o.exc_frame}", common.witness(f, kind="control:" + name, fmt=fmt))


def run_shard(ctx):
    pl = plan(ctx.tier, ctx.seed)
    names = sorted(KINDS)
    controls(ctx)
    for i in range(pl["na"]):
        if not ctx.mine(i):
            continue
        rng = ctx.rng("A", i)
        # first pass over every kind deterministically, then weighted random
        run_catalogue_case(ctx, i, rng, kname=names[i % len(names)] if i < 6 * len(names) else None)
    for i in range(pl["nb"]):
        if not ctx.mine(i):
            continue
        run_fuzz_case(ctx, i, ctx.rng("B", i))


def aggregate(agg, plan_, tier, seed):
    agg["extra_coverage"] = {"catalogue_kinds": sorted(KINDS), "parameter_subkinds": sorted({c[0] for c in PARAM_CASES}),
                             "kinds_exercised": sorted(k[5:] for k in agg["counters"] if k.startswith("kind:"))}
    missing = [k for k in KINDS if agg["counters"].get("kind:" + k, 0) == 0]
    if missing:
        agg["incomplete"].append((-1, "kinds never exercised", ", ".join(missing)))


def replay(w):
    def chk(ctx, wit):
        if wit.get("klass") == "text":
            o = drive.call_convert(wit["text"], file_type="." + wit["fmt"])
            print("  outcome now:", o.brief()[:300])
            if not o.ok and not o.exc_is_pyxform:
                ctx.viol(f"crash:{o.exc_type}@{o.exc_frame}", o.brief())
            return
        if wit.get("klass") == "binary":
            import base64
            o = drive.call_convert(base64.b64decode(wit["bytes_b64"]), **wit.get("kw", {}))
            print("  outcome now:", o.brief()[:300])
            if not o.ok and not o.exc_is_pyxform:
                ctx.viol(f"crash:{o.exc_type}:damaged-container-bytes", o.brief())
            return
        f = common.form_from_witness(wit)
        fmt = wit.get("fmt", "dict")
        o = drive.convert_form(f, fmt=fmt if fmt in ("dict", "xlsx", "xls", "md", "csv") else "dict")
        print("  outcome now:", o.brief()[:400])
        key = w.get("key", "")
        if key.startswith("crash:") and not o.ok and not o.exc_is_pyxform:
            ctx.viol(f"crash:{o.exc_type}@{o.exc_frame}", o.brief())
        elif key.startswith("accepted:") and o.ok:
            ctx.viol(key, "still accepted")
        elif key.startswith(("no-row:", "wrong-row:")) and not o.ok and not re.search(r"\[row : \d+\]", o.exc_msg or ""):
            ctx.viol(key, "still no row: " + (o.exc_msg or "")[:200])
        elif key.startswith(("wrong-message:", "no-name:")) and not o.ok:
            print("  (message kinds are re-judged by the check itself; compare the outcome above with the recorded one)")
    return common.replay_with(PROP, w, chk)
