"""C16 — the JSON intermediate form is a faithful, reloadable representation.

Round-trip relations checked on real executions (no reference model):
 R1  xform(build(json.loads(json.dumps(workbook_to_json(W))))) == convert(W).xform
 R2  d = survey.to_json_dict(); json.dumps(d) succeeds; build(loads(dumps(d))).to_json_dict() == d
 R3  build(loads(dumps(d))).to_xml() == survey.to_xml()
Workload: W-core with group/repeat logic, extra choice columns, parameters, translations,
media, settings, entities, triggers, defaults, or_other, choice filters, custom bind::/
instance::/body:: columns.
"""
from __future__ import annotations

import json
import re
import os

from .. import common, drive, gen, render, xdiff
from ..model import Row

PROP = "C16"
LEVEL = "exploration"
TECHNIQUE = "runtime relation monitor: JSON dump/load round trips of the real intermediate dict and of Survey.to_json_dict compared on regenerated XForm text"
RULE = ("cases = generated forms; each case evaluates R1, R2 (serialisable + dump-load-dump stable) and R3 on the real objects; "
        "non-trivial = direct conversion succeeded; distinct = distinct form feature signatures")
ASSUMPTIONS = ["XForms are compared as exact text (same process, same hash seed)"]


def plan(tier, seed):
    n = 1600 if tier == "quick" else 24000
    return {"shards": 16, "timeout": 900 if tier == "quick" else 3000, "n": n,
            "floors": {"suite_conversions_judged": 500, "R1_evaluated": n // 2, "R3_evaluated": n // 2, "distinct": 50}}


def make_form(rng, i):
    cfg = common.rich_cfg(rng, p_group_logic=0.6, p_choice_extra=0.6, p_parameters=0.6, p_trigger=0.25, p_default=0.4,
                          p_bind_extra=0.15, p_instance_extra=0.15, p_body_extra=0.15, p_media=0.3, p_guidance=0.3,
                          p_choice_media=0.3, p_or_other=rng.choice([0, 0.3]), p_choice_filter=0.3, p_randomize=0.2, audit=0.2,
                          p_search=rng.choice([0, 0.3]), p_choice_label_ref=rng.choice([0, 0.3]))
    f = gen.gen_form(rng, cfg)
    k = rng.randrange(8)
    if k == 5:
        # metadata/preload types whose type table entry carries default texts; the sheet's own hint/label must survive the dump
        for t in rng.sample(["phonenumber", "deviceid", "username", "email", "start", "end", "today", "simserial", "subscriberid"], 3):
            f.survey.append(Row("q", t, f"md_{t}", rng.choice([{}, {"hint": f"own hint for {t}"}, {"label": f"own label {t}", "hint": f"h {t}"}])))
        # legacy types whose type-table entry has a built-in hint: the sheet's hint replaces it and must survive the dump
        for t in rng.sample(["phone number", "number of days in last month", "number of days in last six months", "number of days in last year"], 2):
            f.survey.append(Row("q", t, "lg_" + t.replace(" ", "_"), rng.choice([{"label": "L"}, {"label": "L", "hint": f"own hint for {t}"}])))
    elif k == 6:
        f.survey.append(Row("q", rng.choice(["osm", "osm building_tags"]), "osm_q", {"label": "OSM"}))
        f.extra_sheets["osm"] = (["list_name", "name", "label"], [["building_tags", "building", "Building"], ["building", "yes", "Yes"], ["building_tags", "amenity", "Amenity"]])
    elif k == 7:
        ln = next(iter(f.choices))
        f.settings["add_none_option"] = rng.choice(["yes", "true"])
        f.survey.append(Row("q", f"select_multiple {ln}", "sm_none_a", {"label": "A"}))
        f.survey.append(Row("q", f"select_multiple {ln}", "sm_none_b", {"label": "B"}))
        if rng.random() < 0.5 and all(re.match(r"^[A-Za-z_][A-Za-z0-9_.-]*$", c["name"]) for c in f.choices[ln]):
            # a loop over the very list those selects read (in the workbook's JSON form the loop's columns and the selects' choices are one object)
            lp = Row("group", f"begin loop over {ln}", "lp_none", {"label": "per"}, [Row("q", "integer", "lp_cnt", {"label": "n %(name)s"})])
            lp.meta["end_type"] = "end loop"
            f.survey.append(lp)
    if rng.random() < 0.15:
        # names that coincide with pyxform's own field names, used as data: a custom instance attribute, a language
        for r in [r for r, _ in f.walk() if r.kind == "q"][:2]:
            r.cells[rng.choice(["instance::parent", "instance::bind", "instance::control", "bind::parent", "body::extra_data"])] = "v_" + r.name
        vis = [r for r, _ in f.walk() if r.kind == "q" and "label" in r.cells]
        if vis and not f.meta.get("langs"):
            for r in vis[:3]:
                r.cells["label::control"] = "ctl " + r.cells["label"]
                r.cells["label::treatment"] = "trt " + r.cells["label"]
    if k == 0:
        f.entities = {"list_name": "ent", "label": "concat('e', '1')"}
        for r in [r for r in f.survey if r.kind == "q" and (r.type or "").split(" ")[0] in ("text", "integer")][:2]:
            r.cells["save_to"] = "p" + str(abs(hash(r.name)) % 89)
    elif k == 1:
        f.settings.update({"submission_url": "https://x.example/s", "public_key": "ABC", "auto_send": "true", "style": "pages",
                           "instance_name": "concat('x', 'y')", "namespaces": 'kb="http://kobotoolbox.org/xforms"', "attribute::kb:v": "1"})
    elif k == 2:
        f.survey.append(Row("q", "start-geopoint", "sgp", {}))
        f.survey.append(Row("q", "background-audio", "bau", {"parameters": "quality=low"}))
        f.survey.append(Row("q", "xml-external", "extx", {}))
        f.survey.append(Row("q", "csv-external", "extc", {}))
    elif k == 3:
        f.survey.append(Row("q", "select_one_from_file cities.csv", "sff", {"label": "city", "parameters": "value=code label=nm"}))
        f.survey.append(Row("q", "select_multiple_from_file zones.geojson", "sfg", {"label": "zone"}))
    return f


def _first_text_diff(a, b):
    k = next((i for i, (x, y) in enumerate(zip(a, b)) if x != y), min(len(a), len(b)))
    return f"...{a[max(0, k - 60):k + 60]!r} vs ...{b[max(0, k - 60):k + 60]!r}"


def check(ctx, form, sig, emit_sample=False):
    from pyxform.builder import create_survey_element_from_dict
    from pyxform.xls2json import workbook_to_json
    from pyxform.xls2json_backends import get_xlsform

    direct = drive.convert_form(form)
    if not direct.ok:
        ctx.ctr("rejected")
        return
    ctx.case(sig=sig)
    wit = lambda **kw: common.witness(form, **kw)  # noqa: E731
    # ---- R1
    try:
        wb = get_xlsform(render.to_dict(form.to_sheets()))
        js = workbook_to_json(wb, form_name=form.args.get("form_name"), fallback_form_name=wb.fallback_form_name,
                              default_language=form.args.get("default_language"), warnings=[])
        try:
            text = json.dumps(js)
        except (TypeError, ValueError) as e:
            ctx.viol("R1:intermediate-not-json-serialisable", f"json.dumps(workbook_to_json(W)) raised {type(e).__name__}: {e}", wit(rel="R1"))
            text = None
        if text is not None:
            s1 = create_survey_element_from_dict(json.loads(text))
            x1 = s1.to_xml(validate=False, pretty_print=False)
            ctx.ctr("R1_evaluated")
            if x1 != direct.xform:
                d = xdiff.diffs(direct.xform, x1)
                ctx.viol("R1:xform-differs:" + _cls(d), f"workbook->JSON text->survey gives a different XForm: {d[:2]}", wit(rel="R1"))
    except Exception as e:  # noqa: BLE001
        ctx.viol(f"R1:raised:{type(e).__name__}", f"R1 path raised {type(e).__name__}: {e}", wit(rel="R1"))
    # ---- R2 / R3 on a fresh survey (never serialised to XML) and on the survey convert() used
    fresh = None
    try:
        wb = get_xlsform(render.to_dict(form.to_sheets()))
        js = workbook_to_json(wb, form_name=form.args.get("form_name"), fallback_form_name=wb.fallback_form_name,
                              default_language=form.args.get("default_language"), warnings=[])
        fresh = create_survey_element_from_dict(js)
    except Exception:  # noqa: BLE001
        pass
    for label, survey in (("fresh", fresh), ("after-to_xml", direct.result._survey)):
        if survey is None:
            continue
        has_search = any("search(" in (r.cells.get("appearance") or "") for r, _ in form.walk())
        try:
            d = survey.to_json_dict()
            t = json.dumps(d)
        except Exception as e:  # noqa: BLE001
            ctx.viol(f"R2:dump-raised:{type(e).__name__}:{label}", f"[{label}] survey.to_json_dict()/json.dumps raised {type(e).__name__}: {str(e)[:200]}", wit(rel="R2"))
            continue
        try:
            s2 = create_survey_element_from_dict(json.loads(t))
            d2 = s2.to_json_dict()
            ctx.ctr("R2_evaluated")
            if d2 != d:
                ctx.viol("R2:dump-load-dump-unstable:" + _dict_diff(d, d2), f"[{label}] to_json_dict not stable under dump/load/dump: {_dict_diff(d, d2, True)}", wit(rel="R2"))
            x2 = create_survey_element_from_dict(json.loads(t)).to_xml(validate=False, pretty_print=False)
            x0 = direct.xform
            ctx.ctr("R3_evaluated")
            if x2 != x0:
                dd = xdiff.diffs(x0, x2)
                ctx.viol("R3:xform-differs:" + _cls(dd), f"[{label}] survey->to_json_dict->JSON text->survey gives a different XForm: {dd[:2]}", wit(rel="R3"))
            # ---- R4: the file entry points (json_dump -> create_survey_element_from_json) and the to_json() text
            if label == "fresh":
                import tempfile
                from pyxform.builder import create_survey_element_from_json
                # one path per worker process, written again for every form (a converter service's scratch file): what is loaded is what was just dumped
                from pyxform.builder import create_survey_from_path
                path = os.path.join(tempfile.gettempdir(), f"verif_c16_{os.getpid()}_form.json")
                try:
                    survey.json_dump(path)
                    x4 = create_survey_element_from_json(path).to_xml(validate=False, pretty_print=False)
                    x6 = create_survey_from_path(path).to_xml(validate=False, pretty_print=False)
                    x5 = create_survey_element_from_json(survey.to_json()).to_xml(validate=False, pretty_print=False)
                finally:
                    if os.path.exists(path):
                        os.unlink(path)
                ctx.ctr("R4_evaluated")
                for nm, xx in (("json_dump-file", x4), ("json_dump-file-create_survey_from_path", x6), ("to_json-text", x5)):
                    if xx != x0:
                        dd = xdiff.diffs(x0, xx) or [f"texts differ only in order: {_first_text_diff(x0, xx)}"]
                        ctx.viol(f"R4:xform-differs:{nm}:" + _cls(dd), f"survey -> {nm} -> create_survey_element_from_json gives a different XForm: {dd[:2]}", wit(rel="R4"))
        except Exception as e:  # noqa: BLE001
            key = f"R3:raised:{type(e).__name__}"
            if isinstance(e, KeyError) and "itemset" in str(e) and has_search and label == "after-to_xml":
                key = "R3:reload-raises-KeyError-itemset:search-select-after-to_xml"
            ctx.viol(key, f"[{label}] reloading the survey's own JSON raised {type(e).__name__}: {str(e)[:300]}", wit(rel="R3"))
    if emit_sample:
        ctx.sample({"form_md": common.sheets_to_md(form.to_sheets())[:1500], "observed": "R1, R2, R3 evaluated"})


def _cls(diff_lines):
    """Mechanism class from the first difference: which part of the document and what kind."""
    import re
    if not diff_lines:
        return "unknown"
    d = diff_lines[0]
    m = re.match(r"^((?:/[\w:\-.]+(?:\[[^\]]*\])?)+): (.*)$", d)
    if not m:
        return "other"
    path, rest = m.group(1), m.group(2)
    segs = [x for x in re.sub(r"\[[^\]]*\]", "", path).split("/") if x]
    where = "/".join(segs[2:5]) if len(segs) > 2 else "/".join(segs)
    if where.startswith("model/instance") and "[id=" in path:
        where = "model/secondary-instance"
    elif where.startswith("model/instance"):
        where = "model/primary-instance"
    kind = "children" if "children" in rest else ("attr" if rest.startswith("@") else ("text" if rest.startswith("text") else "other"))
    if kind == "children":
        mm = re.search(r"only-first=\[([^\]]*)\]", rest)
        only = re.sub(r"\[[^\]]*\]?", "", mm.group(1)).replace("'", "") if mm else ""
        kind = "lost:" + ",".join(sorted(set(x.strip() for x in only.split(",") if x.strip())))[:40]
    if kind == "attr":
        kind = "attr:" + rest.split(" ")[0]
    return f"{where}:{kind}"


def _dict_diff(a, b, verbose=False, path=""):
    if type(a) is not type(b):
        return f"{path}:type" if not verbose else f"{path}: {type(a).__name__} vs {type(b).__name__}"
    if isinstance(a, dict):
        for k in sorted(set(a) | set(b)):
            if k not in a or k not in b:
                return (f"{_gen(path)}/{k}:missing") if not verbose else f"{path}/{k} present only on one side"
            if a[k] != b[k]:
                return _dict_diff(a[k], b[k], verbose, f"{path}/{k}")
    if isinstance(a, list):
        if len(a) != len(b):
            return f"{_gen(path)}:len" if not verbose else f"{path}: list length {len(a)} vs {len(b)}"
        for i, (x, y) in enumerate(zip(a, b)):
            if x != y:
                return _dict_diff(x, y, verbose, f"{path}[{i}]")
    return f"{_gen(path)}:value" if not verbose else f"{path}: {a!r} vs {b!r}"[:300]


def _gen(path):
    import re
    return re.sub(r"\[\d+\]", "[]", path)


LOCALE_SCRIPT = r"""
import json, os, sys, tempfile
sys.path.insert(0, os.environ["VERIF_REPO"])
from pyxform.builder import create_survey_element_from_dict, create_survey_element_from_json, create_survey_from_path
from pyxform.xls2json import workbook_to_json
from pyxform.xls2json_backends import get_xlsform
md = sys.stdin.read()
sv = create_survey_element_from_dict(workbook_to_json(get_xlsform(md, file_type=".md"), warnings=[]))
x0 = sv.to_xml(validate=False, pretty_print=False)
d = tempfile.mkdtemp(prefix="verif_c16_loc_")
p = os.path.join(d, "form.json")
out = {"encoding": __import__("locale").getpreferredencoding(False)}
try:
    sv.json_dump(p)
    for nm, fn in (("create_survey_element_from_json", create_survey_element_from_json), ("create_survey_from_path", create_survey_from_path)):
        try:
            out[nm] = "same" if fn(p).to_xml(validate=False, pretty_print=False) == x0 else "differs"
        except Exception as e:
            out[nm] = "raised %s: %s" % (type(e).__name__, str(e)[:150])
finally:
    try:
        os.unlink(p); os.rmdir(d)
    except OSError:
        pass
print(json.dumps(out))
"""


def locale_roundtrip(ctx):
    """The file leg of the round trip in a process whose preferred encoding is not UTF-8 (C locale, UTF-8 mode off): dumps are UTF-8 files whatever the locale."""
    import subprocess
    import sys
    md = ("| survey |\n| | type | name | label::Fran\u00e7ais (fr) | label::\u0627\u0644\u0639\u0631\u0628\u064a\u0629 (ar) | hint |\n"
          "| | text | pr\u00e9nom | Pr\u00e9nom \u2013 \u00e9t\u00e9 | \u0627\u0633\u0645 | \u00fc\u00f1\u00ee \U0001F600 |\n"
          "| | select_one l | s | Ch\u00f6ix | \u062e | |\n| choices |\n| | list_name | name | label::Fran\u00e7ais (fr) | label::\u0627\u0644\u0639\u0631\u0628\u064a\u0629 (ar) |\n| | l | a | \u00c0 | \u0623 |\n")
    for envname, env in (("utf8", {"PYTHONUTF8": "1"}), ("c-locale", {"LANG": "C", "LC_ALL": "C", "PYTHONUTF8": "0", "PYTHONCOERCECLOCALE": "0"})):
        e = dict(os.environ, VERIF_REPO=drive.REPO, PYTHONIOENCODING="utf-8", **env)
        try:
            r = subprocess.run([sys.executable, "-c", LOCALE_SCRIPT], input=md.encode("utf-8"), capture_output=True, timeout=120, env=e)
        except subprocess.TimeoutExpired:
            ctx.ctr("locale_roundtrip_timeout")
            continue
        ctx.ctr("locale_roundtrips")
        ctx.case(sig=f"locale-roundtrip|{envname}")
        try:
            out = json.loads(r.stdout.decode("utf-8").strip().splitlines()[-1])
        except Exception:  # noqa: BLE001
            ctx.viol(f"R4:locale:{envname}:child-failed", f"child exited {r.returncode}: {r.stderr.decode('utf-8', 'replace')[-300:]}", {"klass": "locale", "md": md})
            continue
        for nm in ("create_survey_element_from_json", "create_survey_from_path"):
            if out.get(nm) != "same":
                ctx.viol(f"R4:locale:{envname}:{nm}:{'raised' if str(out.get(nm)).startswith('raised') else 'differs'}",
                         f"preferred encoding {out.get('encoding')}: json_dump -> {nm} -> to_xml: {out.get(nm)}", {"klass": "locale", "md": md})


def concurrent_dump_pass(ctx):
    """One survey object dumped by several threads at once (a server that keeps parsed forms and serves their JSON), and dumped again after a dump
    that was cut short: every dump is the complete one, equal to the dump of an equal survey taken alone."""
    import sys
    import threading
    from pyxform.builder import create_survey_element_from_dict
    from pyxform.xls2json import workbook_to_json
    from pyxform.xls2json_backends import get_xlsform
    rounds = 3 if ctx.tier == "quick" else 20
    old = sys.getswitchinterval()
    for rnd in range(rounds):
        rng = ctx.rng("cdump", ctx.shard, rnd)
        form = make_form(rng, 9000 + ctx.shard * 50 + rnd)
        big = [{"name": f"c{k}", "label": f"Choice {k}", "grp": f"g{k % 7}"} for k in range(300)]
        form.choices["biglist"] = big
        form.survey.append(Row("q", "select_one biglist", f"bigsel{rnd}", {"label": "big"}))
        form.survey.append(Row("q", "select_multiple biglist", f"bigsel2{rnd}", {"label": "big2"}))
        try:
            def build():
                wb = get_xlsform(render.to_dict(form.to_sheets()))
                return create_survey_element_from_dict(workbook_to_json(wb, warnings=[]))
            ref = json.dumps(build().to_json_dict(), sort_keys=True)
            sv = build()
        except Exception:  # noqa: BLE001
            ctx.ctr("concurrent_dump_form_rejected")
            continue
        res = {}
        bar = threading.Barrier(4)

        def work(k):
            try:
                bar.wait(timeout=30)
            except threading.BrokenBarrierError:
                pass
            try:
                res[k] = json.dumps(sv.to_json_dict(), sort_keys=True)
            except Exception as e:  # noqa: BLE001
                res[k] = f"raised {type(e).__name__}: {e}"
        sys.setswitchinterval(1e-5)
        try:
            ts = [threading.Thread(target=work, args=(k,)) for k in range(4)]
            for t_ in ts:
                t_.start()
            for t_ in ts:
                t_.join(120)
        finally:
            sys.setswitchinterval(old)
        res["afterwards"] = json.dumps(sv.to_json_dict(), sort_keys=True)
        ctx.ctr("concurrent_dumps", 5)
        ctx.case(sig=f"concurrent-dump|{ctx.shard}|{rnd}")
        for k, v in res.items():
            if v != ref:
                ctx.viol("R2:dump-taken-beside-other-dumps-differs", f"dump {k} of one survey object ({len(v)} chars) differs from the dump of an equal survey taken alone ({len(ref)} chars)"
                         + (f": {v[:120]}" if v.startswith("raised") else ""), common.witness(form, klass="concurrent-dump"))
                break


def run_shard(ctx):
    pl = plan(ctx.tier, ctx.seed)
    if ctx.shard == 0:
        locale_roundtrip(ctx)
    concurrent_dump_pass(ctx)
    for i in range(pl["n"]):
        if not ctx.mine(i):
            continue
        rng = ctx.rng("case", i)
        form = make_form(rng, i)
        check(ctx, form, common.feature_sig(form), emit_sample=(i < 2))


def replay(w):
    def chk(ctx, wit):
        if wit.get("klass") == "concurrent-dump":
            concurrent_dump_pass(ctx)
            return
        if wit.get("klass") == "locale":
            locale_roundtrip(ctx)
            return
        check(ctx, common.form_from_witness(wit), "replay")
    return common.replay_with(PROP, w, chk)
