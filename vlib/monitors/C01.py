"""C01 — every successful conversion returns a well-formed, namespace-valid XForm skeleton.

Deciding oracle: invariants.c01_wellformed (expat with namespace processing + lxml +
skeleton) on every successful convert(), in both pretty_print modes, over
  W-core / W-text (hostile cell text) / settings-heavy forms (namespaces, attribute::,
  prefixed bind::/instance::/body:: columns), the repository's fixtures, and
  W-names: author-controlled strings that become XML *names* or raw control characters,
  where the acceptable outcomes are rejection (PyXFormError) or well-formed output.
"""
from __future__ import annotations

import os

from .. import common, drive, gen, hostile, invariants, render
from ..model import Form, Row

PROP = "C01"
LEVEL = "exploration"
TECHNIQUE = "runtime output monitor: independent strict XML/namespace parse + skeleton check on every produced XForm"
RULE = ("cases = generated forms (W-core rich, hostile text, settings/namespace-heavy, hostile names, repo fixtures) x "
        "pretty_print in {False,True} [x container formats in thorough]; a case is non-trivial when conversion succeeded and "
        "the output was parsed; distinct = distinct (feature signature of the form, workload class, format)")
ASSUMPTIONS = ["expat (namespace mode) and lxml are correct XML parsers", "strings are sampled from hostile alphabets, not all of Unicode"]

NS_SETTINGS = 'esri="http://esri.com/xforms" kb="http://kobotoolbox.org/xforms"'


def plan(tier, seed):
    n = 1600 if tier == "quick" else 24000
    return {"shards": 16, "timeout": 900 if tier == "quick" else 3000, "n": n,
            "floors": {"suite_conversions_judged": 500, "parsed_outputs": n // 2, "distinct": 50, "hostile_name_cases": 40, "namespace_scope_cases": 300, "concurrent_conversions_judged": 500}}


def make_form(rng, i, klass):
    if klass == "core":
        return gen.gen_form(rng, common.rich_cfg(rng))
    if klass == "text":
        return gen.gen_form(rng, common.rich_cfg(rng, hostile_text=True, p_hint=0.6, p_constraint=0.5, p_constraint_msg=0.9,
                                                 p_required=0.4, p_required_msg=0.8))
    if klass == "settings":
        f = gen.gen_form(rng, common.rich_cfg(rng, p_bind_extra=0, p_instance_extra=0, delim="::"))
        f.settings["namespaces"] = NS_SETTINGS + rng.choice(["", "", ' geoentities="http://example.org/geoentities"', ' sub_entities="http://example.org/sub"',
                                                              ' xentities="http://example.org/x" zz="http://example.org/zz"'])
        opts = {
            "attribute::id": "legacy-0042", "attribute::version": "9.9.9", "attribute::odk:prefix": "zz",
            "attribute::esri:tag": hostile.hostile(rng, "attrval"),
            "attribute::plain": "pv",
            "instance_xmlns": "http://example.org/ns/" + str(i),
            "public_key": "MIIBIjANBgkqhkiG9w0BAQEFAAOCAQ8A" + str(i),
            "submission_url": "https://example.org/submit?a=1&b=<2>",
            "auto_send": "true", "auto_delete": "false", "style": "pages theme-grid",
            "instance_name": "concat('a', 'b')", "version": "v<1>&2", "form_title": hostile.hostile(rng, "title"),
            "form_id": "id_" + str(i), "prefix": "J1!x!", "delimiter": "#",
        }
        for k, v in opts.items():
            if rng.random() < 0.5:
                f.settings[k] = v
        if rng.random() < 0.35:
            f.entities = {"list_name": "ent" + str(i % 7), "label": "concat('e', '1')"}
            if rng.random() < 0.5:
                f.entities["entity_id"] = "coalesce('', uuid())"
                f.entities["update_if"] = "true()"
            for r in [r for r in f.survey if r.kind == "q" and (r.type or "").split(" ")[0] in ("text", "integer")][:2]:
                r.cells["save_to"] = "p" + str(abs(hash(r.name)) % 89)
            if rng.random() < 0.4 and "public_key" not in f.settings:
                f.settings["omit_instanceID"] = rng.choice(["yes", "true"])  # no instanceID: the entity declaration and its namespace are still due
        for r, anc in f.walk():
            if r.kind == "q" and rng.random() < 0.3 and (r.type or "").split(" ")[0] in gen.INPUT_TYPES:
                r.cells["bind::esri:fieldType"] = "esriFieldTypeString"
                r.cells["body::kb:flag"] = hostile.hostile(rng, "flag")
                r.cells["instance::esri:x"] = "ix & <y>"
            if r.is_section() and rng.random() < 0.3:
                r.cells["instance::kb:sec"] = "s\"q'"
        return f
    raise ValueError(klass)


# ---------------------------------------------------------------------------- hostile names
BAD_NAMES = ["rate\u00f72", "a\u00d7b", "x\u037e", "a\u2014b", "\u00b7lead", "a\u2028b", "q\u00a0r", "2nd", "a<b", "a b", "a&b", 'q"x', "x>", "-x", ".x", "a/b", "a=b", "foo:bar", "x:", ":x", "a:b:c", "1x", "é", "a\tb", "xml:lang", "a'b", "\u00c0-\u00d6]x", "q\u00c0-\u00d6]", "xmlns:xml", "xmlns:xmlns", "xmlns:", "xmlns"]


def hostile_name_form(rng, i):
    """(form, channel). Acceptable: PyXFormError, or well-formed output."""
    bad = rng.choice(BAD_NAMES)
    ch = rng.choice(["choices-header", "instance-attr", "bind-attr", "body-attr", "settings-attribute", "namespaces-prefix", "settings-suffixed-header",
                     "ctl-char-label", "ctl-char-choice", "ctl-char-default", "ctl-char-title", "ctl-char-hint", "ctl-char-message", "ctl-char-extra", "ctl-char-version",
                     "ctl-char-calculation", "ctl-char-appearance", "ctl-char-attr", "loop-choice-name", "loop-choice-name", "question-name", "group-name"])
    f = gen.simple_form([("text", "q1", {"label": "L1"}), ("select_one l1", "q2", {"label": "L2"})],
                        choices={"l1": [{"name": "a", "label": "A"}, {"name": "b", "label": "B"}]})
    if ch == "choices-header":
        for c in f.choices["l1"]:
            c[bad] = "v"
        if rng.random() < 0.5:
            # settings that change how the choices sheet is checked must not change what is done with an unusable column
            f.settings["allow_choice_duplicates"] = rng.choice(["yes", "no", "true"])
            if rng.random() < 0.5:
                f.choices["l1"].append(dict(f.choices["l1"][0]))
    elif ch == "instance-attr":
        f.survey[0].cells[f"instance::{bad}"] = "v"
    elif ch == "bind-attr":
        f.survey[0].cells[f"bind::{bad}"] = "v"
    elif ch == "body-attr":
        f.survey[0].cells[f"body::{bad}"] = "v"
    elif ch == "settings-attribute":
        f.settings[f"attribute::{bad}"] = "v"
    elif ch == "settings-suffixed-header":
        # a settings column with a stray '::' suffix: its value must not end up in an attribute as anything but escaped text
        bad = rng.choice(["attribute::note::en", "version::en", "submission_url::en", "style::en", "prefix::x", "attribute::a::b::c"])
        f.settings[bad] = rng.choice(["it's", 'say "x"', "a & b", "<v>", "plain"])
    elif ch == "namespaces-prefix":
        f.settings["namespaces"] = f'{bad}="http://example.org/x"'
    elif ch == "question-name":
        f.survey[0].name = bad
    elif ch == "group-name":
        f.survey.append(Row("group", "begin group", bad, {"label": "g"}, [Row("q", "text", "ing", {"label": "x"})]))
    elif ch == "loop-choice-name":
        # legacy 'begin loop over <list>': one group per choice, named after the choice
        f.choices["l1"][1]["name"] = bad
        f.survey.append(Row("group", "begin loop over l1", "lp", {"label": "loop"}, [Row("q", "text", "inloop", {"label": "%(label)s"})], meta={"end_type": "end loop"}))
    else:
        c = rng.choice(hostile.CTL + hostile.SURROGATES)  # this class is converted from a dict, which can carry either
        bad = repr(c)
        if ch == "ctl-char-label":
            f.survey[0].cells["label"] = f"L{c}1"
        elif ch == "ctl-char-choice":
            f.choices["l1"][0]["label"] = f"A{c}"
        elif ch == "ctl-char-default":
            f.survey[0].cells["default"] = f"d{c}"
        elif ch == "ctl-char-hint":
            f.survey[0].cells[rng.choice(["hint", "guidance_hint", "hint::en"])] = f"h{c}h"
            f.survey[0].cells.setdefault("hint", "h")
        elif ch == "ctl-char-message":
            f.survey[0].cells.update({"constraint": ". != ''", rng.choice(["constraint_message", "constraint_message::en"]): f"m{c}"})
        elif ch == "ctl-char-extra":
            for c_ in f.choices["l1"]:
                c_["extra"] = f"x{c}"
        elif ch == "ctl-char-version":
            f.settings[rng.choice(["version", "instance_name", "submission_url", "style", "attribute::note"])] = f"v{c}1"
        elif ch == "ctl-char-calculation":
            f.survey[0].cells[rng.choice(["relevant", "constraint", "calculation", "choice_filter"])] = f"'a{c}' != ''"
        elif ch == "ctl-char-appearance":
            f.survey[0].cells["appearance"] = f"w1{c}"
        elif ch == "ctl-char-attr":
            f.survey[0].cells[rng.choice(["bind::custom", "body::custom", "instance::custom"])] = f"a{c}"
        else:
            f.settings["form_title"] = f"T{c}"
        ch = "ctl-char:" + ch.split("-")[-1]
    return f, ch, bad


def name_class(bad):
    """Structural class of the hostile name (the predicate used in known-finding keys)."""
    if bad.startswith("'\\") or bad.startswith("'\\x") or bad.startswith('"'):
        return "control-character"
    import re
    if ":" in bad and re.match(r"^[A-Za-z_][\w.-]*:[A-Za-z_][\w.-]*$", bad):
        return "unbound-prefix"
    if bad.startswith("xml:"):
        return "unbound-prefix"
    return "not-an-xml-name"


def check_output(ctx, o, klass, form, fmt, pretty, sig):
    if not o.ok:
        ctx.ctr(f"rejected:{klass}")
        if not o.exc_is_pyxform:
            ctx.ctr("internal_exception_seen(C17's business)")
        return False
    # the primary instance root carries the form id: form_id (else id_string) setting, else the fallback name
    expect_id = None
    if form is not None and klass != "names":
        sid = form.settings.get("form_id") or form.settings.get("id_string")
        expect_id = " ".join(str(sid).split()) if sid else "data"
        ctx.ctr("form_id_checked")
    p, v = invariants.c01_wellformed(o.xform, expect_id)
    ctx.ctr("parsed_outputs")
    ctx.case(sig=f"{sig}|{klass}|{fmt}|{int(pretty)}")
    for key, what in v:
        ctx.viol(f"{klass}:{key}", f"[{klass}/{fmt}/pretty={pretty}] {what}",
                 common.witness(form, fmt=fmt, pretty=pretty, klass=klass, xform_head=o.xform[:600]))
    return True


def run_shard(ctx):
    pl = plan(ctx.tier, ctx.seed)
    n = pl["n"]
    fmts_thorough = ["dict", "xlsx", "xls", "md", "csv"]
    for i in range(n):
        if not ctx.mine(i):
            continue
        rng = ctx.rng("case", i)
        klass = ["core", "text", "settings", "core"][i % 4]
        form = make_form(rng, i, klass)
        sig = common.feature_sig(form)
        fmt = "dict"
        if klass == "text" and i % 8 == 1:
            fmt = "xlsx"  # hostile text through a spreadsheet container in the quick tier too
        if ctx.tier == "thorough":
            fmt = fmts_thorough[(i // 4) % len(fmts_thorough)]
            if fmt in ("md",) and not all(render.md_ok_cell(c) for _, (h, rows) in form.to_sheets().items() for r in rows for c in r if isinstance(c, str)):
                fmt = "dict"
        for pretty in (False, True):
            o = drive.convert_form(form, fmt=fmt, pretty=pretty)
            ok = check_output(ctx, o, klass, form, fmt, pretty, sig)
            if ok and i < 3 and not pretty:
                ctx.sample({"class": klass, "format": fmt, "form_md": common.sheets_to_md(form.to_sheets())[:1500], "observed": "parsed OK, skeleton OK"})
    # ---- several conversions at the same time in one process (a server): every document returned is still one well-formed XForm carrying the id
    #      of the form it was asked for (judged after the threads have finished, like any other output)
    import sys as _sys
    import threading as _threading
    rounds = 2 if ctx.tier == "quick" else 12
    old_si = _sys.getswitchinterval()
    _sys.setswitchinterval(1e-5)
    try:
        for rnd in range(rounds):
            jobs = []
            for k in range(6):
                j = 70000 + (ctx.shard * 100 + rnd) * 6 + k
                rng = ctx.rng("case", j)
                form = make_form(rng, j, ["core", "text", "settings"][k % 3])
                form.settings["form_id"] = f"conc_{ctx.shard}_{rnd}_{k}"
                jobs.append((form, render.to_dict(form.to_sheets()), k % 2 == 1))
            results = [[] for _ in jobs]
            bar = _threading.Barrier(len(jobs))

            def work(k):
                form, wb, pretty = jobs[k]
                try:
                    bar.wait(timeout=30)
                except _threading.BrokenBarrierError:
                    pass
                for _ in range(6):
                    import copy as _copy
                    results[k].append(drive.call_convert(_copy.deepcopy(wb), pretty_print=pretty, **dict(form.args)))
            ts = [_threading.Thread(target=work, args=(k,)) for k in range(len(jobs))]
            for t_ in ts:
                t_.start()
            for t_ in ts:
                t_.join(300)
            for k, (form, wb, pretty) in enumerate(jobs):
                outs = results[k]
                alone = drive.call_convert(__import__("copy").deepcopy(wb), pretty_print=pretty, **dict(form.args))
                for o in outs:
                    ctx.ctr("concurrent_conversions_judged")
                    ctx.case(sig=f"threads|{rnd}|{k}|{o.ok}")
                    if not o.ok:
                        if alone.ok:
                            ctx.viol("threads:refused-or-crashed-beside-other-conversions", f"converts alone, beside other conversions: {o.brief()[:200]}", common.witness(form, klass="threads", pretty=pretty))
                        continue
                    p_, v = invariants.c01_wellformed(o.xform, form.settings["form_id"])
                    for key, what in v:
                        ctx.viol(f"threads:{key.split(':')[0]}", f"a conversion running beside five others returned a document that is {what}", common.witness(form, klass="threads", pretty=pretty))
    finally:
        _sys.setswitchinterval(old_si)
    # ---- hostile names / control characters
    m = 320 if ctx.tier == "quick" else 4000
    for i in range(m):
        if not ctx.mine(i):
            continue
        rng = ctx.rng("names", i)
        form, ch, bad = hostile_name_form(rng, i)
        for pretty in (False, True):
            o = drive.convert_form(form, pretty=pretty)
            ctx.ctr("hostile_name_cases")
            if not o.ok:
                ctx.ctr("hostile_name_rejected")
                ctx.case(sig=f"names|{ch}|rejected")
                continue
            p, v = invariants.c01_wellformed(o.xform)
            ctx.case(sig=f"names|{ch}|{name_class(bad)}|{'bad' if v else 'ok'}")
            for key, what in v:
                # a choices header with a space is dropped with a warning: if it ever reaches the output that is not the recorded "any other invalid name" finding
                cls = "dropped-header-with-space-kept" if ch == "choices-header" and " " in bad else name_class(bad)
                ctx.viol(f"hostile-name:{ch}:{cls}", f"[{ch}] name/char {bad!r} accepted and output is {what}",
                         common.witness(form, channel=ch, bad=bad, pretty=pretty, klass="names"))
    # ---- choices columns whose header has a space (dropped with a warning), under every spelling of the setting that changes how the sheet is checked
    kk = 0
    for hdr in ("sort order", "notes for translators", "a b", " lead", "x  y"):
        for acd in (None, "yes", "no", "true", "TRUE"):
            for dup in (False, True):
                kk += 1
                if not ctx.mine(kk):
                    continue
                f = gen.simple_form([("select_one l1", "q2", {"label": "L2"})], choices={"l1": [{"name": "a", "label": "A", hdr: "1"}, {"name": "b", "label": "B", hdr: "2"}]})
                if dup:
                    f.choices["l1"].append({"name": "a", "label": "A again", hdr: "3"})
                if acd:
                    f.settings["allow_choice_duplicates"] = acd
                for pretty in (False, True):
                    o = drive.convert_form(f, pretty=pretty)
                    ctx.ctr("hostile_name_cases")
                    if not o.ok:
                        ctx.ctr("hostile_name_rejected")
                        ctx.case(sig=f"choices-space-header|{hdr}|{acd}|{dup}|rejected")
                        continue
                    p_, v = invariants.c01_wellformed(o.xform)
                    ctx.case(sig=f"choices-space-header|{hdr}|{acd}|{dup}|{'bad' if v else 'ok'}")
                    for key, what in v:
                        ctx.viol("hostile-name:choices-header:dropped-header-with-space-kept", f"choices column {hdr!r} (allow_choice_duplicates={acd}) reached the output: {what}",
                                 common.witness(f, channel="choices-header", bad=hdr, pretty=pretty, klass="names"))
    # ---- namespace declarations written as attribute columns (bind::xmlns:ex, body::xmlns:ex, instance::xmlns:ex): a prefix is in scope on the element
    #      that declares it and below it - used anywhere else (another row's bind, the same row's control, an earlier or later sibling, an element
    #      nested in another branch) the form must be refused or the output must still bind every prefix
    kk = 0
    ROWS3 = [("text", "a1"), ("integer", "b2"), ("text", "c3")]
    for decl_col in ("bind", "body", "instance"):
        for use_col in ("bind", "body", "instance"):
            for decl_row in range(3):
                for use_row in range(3):
                    for nest in ("flat", "repeat", "group-decl-on-section"):
                        kk += 1
                        if not ctx.mine(kk):
                            continue
                        rows = [Row("q", t, n, {"label": n.upper()}) for t, n in ROWS3]
                        rows[use_row].cells[f"{use_col}::ex:flag"] = "1"
                        if nest == "group-decl-on-section":
                            # the declaration sits on a group row: its own element declares the prefix for what is below it in THAT tree only
                            sec = Row("group", "begin group", "g", {"label": "G", f"{decl_col}::xmlns:ex": "http://example.org/ex"}, rows[:2])
                            top = [sec, rows[2]]
                        else:
                            rows[decl_row].cells[f"{decl_col}::xmlns:ex"] = "http://example.org/ex"
                            top = rows if nest == "flat" else [Row("repeat", "begin repeat", "r", {"label": "R"}, rows[:2]), rows[2]]
                        f = gen.simple_form([])
                        f.survey = top
                        for pretty in (False, True):
                            o = drive.convert_form(f, pretty=pretty)
                            ctx.ctr("namespace_scope_cases")
                            if not o.ok:
                                ctx.ctr("namespace_scope_rejected")
                                ctx.case(sig=f"ns-scope|{decl_col}|{use_col}|{decl_row}|{use_row}|{nest}|rejected")
                                continue
                            p_, v = invariants.c01_wellformed(o.xform)
                            ctx.case(sig=f"ns-scope|{decl_col}|{use_col}|{decl_row}|{use_row}|{nest}|{'bad' if v else 'ok'}")
                            for key, what in v:
                                ctx.viol(f"namespace-scope:{decl_col}-declares:{use_col}-uses:{key.split(':')[0]}", f"[{nest}] {decl_col}::xmlns:ex on row {decl_row}, {use_col}::ex:flag on row {use_row}: "
                                         f"accepted and the output is {what}", common.witness(f, klass="ns-scope", pretty=pretty))
    # ---- columns that address the generated parts of a control or bind (its element name, its ref/nodeset, the no-body flag) instead of adding an attribute
    RESERVED = [("body::tag", ["foo bar", "a<b", "upload", "x:y:z", "1tag", ""]), ("control::tag", ["in put", "a>b"]), ("body::ref", ["/data/zz", "zz", "/data/q1 "]),
                ("body::nodeset", ["/data/zz"]), ("bind::nodeset", ["/data/zz"]), ("body::bodyless", ["yes", "true"]), ("bind::type", ["x y", "a<b"]), ("body::class", ["a b"]),
                ("action::name", ["follow up", "a<b", "esri:act"]), ("action::event", ["x y"]), ("action", ["do it"])]
    k = 0
    for col, vals in RESERVED:
        for val in vals:
            for owner in ("question", "select", "group", "repeat"):
                k += 1
                if not ctx.mine(k) or val == "":
                    continue
                f = Form()
                cells = {"label": "O", col: val}
                inner = [Row("q", "text", "inner", {"label": "I"})]
                if col.startswith("action") and owner in ("group", "repeat"):
                    owner_type = {"group": "start-geopoint", "repeat": "decimal"}[owner]  # the action columns: on a question that has an action of its own, and on one that has none
                    own_ = Row("q", owner_type, "own", cells if owner_type != "start-geopoint" else {col: val})
                    f.survey = [Row("q", "text", "q1", {"label": "Q"}), own_]
                    o = drive.convert_form(f)
                    ctx.ctr("reserved_control_key_cases")
                    if not o.ok:
                        ctx.ctr("reserved_control_key_rejected")
                        ctx.case(sig=f"reserved|{col}|{owner_type}|rejected")
                        continue
                    p, v = invariants.c01_wellformed(o.xform)
                    ctx.case(sig=f"reserved|{col}|{owner_type}|{'bad' if v else 'ok'}")
                    for key, what in v[:3]:
                        ctx.viol(f"reserved-control-key:{col}:{key.split(':')[0]}", f"[{col}={val!r} on a {owner_type}] accepted and the output has: {what}", common.witness(f, klass="reserved", pretty=False, fmt="dict"))
                    continue
                own = {"question": Row("q", "text", "own", cells), "select": Row("q", "select_one l1", "own", cells),
                       "group": Row("group", "begin group", "own", cells, inner), "repeat": Row("repeat", "begin repeat", "own", cells, inner)}[owner]
                f.survey = [Row("q", "text", "q1", {"label": "Q"}), own]
                f.choices = {"l1": [{"name": "a", "label": "A"}]}
                o = drive.convert_form(f)
                ctx.ctr("reserved_control_key_cases")
                if not o.ok:
                    ctx.ctr("reserved_control_key_rejected")
                    ctx.case(sig=f"reserved|{col}|{owner}|rejected")
                    continue
                p, v = invariants.c01_wellformed(o.xform)
                if p is not None and not v:
                    v = [(kk, ww) for kk, ww in invariants.c02_closure(p)]
                    # the rows of the form must still be presented: a column is not a way to drop a control
                    import re as _re
                    for need in (["/data/own/inner"] if owner in ("group", "repeat") else ["/data/own"]):
                        if not _re.search(r'ref="%s"' % _re.escape(need), o.xform.split("<h:body", 1)[-1]):
                            v.append(("control-missing", f"no body control with ref {need}"))
                ctx.case(sig=f"reserved|{col}|{owner}|{'bad' if v else 'ok'}")
                for key, what in v[:3]:
                    ctx.viol(f"reserved-control-key:{col}:{key.split(':')[0]}", f"[{col}={val!r} on a {owner}] accepted and the output has: {what}",
                             common.witness(f, klass="reserved", pretty=False, fmt="dict"))
    # ---- dict workbooks with cells that are not text (lists, numbers, booleans, nested dicts) in attribute-bearing places:
    #      whatever pyxform does with them, a *successful* conversion must still be a well-formed document
    import copy
    NONTEXT = [["a<b", "c&d"], {"en": "it's \"q\" & <x>"}, 2024, 1.5, True, ("t", "<u>")]
    for i in range(n // 8):
        if not ctx.mine(i):
            continue
        rng = ctx.rng("nontext", i)
        wb = {"survey": [{"type": "text", "name": "q1", "label": "L"}, {"type": "select_one l1", "name": "q2", "label": "S"}],
              "choices": [{"list_name": "l1", "name": "a", "label": "A"}], "settings": [{"form_id": "f1"}]}
        where = rng.choice(["settings:attribute::tags", "settings:version", "settings:style", "settings:form_title", "survey:instance::x", "survey:bind::odk:y", "survey:body::z",
                            "choices:extra", "choices:name", "survey:appearance"])
        sheet, col = where.split(":", 1)
        wb[sheet][0][col] = rng.choice(NONTEXT)
        for pretty in (False, True):
            o = drive.call_convert(copy.deepcopy(wb), pretty_print=pretty)
            ctx.ctr("hostile_name_cases")
            ctx.ctr("nontext_cell_cases")
            if not o.ok:
                ctx.ctr("hostile_name_rejected")
                ctx.case(sig=f"nontext|{where}|rejected")
                continue
            p, v = invariants.c01_wellformed(o.xform)
            ctx.case(sig=f"nontext|{where}|{'bad' if v else 'ok'}")
            for key, what in v:
                ctx.viol(f"nontext-cell:{where}:{key.split(':')[0]}", f"[dict workbook, {where} = {wb[sheet][0][col]!r}] accepted and output is {what}", {"workbook": wb, "pretty": pretty, "klass": "nontext"})
    # ---- API histories: a survey that rendered once is changed through the object API and rendered again
    if ctx.shard == 0:
        from pyxform.builder import create_survey_element_from_dict
        for i in range(40):
            rng = ctx.rng("api", i)
            o = drive.call_convert({"survey": [{"type": "text", "name": "q1", "label": "L"}, {"type": "begin group", "name": "g", "label": "G"},
                                               {"type": "integer", "name": "q2", "label": "N"}, {"type": "end group"}]})
            if not o.ok:
                continue
            sv = o.result._survey
            sv.to_xml(validate=False)
            bad = rng.choice(["no. of rooms", "2nd phone", "a<b", "x y", "q&a", "rate\u00f72"])
            how = rng.choice(["rename", "add_child"])
            if how == "rename":
                victim = rng.choice(["q1", "q2", "g"])
                next(e for e in sv.iter_descendants() if e.name == victim).name = bad
            else:
                rng.choice([sv, next(e for e in sv.iter_descendants() if e.name == "g")]).add_child(create_survey_element_from_dict({"type": "text", "name": bad, "label": "x"}))
            for pretty in (False, True):
                ctx.ctr("hostile_name_cases")
                ctx.ctr("api_histories")
                try:
                    x = sv.to_xml(validate=False, pretty_print=pretty)
                except Exception:  # noqa: BLE001 - refusing is fine
                    ctx.ctr("hostile_name_rejected")
                    ctx.case(sig=f"api|{how}|rejected")
                    continue
                p, v = invariants.c01_wellformed(x)
                ctx.case(sig=f"api|{how}|{'bad' if v else 'ok'}")
                for key, what in v:
                    ctx.viol(f"api-history:{how}-after-first-render:{key.split(':')[0]}", f"[render, {how} {bad!r}, render] second output is {what}", {"klass": "api", "how": how, "bad": bad})
    # ---- fixtures (shard 0 .. k)
    files = common.fixture_files()
    for j, path in enumerate(files):
        if not ctx.mine(j):
            continue
        for pretty in (False, True):
            o = drive.call_convert(path, pretty_print=pretty)
            ctx.ctr("fixture_runs")
            if not o.ok:
                ctx.ctr("fixture_rejected")
                continue
            p, v = invariants.c01_wellformed(o.xform)
            ctx.ctr("parsed_outputs")
            ctx.case(sig=f"fixture|{os.path.basename(path)}")
            for key, what in v:
                ctx.viol(f"fixture:{key}", f"[{os.path.relpath(path, '/repo')}] {what}", {"fixture": path, "pretty": pretty, "klass": "fixture"})


def replay(w):
    def chk(ctx, wit):
        if wit.get("klass") == "api":
            print("API history witness: re-run ./check C01 (the sequence is regenerated from the seed)")
            return
        if wit.get("klass") == "threads":
            print("witness of the concurrent pass (the form is in the file): an interleaving cannot be replayed from a form - re-run ./check C01, the pass is seeded")
            return
        if wit.get("klass") == "nontext":
            o = drive.call_convert(wit["workbook"], pretty_print=wit.get("pretty", False))
            form = None
        elif wit.get("klass") == "fixture":
            o = drive.call_convert(wit["fixture"], pretty_print=wit.get("pretty", False))
            form = None
        else:
            form = common.form_from_witness(wit)
            o = drive.convert_form(form, fmt=wit.get("fmt", "dict"), pretty=wit.get("pretty", False))
        print("  outcome:", o.brief())
        if o.ok:
            p, v = invariants.c01_wellformed(o.xform)
            for key, what in v:
                ctx.viol(key, what)
    return common.replay_with(PROP, w, chk)
