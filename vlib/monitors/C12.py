"""C12 — container format and delivery channel do not matter.

Deciding oracle: differential.  One abstract workbook (typed cells allowed) is rendered
as md, csv, xls (raw BIFF8), xlsx, xlsm and dict and delivered as path / PathLike / bytes
/ BytesIO / open binary file / str, with explicit and implicit file_type; every rendering
must give the same (xform, warnings, itemsets) as the dict rendering of the canonical
text (a path additionally supplies the fallback form name = its stem, which the dict
reference is given too).  Post-conditions on the readers: xls_to_dict / xlsx_to_dict
return exactly the canonical text of every cell.  Empty-run sub-class: <=60 blank rows,
<=20 blank columns inside the data, and trailing blank rows/columns never truncate.
"""
from __future__ import annotations

import copy
import os

from .. import common, drive, gen, render, xdiff
from ..model import Row

PROP = "C12"
LEVEL = "exploration"
TECHNIQUE = "runtime differential monitor across container formats and delivery channels + post-conditions on the spreadsheet readers"
RULE = ("cases = (abstract workbook, container, channel); each compared against the dict rendering of the same workbook; workbooks: "
        "W-core forms, typed-cell variants (int/float/bool/NBSP/outer whitespace), empty-run variants (1/59/60 blank rows, 1/19/20 blank "
        "columns, trailing blanks), the typed workbook re-encoded as other xlsx producers write it (inline strings, rich-text runs, formula cells with cached values, no dimension), external_choices forms, repo fixtures re-rendered xls->xlsx; non-trivial = reference converted; "
        "distinct = distinct (form signature, container, channel, variant)")
ASSUMPTIONS = ["openpyxl writes what it is given; the BIFF8 writer is validated against xlrd in setup (vlib.selftest)",
               "md/csv cannot carry blank rows, typed cells, NBSP normalisation or newlines: they take part in the content-equivalence part only"]


def plan(tier, seed):
    n = 260 if tier == "quick" else 5000
    return {"shards": 16, "timeout": 900 if tier == "quick" else 3600, "n": n,
            "floors": {"renderings_compared": n * 8, "reader_postconditions": n, "empty_run_cases": 60, "distinct": 100,
                       "foreign_encodings_compared": n, "text_dialect_cases": n // 2, "dict_blank_cell_cases": n // 4}}


def base_form(rng, i):
    cfg = common.rich_cfg(rng, p_bind_extra=0, p_instance_extra=0, p_body_extra=0, n_rows=rng.choice([(2, 6), (4, 14)]),
                          p_choice_extra=0.5, p_default=0.4)
    f = gen.gen_form(rng, cfg)
    if i % 4 == 1:
        # numbers that need all the digits a double can carry (the spreadsheets store them as numbers; read back they spell the same digits)
        f.survey.append(Row("q", "decimal", "longnum", {"label": "n", "default": rng.choice(["0.3333333333333333", "12.34567890123456", "0.1", "2.718281828459045", "123456.789012345"])}))
        f.survey.append(Row("q", "decimal", "smallnum", {"label": "s", "default": rng.choice(["0.00001", "0.0000001", "0.000025", "0.00012345678901234", "0.000000003"]),
                                                       "constraint": ". > " + rng.choice(["0.00001", "0.0000004"])}))
        f.survey.append(Row("q", "integer", "longint", {"label": "i", "default": rng.choice(["1234567890123456", "2024010112", "9007199254740992", "123456789012"])}))
    if i % 4 == 0:
        # both spellings of the id column on the settings sheet (a documented pair: form_id wins, with a warning)
        f.settings.pop("id_string", None)
        f.settings["form_id"] = f.settings.get("form_id") or f"fid{i}"
        f.settings["id_string"] = rng.choice([f"ids{i}", f.settings["form_id"]])
    if i % 5 == 0:
        f.external_choices = [{"list_name": "ext", "name": f"e{k}", "label": f"E {k}", "grp": f"g{k % 2}"} for k in range(3)]
        f.survey.append(Row("q", "text", "extsel_src", {"label": "src"}))
        f.survey.append(Row("q", "select_one_external ext", "extsel", {"label": "ext", "choice_filter": "grp=${extsel_src}"}))
    return f


def md_representable(sheets):
    for _, (hdrs, rows) in sheets.items():
        for r in rows:
            for c in r:
                if isinstance(c, str) and (not render.md_ok_cell(c) or c != c.strip() or "\u00a0" in c):
                    return False
    return True


def typify(sheets, rng):
    """Return a copy where some cells are typed / noisy but have the same canonical text as intended."""
    out = {}
    for name, (hdrs, rows) in sheets.items():
        nr = []
        for r in rows:
            rr = list(r)
            for ci, c in enumerate(rr):
                if not isinstance(c, str):
                    continue
                x = rng.random()
                if c.isdigit() and not c.startswith("0") and (len(c) < 12 or (len(c) < 17 and int(float(c)) == int(c))):
                    if x < 0.4:
                        rr[ci] = int(c)
                    elif x < 0.7:
                        rr[ci] = float(c)
                elif c.replace(".", "", 1).isdigit() and "." in c and x < 0.6 and render.canon_text(float(c)) == c:
                    rr[ci] = float(c)
                elif c in ("yes", "true()") and hdrs[ci] in ("required", "read_only") and x < 0.5:
                    rr[ci] = True
                elif x < 0.08 and " " in c and hdrs[ci] is not None and hdrs[ci].startswith(("label", "hint")) and "  " not in c:
                    rr[ci] = c.replace(" ", "\u00a0", 1)
                elif x < 0.16 and hdrs[ci] is not None:
                    rr[ci] = rng.choice([" ", "  ", "\u00a0", "\t", ""]) + c + rng.choice([" ", "\u00a0", "\n", ""])
            nr.append(rr)
        out[name] = (list(hdrs), nr)
    return out


def blank_rows(sheets, sheet, pos, k):
    s = copy.deepcopy(sheets)
    h, rows = s[sheet]
    pos = min(pos, len(rows))
    rows[pos:pos] = [[None] * len(h) for _ in range(k)]
    return s


def blank_cols(sheets, sheet, pos, j, stray=None):
    """stray: text put into some cells under the header-less columns (an author's scratch notes): a column without a header carries no data"""
    s = copy.deepcopy(sheets)
    h, rows = s[sheet]
    pos = max(1, min(pos, len(h)))
    h[pos:pos] = [None] * j
    for k, r in enumerate(rows):
        r[pos:pos] = [stray if (stray is not None and (k + c) % 3 == 0) else None for c in range(j)]
    return s


def outcome_diff(ref, o):
    if ref.ok != o.ok:
        return "outcome", f"reference {ref.brief()} vs {o.brief()}"
    if not ref.ok:
        if (ref.exc_type, ref.exc_msg) != (o.exc_type, o.exc_msg):
            return "error", f"reference {ref.brief()} vs {o.brief()}"
        return None
    if ref.xform != o.xform:
        return "xform", "; ".join(xdiff.diffs(ref.xform, o.xform)[:2])
    if ref.warnings != o.warnings:
        return "warnings", f"{ref.warnings[:3]} vs {o.warnings[:3]}"
    if ref.itemsets != o.itemsets:
        return "itemsets", f"{(ref.itemsets or '')[:200]!r} vs {(o.itemsets or '')[:200]!r}"
    return None


FMT_CHANNELS = {
    "md": ["str", "bytes", "bytesio", "path", "file", "bytes_implicit", "pathlike", "rawfile", "spooled", "stringio", "textfile"],
    "csv": ["str", "bytes", "bytesio", "path", "file", "bytes_implicit", "rawfile", "spooled", "stringio", "textfile"],
    "xlsx": ["bytes", "bytesio", "path", "file", "bytes_implicit", "pathlike", "rawfile", "spooled"],
    "xlsm": ["bytes", "path", "bytesio"],
    "xls": ["bytes", "bytesio", "path", "file", "bytes_implicit", "rawfile", "spooled"],
}


def compare_all(ctx, form, sheets, sig, variant, fmts, rng, all_channels=False):
    args = dict(form.args)
    stem = "stemname"
    ref_plain = drive.call_convert(render.to_dict(sheets), **args)
    ref_stem = None
    if not ref_plain.ok and not ref_plain.exc_is_pyxform:
        ctx.ctr("reference_internal_exception(C17's business)")
        return
    if ref_plain.ok:
        ctx.ctr("references_ok")
    for fmt in fmts:
        chans = FMT_CHANNELS[fmt] if all_channels else [rng.choice(FMT_CHANNELS[fmt]), FMT_CHANNELS[fmt][0]]
        for ch in dict.fromkeys(chans):
            kw = {}
            if fmt in ("xlsx", "xlsm", "xls"):
                kw = {"typed": True}
            o = drive.convert_sheets(sheets, fmt=fmt, channel=ch, args=args, render_kw=kw)
            ref = ref_plain
            if ch in ("path", "pathlike"):
                if ref_stem is None:
                    ref_stem = drive.call_convert(render.to_dict(sheets, fallback_form_name=stem), **args)
                ref = ref_stem
            ctx.ctr("renderings_compared")
            ctx.case(sig=f"{sig}|{fmt}|{ch}|{variant}")
            d = outcome_diff(ref, o)
            if d and fmt == "md" and d[0] == "outcome" and not o.ok and "missing mapping for 'None'" in (o.exc_msg or "") and variant.startswith("blank-cols"):
                # one mechanism, whatever the channel or the number of columns: recorded (a pinned test asserts this very error)
                ctx.viol("differs:md:data-under-a-blank-header-cell-refused", f"[md/{ch}/{variant}] cells under a header-less column: {o.brief()[:200]}",
                         common.witness(form, fmt=fmt, channel=ch, variant=variant, sheets=_jsonable(sheets)))
                continue
            if d:
                ctx.viol(f"differs:{fmt}:{ch if ch in ('path', 'pathlike', 'bytes_implicit') else 'content'}:{variant}:{d[0]}",
                         f"[{fmt}/{ch}/{variant}] differs from dict reference in {d[0]}: {d[1]}"[:900],
                         common.witness(form, fmt=fmt, channel=ch, variant=variant, sheets=_jsonable(sheets)))


def _jsonable(sheets):
    return {k: [list(h), [[c if isinstance(c, (str, int, float, bool, type(None))) else str(c) for c in r] for r in rows]] for k, (h, rows) in sheets.items()}


def reader_postconditions(ctx, sheets, form, variant):
    from pyxform.xls2json_backends import xls_to_dict, xlsx_to_dict
    want = render.to_dict(sheets)
    for fmt, fn in (("xlsx", xlsx_to_dict), ("xls", xls_to_dict)):
        data = render.render(sheets, fmt, typed=True)
        try:
            got = fn(data)
        except Exception as e:  # noqa: BLE001
            ctx.viol(f"reader:{fmt}:raised:{type(e).__name__}", f"{fn.__name__} raised {type(e).__name__}: {e}", common.witness(form, variant=variant, sheets=_jsonable(sheets)))
            continue
        ctx.ctr("reader_postconditions")
        for sh in want:
            if sh == "sheet_names":
                if list(got.get(sh, [])) != list(want[sh]):
                    ctx.viol(f"reader:{fmt}:sheet_names", f"{got.get(sh)} vs {want[sh]}", common.witness(form, variant=variant))
                continue
            g = got.get(sh)
            w = want[sh]
            if sh.endswith("_header"):
                g = [dict(x) for x in (g or [])]
            if g != w:
                # locate first differing cell
                where = ""
                if isinstance(w, list) and isinstance(g, list):
                    if len(w) != len(g):
                        where = f"{len(g)} rows read, {len(w)} expected"
                    else:
                        for ri, (a, b) in enumerate(zip(g, w)):
                            if a != b:
                                ks = [k for k in set(a) | set(b) if a.get(k) != b.get(k)]
                                where = f"row {ri + 2} col {ks[0]!r}: read {a.get(ks[0])!r}, expected {b.get(ks[0])!r}"
                                break
                kind = "rows-lost" if "rows read" in where else "cell-value"
                ctx.viol(f"reader:{fmt}:{kind}:{variant.split('=')[0]}", f"{fn.__name__} sheet {sh}: {where}", common.witness(form, variant=variant, sheets=_jsonable(sheets)))
                break


def run_shard(ctx):
    pl = plan(ctx.tier, ctx.seed)
    for i in range(pl["n"]):
        if not ctx.mine(i):
            continue
        rng = ctx.rng("case", i)
        form = base_form(rng, i)
        sheets = form.to_sheets()
        sig = common.feature_sig(form)
        allch = (i % 7 == 0) or ctx.tier == "thorough"
        # (1) plain content through every container
        fmts = ["xlsx", "xls", "xlsm"] + (["md", "csv"] if md_representable(sheets) else [])
        compare_all(ctx, form, sheets, sig, "plain", fmts, rng, all_channels=allch)
        if i < 2:
            ctx.sample({"form_md": common.sheets_to_md(sheets)[:1200], "containers": fmts, "observed": "all renderings equal to dict reference"})
        # (2) typed / noisy cells (spreadsheets only)
        ts = typify(sheets, rng)
        compare_all(ctx, form, ts, sig, "typed", ["xlsx", "xls"], rng)
        reader_postconditions(ctx, ts, form, "typed")
        # (2a') the dict a table reader hands over (csv.DictReader and the like): every row carries every header, blank cells spelt "" or blanks
        if i % 2 == 0:
            refb = drive.call_convert(render.to_dict(sheets), **dict(form.args))
            if refb.ok or refb.exc_is_pyxform:
                db = render.to_dict(sheets)
                filled = 0
                for shn, (hdrs_, _rows) in sheets.items():
                    key_ = shn.strip().lower()
                    if key_ not in db:
                        continue
                    for rd_ in db[key_]:
                        if not rd_:
                            continue  # a blank spacer row stays blank
                        for h_ in hdrs_:
                            if isinstance(h_, str) and h_ not in rd_:
                                rd_[h_] = rng.choice(["", "", " ", "  ", "\t", "\u00a0"])
                                filled += 1
                o = drive.call_convert(db, **dict(form.args))
                if i % 4 == 0:
                    # ... and the caller keeps its dict and converts it again (first plain, then pretty-printed, then plain): the third answer counts
                    drive.call_convert(db, pretty_print=True, **dict(form.args))
                    o = drive.call_convert(db, **dict(form.args))
                    ctx.ctr("dict_converted_three_times")
                ctx.ctr("dict_blank_cell_cases")
                ctx.case(sig=f"{sig}|dict|blank-cells")
                d = outcome_diff(refb, o)
                if d and filled:
                    ctx.viol(f"differs:dict:blank-cells-spelt-as-empty-text:{d[0]}", f"[dict] the same rows with their blank cells spelt as '' / blanks ({filled} cells) "
                             f"differ from the rows without them in {d[0]}: {d[1]}"[:900], common.witness(form, fmt="dict", variant="blank-cells", sheets=_jsonable(sheets)))
        # (2b) the same typed workbook as other producers encode it (inline strings, rich-text runs with phonetic text, formula cells
        #      with cached values, no <dimension>, CR LF between rows): every encoding must read like the openpyxl encoding of the cells
        if i % 3 == 0 or ctx.tier == "thorough":
            ref_t = drive.call_convert(render.to_dict(ts), **dict(form.args))
            if ref_t.ok or ref_t.exc_is_pyxform:
                base_x = render.to_xlsx(ts, typed=True)
                for st in render.FOREIGN_XLSX_STYLES:
                    fx = render.xlsx_foreign(base_x, st)
                    ch = rng.choice(["bytes", "bytesio", "bytes_implicit"])
                    import io as _io
                    o = (drive.call_convert(fx, file_type=".xlsx", **dict(form.args)) if ch == "bytes" else
                         drive.call_convert(_io.BytesIO(fx), file_type=".xlsx", **dict(form.args)) if ch == "bytesio" else drive.call_convert(fx, **dict(form.args)))
                    ctx.ctr("foreign_encodings_compared")
                    ctx.case(sig=f"{sig}|xlsx-{st}|{ch}|typed")
                    d = outcome_diff(ref_t, o)
                    if d:
                        ctx.viol(f"differs:xlsx:foreign-encoding:{st}:{d[0]}", f"[xlsx/{st}/{ch}] the same cells written as another producer writes them "
                                 f"differ from the dict reference in {d[0]}: {d[1]}"[:900], common.witness(form, fmt="xlsx", channel=ch, variant=f"foreign={st}", sheets=_jsonable(ts)))
        # (2a) one column holding boolean-typed and number-typed cells of equal value (TRUE beside 1, FALSE beside 0): each cell keeps its own text
        if i % 4 == 1:
            mx = {name: (list(h), [list(r) for r in rows]) for name, (h, rows) in sheets.items()}
            pool = [True, 1, False, 0, 1.0, 0.0, True, False]
            rng.shuffle(pool)
            h, rows = mx["survey"]
            h.append("bind::ex:flag")
            for ri, r in enumerate(rows):
                r.append(pool[ri % len(pool)] if r[0] and not str(r[0]).startswith("end") else None)
            if "choices" in mx:
                h, rows = mx["choices"]
                h.append("flagcol")
                for ri, r in enumerate(rows):
                    r.append(pool[(ri + 3) % len(pool)])
            mx.setdefault("settings", (["form_id"], [[f"mixed{i}"]]))
            hs, rs = mx["settings"]
            if "namespaces" not in hs:
                hs.append("namespaces")
                rs[0].append('ex="http://example.org/ex"')
            else:
                rs[0][hs.index("namespaces")] = ((rs[0][hs.index("namespaces")] or "") + ' ex="http://example.org/ex"').strip()
            ctx.ctr("mixed_bool_number_columns")
            compare_all(ctx, form, mx, sig, "typed-mixed-column", ["xlsx", "xls"], rng)
        # (2z) markdown delimiter rows (| --- | --- |, |:--|--:|) under the header rows, and a header that occurs twice: the same outcome from every container
        if i % 6 == 2 and md_representable(sheets):
            ref = drive.convert_sheets(sheets, fmt="dict", args=dict(form.args))
            for sep in (("---", True), ("---", False), (":---:", True), ("-", True), (":--", False)):
                o = drive.convert_sheets(sheets, fmt="md", args=dict(form.args), render_kw={"separator": sep})
                ctx.ctr("renderings_compared")
                ctx.ctr("md_delimiter_row_cases")
                ctx.case(sig=f"{sig}|md|delimiter-row|{sep}")
                d = outcome_diff(ref, o)
                if d:
                    ctx.viol(f"differs:md:delimiter-row:{'spaced' if sep[1] else 'tight'}:{d[0]}", f"markdown with the delimiter row {sep[0]!r} ({'with' if sep[1] else 'without'} blanks) under each header row: {d[1]}",
                             common.witness(form, fmt="md", variant="delimiter-row", separator=list(sep)))
        if i % 6 == 4:
            dh, drows = sheets["survey"]
            if "label" in dh:
                dup = dict(sheets)
                at = dh.index("label")
                dup["survey"] = (list(dh) + ["label"], [list(r) + [f"second {k}" if r[at] else None] for k, r in enumerate(drows)])
                outs = {}
                for fmt in ["xlsx", "xls"] + (["md", "csv"] if md_representable(dup) else []):
                    o = drive.convert_sheets(dup, fmt=fmt, args=dict(form.args))
                    outs[fmt] = "converted" if o.ok else ("refused" if o.exc_is_pyxform else f"crashed:{o.exc_type}")
                    ctx.ctr("renderings_compared")
                ctx.ctr("duplicate_header_cases")
                ctx.case(sig=f"{sig}|duplicate-header")
                if len(set(outs.values())) > 1:
                    odd = sorted(f_ for f_, v in outs.items() if v != outs["xlsx"])
                    ctx.viol(f"differs:{'+'.join(odd)}:duplicate-header:outcome", f"a survey sheet with two 'label' columns: {outs} (a text container keeps the last cell and drops the other without a word)",
                             common.witness(form, fmt=odd[0], variant="duplicate-header"))
        # (2b) multi-line cells: spreadsheets and quoted CSV fields carry embedded line breaks (markdown cannot)
        if i % 3 == 0:
            ml = {}
            nml = 0
            for name, (hdrs, rows) in sheets.items():
                nr = []
                for r in rows:
                    rr = list(r)
                    for ci, (h, c) in enumerate(zip(hdrs, r)):
                        if isinstance(c, str) and h and str(h).split(":")[0] in ("label", "hint", "constraint_message", "guidance_hint", "form_title") and len(c) > 3 and rng.random() < 0.4 and "${" not in c:
                            k = rng.randint(1, len(c) - 2)
                            rr[ci] = c[:k] + rng.choice(["\n", "\n\n", ",\n", "\n \"q\" "]) + c[k:]
                            nml += 1
                    nr.append(rr)
                ml[name] = (hdrs, nr)
            if nml:
                ctx.ctr("multiline_cell_cases")
                compare_all(ctx, form, ml, sig, "multiline", ["xlsx", "xls", "csv"], rng)
        # (2c) a workbook with further sheets, one of them a near miss of an absent optional sheet: every reader must report the same names
        if i % 4 == 1:
            ns = dict(sheets)
            cand = []
            if "settings" not in ns:
                cand += ["setting", "Settings1", "stettings", "settingss"]
            if "entities" not in ns:
                cand += ["Entitys", "entites", "entities_"]
            if cand:
                nm = rng.choice(cand)
                ns[nm] = (["a", "b"], [["1", "2"]])
                if rng.random() < 0.5:
                    ns["_notes"] = (["n"], [["x"]])
                ctx.ctr("near_miss_sheet_cases")
                compare_all(ctx, form, ns, sig, "near-miss-sheet", ["xlsx", "xls"] + (["md", "csv"] if md_representable(ns) else []), rng)
        # (2d) a path whose suffix is not one of the exact lower-case ones: the file is still recognised and its stem still names the form
        if i % 4 == 2:
            from .C11 import convert_odd_path
            fmt = rng.choice(["xlsx", "xls", "md", "csv"]) if md_representable(sheets) else rng.choice(["xlsx", "xls"])
            suffix = rng.choice({"xlsx": [".XLSX", ".Xlsx", ".xlsm", ".XLSM", ""], "xls": [".XLS", ".Xls", ""], "md": [".MD", ".txt", ".markdown", ""], "csv": [".CSV", ".txt", ""]}[fmt])
            stem = rng.choice(["household", "My Form", "form.v2"])
            try:
                o, used_stem = convert_odd_path(sheets, fmt, stem, suffix, dict(form.args))
            except Exception as e:  # noqa: BLE001
                ctx.ctr("odd_path_render_error")
                o = None
            if o is not None:
                ref = drive.call_convert(render.to_dict(sheets, fallback_form_name=used_stem), **form.args)
                ctx.ctr("renderings_compared")
                ctx.ctr("odd_suffix_paths")
                ctx.case(sig=f"{sig}|{fmt}|oddpath{suffix}")
                d = outcome_diff(ref, o)
                if d:
                    ctx.viol(f"differs:{fmt}:path-odd-suffix:{d[0]}", f"[{fmt} saved as {stem + suffix!r}] differs from dict reference (fallback name {used_stem!r}) in {d[0]}: {d[1]}"[:900],
                             common.witness(form, fmt=fmt, channel="path", variant=f"odd-suffix{suffix}", sheets=_jsonable(sheets)))
        # (2e) cell text full of pipe characters (a regex, a list): CSV must still be recognised as CSV when no file_type is given
        if i % 5 == 3:
            ps = dict(sheets)
            h, rows = ps["survey"]
            if "constraint" not in h:
                h = h + ["constraint"]
                rows = [r + [None] for r in rows]
            ci = h.index("constraint")
            tgt = [k for k, r in enumerate(rows) if r[0] in ("text", "integer", "decimal")]
            if tgt:
                rows = [list(r) for r in rows]
                rows[tgt[0]][ci] = "regex(., 'a|b|c|d|e|f|g')"
                ps["survey"] = (h, rows)
                ctx.ctr("pipe_text_cases")
                compare_all(ctx, form, ps, sig, "pipes-in-cell", ["csv", "xlsx"], rng, all_channels=True)
        # (2e') what was converted before must not matter when the type is not given: a conversion of the other text container (which a reader may
        # remember) comes first, then this form - full of commas for markdown, of pipes for CSV - by every channel that leaves the type open
        if i % 5 == 1 and md_representable(sheets):
            cs = {k: (list(h_), [list(r_) for r_ in rows_]) for k, (h_, rows_) in sheets.items()}
            h, rows = cs["survey"]
            if "calculation" not in h:
                h.append("calculation")
                for r_ in rows:
                    r_.append(None)
            nr = [None] * len(h)
            nr[h.index("type")], nr[h.index("name")], nr[h.index("calculation")] = "calculate", f"commas{i}", "if(1 = 1, concat('a, b', ',', 'c,d'), 'e, f, g')"
            rows.append(nr)
            ref = drive.convert_sheets(cs, fmt="dict", args=dict(form.args))
            other = {"survey": (["type", "name", "label"], [["text", "prev", "a|b|c, d, e, f, g"]])}
            for fmt, first in (("md", "csv"), ("csv", "md")):
                for ch in ("bytes_implicit", "bytesio_implicit"):
                    drive.convert_sheets(other, fmt=first, channel="bytes_implicit")  # the conversion before
                    if ch == "bytes_implicit":
                        o = drive.convert_sheets(cs, fmt=fmt, channel="bytes_implicit", args=dict(form.args))
                    else:
                        import io as _io
                        raw = render.render(cs, fmt)
                        o = drive.call_convert(_io.BytesIO(raw.encode("utf-8")), **dict(form.args))
                    ctx.ctr("renderings_compared")
                    ctx.ctr("reader_history_cases")
                    ctx.case(sig=f"{sig}|{fmt}|after-{first}|{ch}")
                    d = outcome_diff(ref, o)
                    if d:
                        ctx.viol(f"differs:{fmt}:{ch}:after-a-{first}-conversion:{d[0]}", f"{fmt} given without a type right after a {first} conversion in the same process: {d[1]}",
                                 common.witness(form, fmt=fmt, variant=f"after-{first}", channel=ch))
        # (2e'') cell text that looks like container syntax: a leading '#', pipes (escaped by the markdown renderer), a lone hyphen, quotes and commas
        if i % 6 == 5:
            ws = {k: (list(h_), [list(r_) for r_ in rows_]) for k, (h_, rows_) in sheets.items()}
            h, rows = ws["survey"]
            texts = ["#1 priority", "#ff0000", "# not a comment", "a | b | c", "|lead", "-", "---", "say \"hi\", ok", "a,b,,c", "#tag | #other"]
            n_t = 0
            for col in ("label", "hint", "default"):
                if col in h:
                    ci = h.index(col)
                    for r_ in rows:
                        if isinstance(r_[ci], str) and r_[ci] and "${" not in r_[ci] and rng.random() < 0.5 and (col != "default" or r_[0] == "text"):
                            r_[ci] = rng.choice(texts)
                            n_t += 1
            if "choices" in ws and "label" in ws["choices"][0]:
                ci = ws["choices"][0].index("label")
                for r_ in ws["choices"][1][:3]:
                    if isinstance(r_[ci], str):
                        r_[ci] = rng.choice(texts)
                        n_t += 1
            if n_t and md_representable(ws):
                ctx.ctr("container_syntax_text_cases")
                compare_all(ctx, form, ws, sig, "container-syntax-text", ["md", "csv", "xlsx"], rng, all_channels=True)
        # (2d') a supported suffix that is not the file's container, with the container named explicitly: the argument decides
        if i % 8 == 6:
            from .C11 import convert_odd_path
            real = rng.choice(["xlsx", "xls"] + (["md", "csv"] if md_representable(sheets) else []))
            wrong = rng.choice([x_ for x_ in ("xlsx", "xls", "md", "csv") if x_ != real and {x_, real} != {"xlsx", "xlsm"}])
            try:
                o, used_stem = convert_odd_path(sheets, real, "household", "." + wrong, dict(form.args, file_type="." + real))
            except Exception:  # noqa: BLE001
                o = None
            if o is not None:
                ref = drive.call_convert(render.to_dict(sheets, fallback_form_name=used_stem), **form.args)
                ctx.ctr("renderings_compared")
                ctx.ctr("wrong_suffix_with_explicit_type")
                ctx.case(sig=f"{sig}|{real}|saved-as-{wrong}|explicit-type")
                d = outcome_diff(ref, o)
                if d:
                    ctx.viol(f"differs:{real}:path-wrong-suffix-explicit-type:{d[0]}", f"[{real} content saved as 'household.{wrong}', file_type='.{real}' given] differs from dict reference in {d[0]}: {d[1]}"[:900],
                             common.witness(form, fmt=real, channel="path", variant=f"wrong-suffix.{wrong}+explicit-type"))
        # (2f) a header cell that the spreadsheet stores as a number or a boolean (a year, a code): a column like any other unknown column
        if i % 4 == 3:
            hs = copy.deepcopy(sheets)
            shn = rng.choice([s for s in ("survey", "settings") if s in hs])
            h, rows = hs[shn]
            hv = rng.choice([2024, 3.0, 2.5, True, 0])
            h.append(hv)
            for r in rows:
                r.append(rng.choice([None, "x", 5]))
            ctx.ctr("typed_header_cases")
            compare_all(ctx, form, hs, sig, "typed-header", ["xlsx", "xls"], rng)
        # (2g) blank spacer rows on the other sheets (entities, external_choices, settings): not data on any of them
        if i % 5 in (0, 1):
            bs = copy.deepcopy(sheets)
            if "entities" not in bs and i % 5 == 1:
                bs["entities"] = (["list_name", "label"], [["ent", "'x'"]])
            touched = 0
            for shn in ("entities", "external_choices", "settings"):
                if shn in bs:
                    h, rows = bs[shn]
                    pos = rng.randint(0, len(rows) - (1 if shn != "external_choices" else 0)) if rows else 0
                    rows[pos:pos] = [[None] * len(h) for _ in range(rng.choice([1, 2]))]
                    touched += 1
            if touched:
                ctx.ctr("blank_rows_on_other_sheets_cases")
                nb = copy.deepcopy(sheets)
                if "entities" in bs and "entities" not in nb:
                    nb["entities"] = (["list_name", "label"], [["ent", "'x'"]])
                ref = drive.call_convert(render.to_dict(nb), **form.args)  # the same workbook without the spacer rows
                for fmt in ("xlsx", "xls", "dict"):
                    o = drive.convert_sheets(bs, fmt=fmt, args=dict(form.args), render_kw={"typed": True} if fmt != "dict" else None)
                    ctx.ctr("renderings_compared")
                    ctx.case(sig=f"{sig}|{fmt}|blank-rows-other-sheets")
                    d = outcome_diff(ref, o)
                    if d:
                        ctx.viol(f"differs:{fmt}:content:blank-rows-other-sheets:{d[0]}", f"[{fmt}] blank spacer rows on entities/external_choices/settings change the result ({d[0]}): {d[1]}"[:900],
                                 common.witness(form, fmt=fmt, channel="auto", variant="blank-rows-other-sheets", sheets=_jsonable(bs)))
        # (2i) CSV with the sheet name in the first cell of the header row (no row of its own), for all sheets or only some
        if i % 6 == 4 and md_representable(sheets):
            refs = {False: drive.call_convert(render.to_dict(sheets), **form.args), True: drive.call_convert(render.to_dict(sheets, fallback_form_name="stemname"), **form.args)}
            for compact in (True, {"settings", "choices"}, {"survey"}):
                ch = rng.choice(["str", "bytes", "path"])
                o = drive.convert_sheets(sheets, fmt="csv", channel=ch, args=dict(form.args), render_kw={"compact": compact})
                ctx.ctr("renderings_compared")
                ctx.ctr("compact_csv_cases")
                ctx.case(sig=f"{sig}|csv|compact|{compact is True}|{ch}")
                d = outcome_diff(refs[ch == "path"], o)
                if d:
                    ctx.viol(f"differs:csv:content:compact-layout:{d[0]}", f"[csv/{ch}, sheet name on the header row: {compact}] differs from dict reference in {d[0]}: {d[1]}"[:900],
                             common.witness(form, fmt="csv", channel=ch, variant="compact-layout", sheets=_jsonable(sheets)))
        # (2g') text dialects: the same cells as other programs save them - CSV with minimal / non-numeric quoting, LF / CR LF / CR line ends, rows padded
        #       to a rectangle, no final line end; markdown with CR LF, indentation, trailing blanks, blank lines between sheets, tabs around pipes
        if i % 3 == 2 and md_representable(sheets):
            import csv as _csv
            import io as _io2
            refd = drive.call_convert(render.to_dict(sheets), **form.args)
            if refd.ok or refd.exc_is_pyxform:
                multi = any(isinstance(c, str) and ("\n" in c or "\r" in c) for _, (_h, rows_) in sheets.items() for r in rows_ for c in r)
                for _k in range(3):
                    q = rng.choice([_csv.QUOTE_ALL, _csv.QUOTE_MINIMAL, _csv.QUOTE_NONNUMERIC])
                    lt = rng.choice(["\r\n", "\n"] + ([] if multi else ["\r"]))
                    pad = rng.random() < 0.5
                    final = rng.random() < 0.7
                    buf = _io2.StringIO(newline="")
                    w = _csv.writer(buf, quoting=q, lineterminator=lt)
                    width = max(len(h) for h, _r in sheets.values()) + 1 + rng.randint(0, 3)
                    def wr(row):
                        w.writerow(row + [""] * (width - len(row)) if pad else row)
                    for name, (hdrs, rows_) in sheets.items():
                        wr([name])
                        wr([""] + ["" if h is None else h for h in hdrs])
                        for r in rows_:
                            cells = ["" if render.canon_text(c) is None else render.canon_text(c) for c in r]
                            if any(cells):
                                wr([""] + cells)
                    text = buf.getvalue() if final else buf.getvalue().rstrip("\r\n")
                    ch = rng.choice(["str", "bytes", "bytesio"])
                    o = (drive.call_convert(text, file_type=".csv", **form.args) if ch == "str" else drive.call_convert(text.encode("utf-8"), file_type=".csv", **form.args)
                         if ch == "bytes" else drive.call_convert(_io2.BytesIO(text.encode("utf-8")), file_type=".csv", **form.args))
                    ctx.ctr("text_dialect_cases")
                    ctx.case(sig=f"{sig}|csv|dialect|{q}|{lt!r}|{pad}|{final}|{ch}")
                    d = outcome_diff(refd, o)
                    if d:
                        ctx.viol(f"differs:csv:content:dialect:{d[0]}", f"[csv/{ch}; quoting={q} line end={lt!r} padded={pad} final line end={final}] differs from dict reference in {d[0]}: {d[1]}"[:900],
                                 common.witness(form, fmt="csv", channel=ch, variant="dialect", sheets=_jsonable(sheets)))
                md0 = render.to_md(sheets)
                styles = {"crlf": md0.replace("\n", "\r\n"), "indent": "\n".join("   " + l for l in md0.split("\n")), "trailing-blanks": "\n".join(l + "   " for l in md0.split("\n")),
                          "blank-lines": "\n\n".join(md0.split("\n")), "no-final-line-end": md0.rstrip("\n")}
                if "\t" not in md0:
                    styles["tabs"] = md0.replace(" | ", "\t|\t")
                for stn in rng.sample(sorted(styles), 2):
                    ch = rng.choice(["str", "bytes"])
                    t = styles[stn]
                    o = drive.call_convert(t if ch == "str" else t.encode("utf-8"), file_type=".md", **form.args)
                    ctx.ctr("text_dialect_cases")
                    ctx.case(sig=f"{sig}|md|dialect|{stn}|{ch}")
                    d = outcome_diff(refd, o)
                    if d:
                        ctx.viol(f"differs:md:content:dialect:{stn}:{d[0]}", f"[md/{ch}; layout {stn}] differs from dict reference in {d[0]}: {d[1]}"[:900],
                                 common.witness(form, fmt="md", channel=ch, variant=f"dialect-{stn}", sheets=_jsonable(sheets)))
        # (2g'') a workbook with one sheet only, called whatever the spreadsheet program called it (Sheet1, Feuille1, Form): that sheet is the survey, from every container
        if i % 9 == 4:
            one = gen.simple_form([("text", f"only{i}", {"label": "Only"}), ("integer", "n", {"label": "N", "relevant": "${only%d} != ''" % i})])
            one_sheets = {"survey": one.to_sheets()["survey"]}
            ref1 = drive.call_convert(render.to_dict(one_sheets))
            nm = rng.choice(["Sheet1", "Feuille1", "Form", "data", "Tabelle1"])
            renamed = {nm: one_sheets["survey"]}
            for fmt_ in ("xlsx", "xls", "md", "csv"):
                ch = rng.choice(["bytes", "bytesio"])  # (a path would add its stem as the fallback form id: another reference)
                o = drive.convert_sheets(renamed, fmt=fmt_, channel=ch, args={})
                ctx.ctr("single_sheet_workbooks")
                ctx.case(sig=f"single-sheet|{nm}|{fmt_}|{ch}")
                d = outcome_diff(ref1, o)
                if d:
                    ctx.viol(f"differs:{fmt_}:content:single-sheet-with-another-name:{d[0]}", f"[{fmt_}/{ch}] a workbook whose only sheet is called {nm!r} differs from the same sheet called 'survey' in {d[0]}: {d[1]}"[:700],
                             common.witness(one, fmt=fmt_, channel=ch, variant="single-sheet", sheets=_jsonable(renamed)))
        # (2h) text containers saved with a UTF-8 signature (what spreadsheet programs write for "CSV UTF-8"): an encoding mark, not workbook content
        if i % 3 == 1 and md_representable(sheets):
            import tempfile
            fmt = "csv" if i % 2 else "md"
            text = render.render(sheets, fmt)
            raw = b"\xef\xbb\xbf" + text.encode("utf-8")
            ref = ref0 = drive.call_convert(render.to_dict(sheets), **form.args)
            for ch in ("bytes", "str", "bytesio", "path"):
                if ch == "bytes":
                    o = drive.call_convert(raw, file_type="." + fmt, **form.args)
                elif ch == "str":
                    o = drive.call_convert("\ufeff" + text, file_type="." + fmt, **form.args)
                elif ch == "bytesio":
                    import io
                    o = drive.call_convert(io.BytesIO(raw), file_type="." + fmt, **form.args)
                else:
                    d0 = tempfile.mkdtemp(prefix="verif_bom_")
                    pth = os.path.join(d0, "stemname." + fmt)
                    try:
                        with open(pth, "wb") as fh:
                            fh.write(raw)
                        o = drive.call_convert(pth, **form.args)
                    finally:
                        os.unlink(pth)
                        os.rmdir(d0)
                    ref = drive.call_convert(render.to_dict(sheets, fallback_form_name="stemname"), **form.args)
                ctx.ctr("renderings_compared")
                ctx.ctr("utf8_signature_cases")
                ctx.case(sig=f"{sig}|{fmt}|{ch}|bom")
                d = outcome_diff(ref, o)
                if d:
                    ctx.viol(f"differs:{fmt}:content:utf8-signature:{d[0]}", f"[{fmt}/{ch}] a leading UTF-8 signature (BOM) changes the result ({d[0]}): {d[1]}"[:900],
                             common.witness(form, fmt=fmt, channel=ch, variant="utf8-signature", sheets=_jsonable(sheets)))
                ref = ref0
        # (3) empty runs
        k = rng.choice([1, 2, 59, 60, 60])
        sh = rng.choice([s for s in ("survey", "choices") if s in sheets and len(sheets[s][1]) > 1])
        pos = rng.randint(1, len(sheets[sh][1]) - 1) if len(sheets[sh][1]) > 1 else 1
        es = blank_rows(sheets, sh, pos, k)
        if rng.random() < 0.5:
            es = blank_rows(es, sh, len(es[sh][1]), rng.choice([1, 5, 70]))  # trailing blank rows
        variant = f"blank-rows={k}"
        if sh == "survey" and not _rows_balanced(es):
            pass
        compare_all(ctx, form, es, sig, variant, ["xlsx", "xls"], rng)
        reader_postconditions(ctx, es, form, variant)
        ctx.ctr("empty_run_cases")
        j = rng.choice([1, 2, 19, 20, 20])
        sh2 = rng.choice([s for s in ("survey", "choices", "settings", "external_choices", "external_choices") if s in sheets])
        cs = blank_cols(sheets, sh2, rng.randint(1, len(sheets[sh2][0])), j, stray=rng.choice([None, None, "scratch note", "1"]))
        if rng.random() < 0.5:
            cs = blank_cols(cs, sh2, len(cs[sh2][0]), rng.choice([1, 5, 30]))  # trailing blank columns
        variant = f"blank-cols={j}"
        # the text containers can have blank header cells between headers too (a few of them: they have no "run of 20" rule to test)
        compare_all(ctx, form, cs, sig, variant, ["xlsx", "xls"] + (["md", "csv"] if j <= 2 and md_representable(cs) else []), rng)
        reader_postconditions(ctx, cs, form, variant)
        ctx.ctr("empty_run_cases")
        # the same header-less columns with header cells that hold only blanks (a space, a no-break space, a tab typed by accident): still no header
        if i % 2 == 1:
            ws = {n_: (list(h_), [list(r_) for r_ in rows_]) for n_, (h_, rows_) in cs.items()}
            hh = ws[sh2][0]
            for ci_ in range(len(hh)):
                if hh[ci_] is None:
                    hh[ci_] = rng.choice([" ", "  ", "\u00a0", "\t", " \u00a0 "])
            refw = drive.call_convert(render.to_dict(cs), **dict(form.args))
            if refw.ok or refw.exc_is_pyxform:
                for fmt_ in ("xlsx", "xls"):
                    o = drive.convert_sheets(ws, fmt=fmt_, channel=rng.choice(["bytes", "bytesio", "bytes_implicit"]), args=dict(form.args), render_kw={"typed": True})
                    ctx.ctr("blank_text_header_cases")
                    ctx.case(sig=f"{sig}|{fmt_}|blank-text-headers|{j}")
                    d = outcome_diff(refw, o)
                    if d and not ("missing mapping" in (refw.exc_msg or "")):
                        ctx.viol(f"differs:{fmt_}:content:header-cells-holding-only-blanks:{d[0]}", f"[{fmt_}; {j} header cells on '{sh2}' hold only blanks] differs from the same sheet with empty header cells in {d[0]}: {d[1]}"[:900],
                                 common.witness(form, fmt=fmt_, variant="blank-text-headers", sheets=_jsonable(ws)))
    # ---- fixtures: legacy .xls re-rendered as .xlsx must convert identically
    xls_files = common.fixture_files((".xls",))
    for j, path in enumerate(xls_files):
        if not ctx.mine(j):
            continue
        if ctx.tier == "quick" and j % 3:
            continue
        fixture_cross(ctx, path)


def _rows_balanced(sheets):
    return True


def fixture_cross(ctx, path):
    import xlrd
    try:
        wb = xlrd.open_workbook(path)
    except Exception:  # noqa: BLE001
        return
    sheets = {}
    for sh in wb.sheets():
        if sh.nrows == 0:
            sheets[sh.name] = ([], [])
            continue
        rows = []
        for r in range(sh.nrows):
            row = []
            for c in range(sh.ncols):
                cell = sh.cell(r, c)
                if cell.ctype == 3:
                    return  # dates: compared only within spreadsheet formats; skip this workbook
                if cell.ctype in (0, 6):
                    row.append(None)
                elif cell.ctype == 4:
                    row.append(bool(cell.value))
                elif cell.ctype == 2:
                    row.append(cell.value)
                elif cell.ctype == 5:
                    return
                else:
                    row.append(cell.value if cell.value != "" else None)
            rows.append(row)
        hdr = rows[0]
        if any(h is not None and not isinstance(h, str) for h in hdr):
            return
        sheets[sh.name] = (hdr, rows[1:])
    stem = os.path.splitext(os.path.basename(path))[0]
    a = drive.call_convert(path)
    try:
        data = render.to_xlsx(sheets, typed=True)
    except Exception:  # noqa: BLE001
        return
    import tempfile
    d = tempfile.mkdtemp(prefix="verif_fx_")
    p2 = os.path.join(d, stem + ".xlsx")
    try:
        with open(p2, "wb") as fh:
            fh.write(data)
        b = drive.call_convert(p2)
    finally:
        try:
            os.unlink(p2)
            os.rmdir(d)
        except OSError:
            pass
    ctx.ctr("fixture_cross_renderings")
    ctx.case(sig=f"fixture|{stem}")
    dff = outcome_diff(a, b)
    if dff:
        ctx.viol(f"fixture-xls-vs-xlsx:{dff[0]}", f"[{os.path.relpath(path, '/repo')}] legacy .xls vs the same cells as .xlsx: {dff[1]}"[:800], {"fixture": path, "klass": "fixture"})


def replay(w):
    def chk(ctx, wit):
        if wit.get("klass") == "fixture":
            fixture_cross(ctx, wit["fixture"])
            return
        form = common.form_from_witness(wit)
        sheets = {k: (v[0], v[1]) for k, v in wit["sheets"].items()} if "sheets" in wit else form.to_sheets()
        import random
        if "fmt" in wit:
            compare_all(ctx, form, sheets, "replay", wit.get("variant", "plain"), [wit["fmt"]], random.Random(0), all_channels=True)
        reader_postconditions(ctx, sheets, form, wit.get("variant", "plain"))
    return common.replay_with(PROP, w, chk)
