"""C04 — survey rows map one-to-one, in order and nesting, onto instance and body.

Deciding oracle: reference model (vlib/refmodel.py RM.expected_instance / expected_body,
frozen type table) compared with the parsed XForm:
 (i)   primary instance with every jr:template element removed == expected tree exactly
       (rows in sheet order and nesting; generated nodes only where documented: <r>_count,
       <s>_other, table-list helpers, meta with audit/instanceID/instanceName/entity)
 (ii)  every repeat has a jr:template element at its path (shape-tolerant about nesting)
 (iii) every template subtree (duplicate same-named children collapsed) has exactly the
       child names and order of its repeat
 (iv)  body control tree == expected (tag, ref, mediatype, appearance, parameter-derived
       attributes, nesting, repeats wrapped as group+repeat, no control for invisible rows)
 (v)   disabled rows and comment rows produce nothing.
"""
from __future__ import annotations

import re

from .. import common, drive, gen, refmodel, xf
from ..model import Form, Row
from ..refmodel import ANY, ANYATTRS

PROP = "C04"
LEVEL = "exploration"
TECHNIQUE = "runtime reference-model monitor: expected instance/body trees computed from the abstract form vs the parsed XForm"
RULE = ("cases = generated forms over every canonical question type x legal parameters/appearances, nested groups/repeats to depth 5, "
        "interleavings named in the property (repeat after nested group, count helper inside group, or_other last child, table-list), "
        "disabled and comment rows at random sites; non-trivial = converted and both trees compared; distinct = distinct form feature signatures")
ASSUMPTIONS = ["canonical type spellings only (aliases are C13's)", "attribute order ignored; item/itemset internals are C09's; template nesting is shape-tolerant"]

ALL_TYPES = (gen.INPUT_TYPES + gen.UPLOAD_TYPES + gen.HIDDEN_TYPES + gen.META_TYPES + ["range", "start-geopoint", "background-audio",
             "xml-external", "csv-external", "simserial", "subscriberid", "barcode"])


def plan(tier, seed):
    n = 2000 if tier == "quick" else 30000
    return {"shards": 16, "timeout": 900 if tier == "quick" else 3600, "n": n,
            "floors": {"instances_compared": n // 2, "bodies_compared": n // 2, "templates_checked": n // 4, "distinct": 100}}


def make_form(rng, i):
    cfg = common.rich_cfg(rng, max_depth=rng.choice([2, 3, 5]), p_or_other=rng.choice([0, 0.3]), p_repeat_count=0.6, p_parameters=0.7,
                          p_appearance=0.4, p_trigger=rng.choice([0, 0.2]), audit=0.3, p_upload=0.15, p_hidden=0.15, p_meta=0.1, p_range=0.08,
                          p_body_extra=0.1, p_select=0.3)
    f = gen.gen_form(rng, cfg)
    rows = [r for r, _ in f.walk()]
    secs = [r for r in rows if r.is_section()]

    def place(row):
        tgt = rng.choice(secs + [None]) if secs else None
        lst = tgt.children if tgt is not None else f.survey
        lst.insert(rng.randint(0, len(lst)), row)

    # the legacy 'flat' setting explicitly switched off: nothing is flattened
    if rng.random() < 0.08:
        f.settings["flat"] = rng.choice(["no", "false", "No", "FALSE"])
    # what makes a row with a calculation (or a trigger) user-visible: a label, or a hint alone
    if rng.random() < 0.3:
        for j in range(rng.randint(1, 3)):
            t = rng.choice(["text", "integer", "decimal", "date", f"select_one {next(iter(f.choices))}"])
            shown = rng.choice(["label", "hint", "both", "none", "image", "audio"])
            cells = {"calculation": rng.choice(["1 + 1", "today()", "'x'"])}
            if shown in ("label", "both"):
                cells["label"] = f"calc shown {j}"
            if shown in ("hint", "both"):
                cells["hint"] = f"calc hint {j}"
            if shown in ("image", "audio"):
                cells[shown] = f"calc{j}." + ("png" if shown == "image" else "mp3")  # media only: still something the user is shown
            place(Row("q", t, f"cv{i}_{j}", cells))
    k = rng.randrange(9)
    if k == 0:  # every type at least sometimes
        for t in rng.sample(sorted(set(ALL_TYPES)), 4):
            cells = {} if t in gen.HIDDEN_TYPES + gen.META_TYPES + ["start-geopoint", "background-audio", "xml-external", "csv-external", "simserial", "subscriberid"] else {"label": f"lbl {t}"}
            if t == "calculate":
                cells["calculation"] = "1 + 1"
            place(Row("q", t, f"ty_{t.replace('-', '_')}_{i}", cells))
    elif k == 1:  # disabled + comment rows
        for j in range(rng.randint(1, 3)):
            place(Row("q", "text", f"dis{i}_{j}", {"label": "off", "disabled": rng.choice(["yes", "true", "TRUE"])}))
        place(Row("q", "text", f"en{i}", {"label": "on", "disabled": rng.choice(["no", "false"])}))
        # comment rows: no type, no name, no label - whatever else the author scribbled into the row's other cells
        for _ in range(rng.randint(1, 2)):
            col = rng.choice(["hint", "parameters", "appearance", "relevant", "constraint", "default", "choice_filter", "repeat_count", "calculation", "trigger"])
            f.survey.insert(rng.randint(0, len(f.survey)), Row("raw", None, None, {col: rng.choice(["just a comment", "TODO: ask the team", "section 2 starts here", "x = y = z"])}))
    elif k == 2:  # table-list
        ln = next(iter(f.choices))
        sk = rng.choice(["group", "group", "repeat"])  # table-list is honoured on repeats too
        g = Row(sk, f"begin {sk}", f"tl{i}", {"appearance": rng.choice(["table-list", "table-list compact"])})
        v = rng.random()
        if v < 0.55:
            g.cells["label"] = "TL"
        elif v < 0.8:
            g.cells["hint"] = "TL hint only"  # a hint alone also asks for the generated label row
        if v < 0.2:
            g.cells["hint"] = "TL hint too"
        g.children = [Row("q", f"{rng.choice(['select_one', 'select_multiple'])} {ln}", f"tl{i}_{j}", {"label": f"t{j}"}) for j in range(rng.randint(1, 3))]
        if rng.random() < 0.3:
            g.children.insert(0, Row("q", "note", f"tl{i}_n", {"label": "before"}))
        if rng.random() < 0.3 and len(g.children) >= 2:
            # an ordinary group nested among the selects of the table-list section: it neither joins the table nor ends it for the selects after it
            at_ = rng.randint(1, len(g.children) - 1)
            g.children.insert(at_, Row("group", "begin group", f"tl{i}_in", {"label": "inner"}, [Row("q", "text", f"tl{i}_int", {"label": "t"}), Row("q", f"select_one {ln}", f"tl{i}_ins", {"label": "s"})]))
        place(g)
        # selects that FOLLOW the table-list section (same list and another one) keep their own appearance
        holder = next((x.children for x, _ in f.walk() if x.is_section() and g in x.children), f.survey)
        at = holder.index(g) + 1
        other = [l for l in f.choices if l != ln]
        holder.insert(at, Row("q", f"select_one {ln}", f"tl{i}_after", {"label": "after", "appearance": rng.choice(["minimal", "quick", "likert"])}))
        if other and rng.random() < 0.6:
            holder.insert(at + 1, Row("q", f"select_multiple {other[0]}", f"tl{i}_after2", {"label": "after2"}))
    elif k == 3:  # repeat directly after nested group; count helper inside group
        inner = Row("group", "begin group", f"ng{i}", {"label": "ng"}, [Row("group", "begin group", f"ng{i}b", {"label": "b"}, [Row("q", "text", f"ng{i}q", {"label": "q"})])])
        rep = Row("repeat", "begin repeat", f"rp{i}", {"label": "rp", "repeat_count": "1 + 2"}, [Row("q", "integer", f"rp{i}q", {"label": "q"})])
        holder = Row("group", "begin group", f"hold{i}", {"label": "h"}, [inner, rep])
        place(holder)
    elif k == 4:  # or_other as last child of nested group
        ln = next(iter(f.choices))
        g = Row("group", "begin group", f"og{i}", {"label": "og"}, [Row("q", "text", f"og{i}a", {"label": "a"}),
                                                                       Row("q", f"select_one {ln} or_other", f"og{i}s", {"label": "s"}, meta={"or_other": True})])
        place(g)
    elif k == 5:  # repeat > group > repeat
        inner = Row("repeat", "begin repeat", f"ir{i}", {"label": "ir"}, [Row("q", "text", f"ir{i}q", {"label": "q"})])
        mid = Row("group", "begin group", f"mg{i}", {"label": "mg"}, [Row("q", "text", f"mg{i}q", {"label": "q"}), inner])
        outer = Row("repeat", "begin repeat", f"or{i}", {"label": "or"}, [mid, Row("q", "text", f"or{i}z", {"label": "z"})])
        place(outer)
    elif k == 6:  # instance_name, omit_instanceID, entities
        if rng.random() < 0.5:
            f.settings["instance_name"] = "concat('a', 'b')"
        if rng.random() < 0.3:
            f.settings["omit_instanceID"] = "yes"
        if rng.random() < 0.5:
            f.entities = {"list_name": "ent", "label": "concat('e', '1')"}
    elif k == 8:  # the author's own 'meta' group: with omit_instanceID and nothing else generated there is no generated block, the name is free
        has_audit = any(r.type == "audit" for r, _ in f.walk())
        if not has_audit and not f.entities and not f.settings.get("instance_name"):
            f.settings["omit_instanceID"] = rng.choice(["yes", "true", "TRUE"])
            f.survey.insert(rng.randint(0, len(f.survey)), Row("group", "begin group", "meta", {"label": "About this record"},
                            [Row("q", "text", f"my_id{i}", {"label": "record id"}), Row("q", "calculate", "instanceID", {"calculation": "concat('uuid:', uuid())"}),
                             Row("q", "select_one " + next(iter(f.choices)), f"meta_sel{i}", {"label": "kind"})] if f.choices else [Row("q", "text", f"my_id{i}", {"label": "record id"})]))
    return f


def tree_diff(exp, got, path=""):
    """First difference between two (name, [children]) trees."""
    if exp[0] != got[0]:
        return f"{path}: expected node {exp[0]!r}, found {got[0]!r}"
    here = f"{path}/{exp[0]}"
    en = [c[0] for c in exp[1]]
    gn = [c[0] for c in got[1]]
    if en != gn:
        missing = [x for x in en if x not in gn]
        extra = [x for x in gn if x not in en]
        kind = "missing" if missing else ("extra" if extra else "order")
        return f"{here}: children {kind}: expected {en}, found {gn}"
    for a, b in zip(exp[1], got[1]):
        d = tree_diff(a, b, here)
        if d:
            return d
    return None


def body_diff(exp, got, path="body"):
    """exp: [(tag, ref, attrs, kids)], got: xf.controls() [(qname, ref, attrs, el, kids)]"""
    es = [(t, r) for t, r, _, _ in exp]
    gs = [(t, r) for t, r, _, _, _ in got]
    if es != gs:
        missing = [x for x in es if x not in gs]
        extra = [x for x in gs if x not in es]
        kind = "missing-control" if missing else ("extra-control" if extra else "order")
        return kind, f"{path}: {kind}: expected {es[:12]}, found {gs[:12]}"
    for (t, r, attrs, kids), (gt, gr, gattrs, el, gkids) in zip(exp, got):
        if attrs is not ANYATTRS:
            ga = {k: v for k, v in gattrs.items() if k not in ("ref", "nodeset")}
            for k in set(attrs) | set(ga):
                if k not in attrs:
                    return f"extra-attr:{k}", f"{path}/{t}[{r}]: unexpected attribute {k}={ga[k]!r}"
                if k not in ga:
                    return f"missing-attr:{k}", f"{path}/{t}[{r}]: attribute {k} missing (expected {attrs[k]!r})"
                if attrs[k] is not ANY and attrs[k] != ga[k]:
                    return f"wrong-attr:{k}", f"{path}/{t}[{r}]: attribute {k}={ga[k]!r}, expected {attrs[k]!r}"
        d = body_diff(kids, gkids, f"{path}/{t}[{r}]")
        if d:
            return d
    return None


def collapse(t):
    """Collapse same-named duplicate children (template + ordinary copy) keeping first occurrence."""
    seen = []
    kids = []
    for c in t[1]:
        if c[0] in seen:
            continue
        seen.append(c[0])
        kids.append(collapse(c))
    return (t[0], kids)


def check(ctx, form, sig, sample=False, fmt="dict", sheets=None):
    o = drive.convert_sheets(sheets if sheets is not None else form.to_sheets(), fmt=fmt, args=form.args)
    if not o.ok:
        ctx.ctr("rejected")
        if not o.exc_is_pyxform:
            ctx.ctr("internal_exception_seen(C17's business)")
        else:
            # every form of this generator is valid by construction: a refusal means that some row (a comment row, a disabled row, a generated
            # helper) was not mapped the way the statement says - there is no instance and no body to compare at all
            ctx.case(sig=sig + "|refused")
            ctx.viol("valid-form-refused:" + "-".join(re.sub(r"\[row : \d+\]|'[^']*'|\d+", "", o.exc_msg or "").split()[:6]), f"{o.brief()[:300]}", common.witness(form))
        return
    try:
        p = xf.Parsed(o.xform)
    except xf.XFError:
        ctx.ctr("unparseable_output(C01's business)")
        return
    rm = refmodel.RM(form)
    ctx.case(sig=sig)
    wit = lambda **kw: common.witness(form, **kw)  # noqa: E731
    # (i) instance without templates
    exp = rm.expected_instance()
    got = p.instance_tree(strip_templates=True)
    ctx.ctr("instances_compared")
    d = tree_diff(exp, got)
    if d:
        kind = "missing" if "children missing" in d else ("extra" if "children extra" in d else ("order" if "order" in d else "name"))
        gen_kind = ""
        for tok in ("_count", "_other", "generated_table_list_label", "reserved_name_for_field_list_labels", "meta", "instanceID", "instanceName", "entity", "audit"):
            if tok in d:
                gen_kind = ":" + tok.strip("_")
                break
        ctx.viol(f"instance:{kind}{gen_kind}", d[:700], wit(part="instance"))
    # (ii)/(iii) templates
    for e in rm.entries:
        if e.kind != "repeat":
            continue
        nodes = p.resolve(e.path)
        ctx.ctr("templates_checked")
        tm = [n for n in nodes if p.is_template(n)]
        if not tm:
            ctx.viol("template:missing", f"repeat {e.path} has no jr:template copy anywhere in the instance", wit(part="template"))
            continue
        ordinary = [n for n in nodes if not p.is_template(n) and not any(p.is_template(a) for a in n.iterancestors())]
        want = None
        for n in nodes:
            if not p.is_template(n) and not any(p.is_template(a) for a in n.iterancestors()):
                want = collapse(p.instance_tree(n, strip_templates=True))
                break
        for t in tm:
            shape = collapse(p.instance_tree(t))
            if want is not None and tree_diff(want, shape):
                ctx.viol("template:shape-differs", f"jr:template of {e.path}: {tree_diff(want, shape)}"[:600], wit(part="template"))
                break
    # (iv) body
    ctx.ctr("bodies_compared")
    bd = body_diff(rm.expected_body(), p.controls())
    if bd:
        ctx.viol(f"body:{bd[0]}", bd[1][:700], wit(part="body"))
    if sample:
        ctx.sample({"form_md": common.sheets_to_md(form.to_sheets())[:1500], "expected_instance": str(exp)[:600], "observed": "instance, templates and body as expected"})


LEGACY_TYPE_PAIRS = [("select one from l1", "select_one l1"), ("select1 l1", "select_one l1"), ("select all that apply from l1", "select_multiple l1"), 
                     ("select one from file f.csv", "select_one_from_file f.csv"), ("select multiple from file f.csv", "select_multiple_from_file f.csv"),
                     ("select_multiple_from_file f.xml", "select multiple from file f.xml"), 
                     ("string", "text"), ("int", "integer"), ("gps", "geopoint"), ("photo", "image"), ("add date prompt", "date"), ("q geotrace", "geotrace"), ("add note prompt", "note"),
                     ("select one from l1 or_other", "select_one l1 or specify other"), ("begin_group", "begin group"), ("begin looped group", "begin repeat")]


def legacy_type_pairs(ctx):
    """Every spelling of a question type that the type dictionary knows gives the row the control element, media type and bind type of the type."""
    for k, (a_, b_) in enumerate(LEGACY_TYPE_PAIRS):
        for pos in ("top", "group", "repeat"):
            if not ctx.mine(k * 3 + ("top", "group", "repeat").index(pos)):
                continue
            outs = []
            for t in (a_, b_):
                cells = {"label": "L"}
                if "external" in t:
                    cells["choice_filter"] = "name = ${src}"
                if t.startswith("begin"):
                    row = Row("group" if "group" in t and "looped" not in t else "repeat", t, "tgt", cells, [Row("q", "text", "inner", {"label": "I"})])
                    row.meta["end_type"] = {"begin_group": "end_group", "begin group": "end group", "begin looped group": "end looped group", "begin repeat": "end repeat"}[t]
                else:
                    row = Row("q", t, "tgt", cells)
                wrapped = row if pos == "top" else Row(pos, f"begin {pos}", "wrap", {"label": "W"}, [row])
                f = Form()
                f.survey = [Row("q", "text", "src", {"label": "S"}), wrapped]
                f.choices = {"l1": [{"name": "a", "label": "A"}, {"name": "b", "label": "B"}]}
                f.external_choices = [{"list_name": "l1", "name": "x", "label": "X"}] if "external" in t else []
                o = drive.convert_form(f)
                if not o.ok:
                    outs.append(("refused", o.brief()[:120]))
                    continue
                p = xf.Parsed(o.xform)

                def flat(cs, acc):
                    for q_, ref, attrs, el, kids in cs:
                        acc.append((q_, ref, tuple(sorted((a, v) for a, v in attrs.items() if a in ("mediatype", "appearance", "query")))))
                        flat(kids, acc)
                    return acc
                binds = sorted((b.get("nodeset"), b.get("type")) for b in p.binds())
                outs.append(("ok", tuple(flat(p.controls(), [])), tuple(binds)))
            ctx.ctr("legacy_type_pairs")
            ctx.case(sig=f"legacy-type|{a_}|{pos}")
            if outs[0] != outs[1]:
                what = "outcome" if outs[0][0] != outs[1][0] else ("controls" if outs[0][1] != outs[1][1] else "bind types")
                ctx.viol(f"type-spelling:{what}-differ:{b_.split()[0]}", f"type {a_!r} at {pos}: {str(outs[0])[:300]}; its other spelling {b_!r}: {str(outs[1])[:300]}", {"klass": "legacy-type", "a": a_, "b": b_, "pos": pos})


def include_forms(ctx):
    """Sections pulled in with 'include' rows through the builder API, the same section in one to three places (a group, a group inside a repeat):
    every inclusion has its own nodes in its own place of the instance, and its own controls nested in the control of the section that includes it."""
    from .. import apiseq, xf
    for i in range(24):
        if not ctx.mine(i):
            continue
        rng = ctx.rng("include", i)
        try:
            sv, info = apiseq.include_survey(rng)
            p = xf.Parsed(sv.to_xml(validate=False, pretty_print=False))
        except Exception as e:  # noqa: BLE001
            ctx.viol(f"include:raised:{type(e).__name__}", f"{e}"[:300], {"klass": "include"})
            continue
        ctx.case(sig=f"include|{info['n_includes']}|{i}")
        ctx.ctr("include_forms")
        wit = {"klass": "include", "main_md": info["main_md"]}
        byref = {}
        for el in p.body.iter():
            if isinstance(el.tag, str) and (el.get("ref") or el.get("nodeset")) and xf.local(el.tag) not in ("setvalue", "setgeopoint", "label", "hint", "value", "itemset"):
                byref.setdefault(el.get("ref") or el.get("nodeset"), []).append(el)
        for n in info["included_nodes"]:
            parent = n.rsplit("/", 1)[0]
            ctx.ctr("bodies_compared")
            ctx.ctr("instances_compared")
            if len(p.resolve(n)) < 1:
                ctx.viol("include:instance:missing", f"{n} is not in the instance ({info['n_includes']} inclusions of one section)", wit)
                continue
            els = byref.get(n, [])
            if len(els) != 1:
                ctx.viol("include:body:control-count", f"{n}: {len(els)} controls ({info['n_includes']} inclusions of one section)", wit)
                continue
            anc = els[0].getparent()
            while anc is not None and not (anc.get("ref") or anc.get("nodeset")):
                anc = anc.getparent()
            got = None if anc is None else (anc.get("ref") or anc.get("nodeset"))
            if got != parent:
                ctx.viol("include:body:control-nested-in-another-section", f"the control of {n} sits in the control of {got!r}, its section is {parent!r}", wit)
        # instance order inside each inclusion: street, then town
        for g in sorted({n.rsplit("/", 1)[0] for n in info["included_nodes"]}):
            for node in p.resolve(g):
                names = [xf.local(c.tag) for c in node if isinstance(c.tag, str)]
                if names[-2:] != ["street", "town"] and names != ["street", "town"]:
                    ctx.viol("include:instance:children", f"{g} has children {names}, the included section is street, town", wit)


def run_shard(ctx):
    legacy_type_pairs(ctx)
    include_forms(ctx)
    pl = plan(ctx.tier, ctx.seed)
    for i in range(pl["n"]):
        if not ctx.mine(i):
            continue
        rng = ctx.rng("case", i)
        form = make_form(rng, i)
        fmt, sheets, extra = "dict", None, ()
        if i % 7 == 3:
            # spreadsheet layout noise that must not cost a single row or column: a long run (<= 60) of blank rows between two top-level parts of the
            # form, empty spacer columns inside the header row
            fmt = rng.choice(["xlsx", "xls"])
            k = rng.choice([1, 20, 21, 30, 45, 60])
            at = rng.randint(1, len(form.survey)) if form.survey else 0
            form.survey[at:at] = [Row("raw", None) for _ in range(k)]
            sheets = form.to_sheets()
            h, rows = sheets["survey"]
            nsp = rng.choice([0, 1, 2, 3])
            pos = rng.randint(2, len(h))
            sheets["survey"] = (h[:pos] + [None] * nsp + h[pos:], [r[:pos] + [None] * nsp + r[pos:] for r in rows])
            extra = (fmt, k > 20, nsp)
            ctx.ctr("spreadsheet_layout_cases")
        elif i % 7 == 5:
            fmt = "dict_twice"  # the same workbook dict converted a second time: judged on the second result
            extra = ("twice",)
            ctx.ctr("same_dict_converted_twice_cases")
        check(ctx, form, common.feature_sig(form, extra=(i % 8,) + extra), sample=(i < 2), fmt=fmt, sheets=sheets)


def replay(w):
    def chk(ctx, wit):
        if wit.get("klass") == "legacy-type":
            legacy_type_pairs(ctx)
            return
        if wit.get("klass") == "include":
            include_forms(ctx)
            return
        check(ctx, common.form_from_witness(wit), "replay")
    return common.replay_with(PROP, w, chk)
