"""C10 — defaults and triggered calculations are applied exactly once.

Deciding oracle: conservation-style monitor over the parsed XForm.  For every row with a
default: occurrences of the literal in instance nodes (ordinary copy and every
jr:template copy) and setvalue actions targeting the node must match exactly one legal
pattern:
  static  -> literal text in every copy of the node, no setvalue;
  dynamic -> node empty everywhere, exactly one setvalue(ref=node, value=expr): in the
             model with event odk-instance-first-load when no repeat encloses the node;
             a direct child of the innermost enclosing <repeat> with events
             'odk-instance-first-load odk-new-repeat' otherwise, and none in the model.
A calculation with a trigger -> exactly one setvalue (odk:setgeopoint for
background-geopoint) with event xforms-value-changed nested in the trigger's control,
ref = the calculated node, and no bind/@calculate.
The static/dynamic classification itself is judged only on unambiguous spellings (own
classifier); ambiguous ones are judged on exactly-once and placement.  H-dyn records
default_is_dynamic's answers against the same classifier.
"""
from __future__ import annotations

import itertools
import re

from .. import common, drive, gen, refmodel, render, xf
from ..model import Form, Row
from ..refmodel import base_type

PROP = "C10"
LEVEL = "exploration"
TECHNIQUE = "runtime conservation monitor: literal occurrences vs setvalue actions per defaulted node (placement, events, exactly-once) + independent static/dynamic classifier + hook on default_is_dynamic"
RULE = ("cases = (question type, default text class, position in {top, group, repeat, nested repeats, group-in-repeat-in-group}) enumerated, "
        "trigger/target pairings over positions, plus random W-core forms with defaults and triggers; non-trivial = converted and >=1 defaulted or "
        "triggered row judged; distinct = distinct (type, default class, position | trigger position pair | form signature)")
ASSUMPTIONS = ["ambiguous default spellings (a-b, x[1], 1-1) are judged on exactly-once and placement only"]

STATIC = ["hello", "hello world", "7", "2.5", "-3", "-0.5", "2020-01-31", "12:30:00", "2020-01-31T12:30:00", "yes", "a_b", "Ünïcode", "0",
          "-.5", ".25", "-.125", "5.", "-7.", "007", "1000000"]
DYNAMIC = ["now()", "today()", "uuid()", "1 + 2", "3 * 4", "7 div 2", "7 mod 2", "concat('a', 'b')", "${src}", "${src} + 1", "if(${src} = '', 'x', 'y')",
           "once(random())", "'a' | 'b'", "string-length('abc')", "${last-saved#src}", "../src[1]", "/data/src[. = 'a']"]
AMBIG = ["a-b", "1-1", "x[1]", "( x )", "a - b", "2020-01-31 extra", "jr://images/x.png"]
TYPES = ["text", "integer", "decimal", "date", "dateTime", "time", "note", "hidden", "calculate", "select_one l1", "select_multiple l1", "geopoint", "barcode", "image", "range",
         "audio", "video", "file", "trigger", "acknowledge", "geotrace", "rank l1"]  # the other upload types: their static default (a file name) is literal content, no jr://images/ prefix
POSITIONS = ["top", "group", "repeat", "repeat/repeat", "group/repeat/group", "repeat/group/repeat"]


def plan(tier, seed):
    return {"shards": 16, "timeout": 900 if tier == "quick" else 3600, "n_random": 900 if tier == "quick" else 14000,
            "stride": 1,
            "floors": {"suite_conversions_judged": 500, "defaults_judged": 1500, "triggers_judged": 200, "dyn_hook_evals": 1000, "distinct": 300, "loop_trigger_forms": 40, "controlless_trigger_forms": 40}}


def classify(text, qtype):
    """'static' | 'dynamic' | None (ambiguous) — own reading of the documentation."""
    t = text.strip()
    if re.fullmatch(r"-?(\d+(\.\d*)?|\.\d+)", t) or re.fullmatch(r"-?\d{4}-\d{2}-\d{2}", t) or re.fullmatch(r"\d{2}:\d{2}:\d{2}", t) or \
            re.fullmatch(r"\d{4}-\d{2}-\d{2}T\d{2}:\d{2}:\d{2}", t):
        return "static"
    if re.fullmatch(r"[^\W\d][\w]*( [^\W\d][\w]*)*", t, re.UNICODE):
        return "static"
    if "${" in t or re.search(r"[A-Za-z_][\w\-.]*\(", t) or re.search(r" (\+|\*|div|mod) ", t) or "|" in t:
        return "dynamic"
    if re.match(r"(\.\./|\./|/)[\w/.-]*\[[^\]]*\]", t):
        return "dynamic"  # a location path with a predicate (the documentation: "contains brackets")
    return None


def wrap(pos, row, extra_before=None):
    """Place `row` at a position; returns top-level rows and the list of enclosing sections."""
    node = row
    secs = []
    if pos != "top":
        for k, kind in reversed(list(enumerate(pos.split("/")))):
            s = Row(kind, f"begin {kind}", f"{kind[0]}{k}", {"label": f"{kind} {k}"}, [Row("q", "text", f"pad{k}", {"label": "pad"}), node])
            node = s
    return node


def default_form(qtype, dflt, pos):
    cells = {"default": dflt}
    bt = qtype.split(" ")[0]
    if bt not in ("hidden", "calculate"):
        cells["label"] = "L"
    if bt == "calculate":
        cells["calculation"] = "1 + 1"
    f = Form()
    f.survey = [Row("q", "integer", "src", {"label": "S"}), wrap(pos, Row("q", qtype, "tgt", cells))]
    f.choices = {"l1": [{"name": "a", "label": "A"}, {"name": "b", "label": "B"}]}
    f.settings = {"form_id": "d"}
    return f


# calculation texts of triggered rows: expressions, bare words of the yes/no family (which pyxform converts in bind attributes),
# literals, a lone reference
CALC_TEXTS = ["concat(${src}, 'x')", "yes", "no", "true", "false", "TRUE", "Yes", "No", "true()", "'yes'", "1", "${src}", "now()", "${src} + 1"]
ALIAS_WORDS = {"yes", "no", "true", "false"}


def trigger_form(tpos, cpos, ctype, with_calc=True, calc_text="concat(${src}, 'x')"):
    """trigger question at tpos, calculated row at cpos."""
    trig = Row("q", "text", "trig", {"label": "T"})
    cells = {"trigger": "${trig}"}
    if ctype != "background-geopoint":
        cells["calculation"] = calc_text if with_calc else ""
        if not with_calc:
            cells.pop("calculation")
    if ctype in ("text", "integer", "dateTime"):
        cells["label"] = "C"
    calc = Row("q", ctype, "calc", cells)
    f = Form()
    # distinct section names for the two branches
    t = wrap(tpos, trig)
    c = wrap(cpos, calc)
    _rename(c, "c")
    f.survey = [Row("q", "integer", "src", {"label": "S"}), t, c]
    f.settings = {"form_id": "t"}
    return f


def _rename(row, suffix):
    for r, _ in row.walk():
        if r.is_section() or r.name.startswith("pad"):
            r.name = r.name + suffix


def paths_of(form):
    rm = refmodel.RM(form)
    return rm


class _Given:
    def __init__(self, xform):
        self.ok, self.xform = True, xform


def judge(ctx, form, klass, sig, sample=False, xform=None):
    o = drive.convert_form(form) if xform is None else _Given(xform)
    if not o.ok:
        ctx.ctr(f"rejected:{klass}")
        if not o.exc_is_pyxform:
            ctx.ctr("internal_exception_seen(C17's business)")
        return
    try:
        p = xf.Parsed(o.xform)
    except xf.XFError:
        ctx.ctr("unparseable_output(C01's business)")
        return
    rm = refmodel.RM(form)
    ctx.case(sig=sig)
    wit = lambda **kw: common.witness(form, klass=klass, **kw)  # noqa: E731
    svs = {}
    for el in list(p.model) + list(p.body.iter()):
        if isinstance(el.tag, str) and xf.local(el.tag) in ("setvalue", "setgeopoint"):
            svs.setdefault(el.get("ref"), []).append(el)
    binds = {b.get("nodeset"): b for b in p.binds()}
    repeats = {el.get("nodeset"): el for el in p.body.iter(xf.q(xf.XF, "repeat"))}
    ctl = {}
    for el in p.body.iter():
        if isinstance(el.tag, str) and el.get("ref") and xf.local(el.tag) not in ("label", "hint", "value", "setvalue", "setgeopoint"):
            ctl.setdefault(el.get("ref"), el)
    # "and nowhere else": actions may only target rows that have a default or a trigger; generated helper nodes stay empty
    legit = {e.path for e in rm.entries if e.row is not None and e.row.kind == "q" and (e.row.cells.get("default") or e.row.cells.get("trigger"))}
    legit |= {"/" + rm.root + "/meta/entity/@id"} if hasattr(rm, "root") else set()
    for ref, els in svs.items():
        if ref not in legit and "/meta/" not in (ref or ""):
            ctx.viol("action:targets-a-node-without-default-or-trigger", f"{len(els)} setvalue/setgeopoint action(s) target {ref!r}, a node that has neither a default nor a trigger", wit())
    for e in rm.entries:
        if e.row is None and e.kind in ("tl-header", "tl-label", "count-helper", "other-helper"):
            for nnode in p.resolve(e.path):
                if (nnode.text or "").strip():
                    ctx.viol("default:literal-in-generated-helper-node", f"generated node {e.path} holds the text {nnode.text!r}", wit())
    for e in rm.entries:
        r = e.row
        if r is None or r.kind != "q":
            continue
        bt = base_type(r)
        if bt in ("xml-external", "csv-external"):
            continue
        d = r.cells.get("default")
        trig = r.cells.get("trigger")
        nodes = p.resolve(e.path)
        mine = svs.get(e.path, [])
        first_load = [s for s in mine if (s.get("event") or "").startswith("odk-instance-first-load")]
        changed = [s for s in mine if s.get("event") == "xforms-value-changed"]
        if d:
            ctx.ctr("defaults_judged")
            cls = classify(d, bt)
            lit = d if bt != "image" else (d if "jr://images/" in d else "jr://images/" + d)
            texts = [(n.text or "") for n in nodes]
            has_lit = [t == lit for t in texts]
            empty = [t == "" for t in texts]
            if len(first_load) > 1:
                ctx.viol("default:setvalue-duplicated", f"{e.path}: {len(first_load)} first-load setvalue actions for one default", wit(default=d))
            if first_load and any(has_lit):
                ctx.viol("default:both-literal-and-setvalue", f"{e.path}: default {d!r} is both node text and a setvalue", wit(default=d))
            elif not first_load and not all(has_lit):
                if not any(has_lit):
                    ctx.viol("default:neither-literal-nor-setvalue", f"{e.path}: default {d!r} appears neither as node text {texts} nor as a setvalue", wit(default=d))
                else:
                    ctx.viol("default:literal-missing-in-a-copy", f"{e.path}: default {d!r} present in some copies of the node but not all (texts {texts}; template vs ordinary)", wit(default=d))
            if first_load and not all(empty):
                if not any(has_lit):
                    ctx.viol("default:dynamic-node-not-empty", f"{e.path}: node text {texts} with a setvalue for the default", wit(default=d))
            actual = "dynamic" if first_load else "static"
            if cls is not None and cls != actual:
                exempt = cls == "dynamic" and False
                ctx.viol(f"default:classified-{actual}-expected-{cls}", f"{e.path} ({bt}): default {d!r} treated as {actual}", wit(default=d))
            if first_load:
                s = first_load[0]
                in_model = s.getparent() is p.model
                if e.repeat is None:
                    if not in_model:
                        ctx.viol("default:setvalue-outside-model", f"{e.path}: not in a repeat but its setvalue sits in <{xf.local(s.getparent().tag)}>", wit(default=d))
                    if s.get("event") != "odk-instance-first-load":
                        ctx.viol("default:wrong-event:non-repeat", f"{e.path}: event {s.get('event')!r}", wit(default=d))
                else:
                    rp = next(x.path for x in rm.entries if x.row is e.repeat)
                    want_parent = repeats.get(rp)
                    if in_model:
                        ctx.viol("default:repeat-setvalue-in-model", f"{e.path}: inside repeat {rp} but its setvalue is in the model", wit(default=d))
                    elif s.getparent() is not want_parent:
                        par = s.getparent()
                        ctx.viol("default:setvalue-in-wrong-repeat", f"{e.path}: setvalue sits in <{xf.local(par.tag)} {par.get('nodeset') or par.get('ref')}>, expected directly inside <repeat nodeset={rp}>", wit(default=d))
                    if s.get("event") != "odk-instance-first-load odk-new-repeat":
                        ctx.viol("default:wrong-event:repeat", f"{e.path}: event {s.get('event')!r}", wit(default=d))
                # value carries the expression
                from .C05 import value_pattern
                if value_pattern(d).match(s.get("value") or "") is None:
                    ctx.viol("default:setvalue-value-differs", f"{e.path}: setvalue value {s.get('value')!r} for default {d!r}", wit(default=d))
        else:
            if first_load and bt != "start-geopoint":
                ctx.viol("default:setvalue-without-default", f"{e.path}: first-load setvalue but the row has no default", wit())
        if trig:
            ctx.ctr("triggers_judged")
            m = re.fullmatch(r"\$\{([^}]+)\}", trig.strip())
            te = rm.by_name.get(m.group(1)) if m else None
            want_tag = "setgeopoint" if bt == "background-geopoint" else "setvalue"
            if len(changed) != 1:
                ctx.viol("trigger:not-exactly-one-action", f"{e.path}: {len(changed)} value-changed actions (trigger {trig})", wit())
            for s in changed:
                if xf.local(s.tag) != want_tag:
                    ctx.viol("trigger:wrong-action-element", f"{e.path}: <{xf.local(s.tag)}> used, expected <{want_tag}>", wit())
                par = s.getparent()
                if te and len(te) == 1 and par.get("ref") != te[0].path:
                    ctx.viol("trigger:action-not-nested-in-trigger-control", f"{e.path}: action nested in <{xf.local(par.tag)} ref={par.get('ref')}>, trigger is {te[0].path}", wit())
                calc = r.cells.get("calculation")
                if calc and bt != "background-geopoint" and calc.strip().lower() not in ALIAS_WORDS:
                    from .C05 import value_pattern
                    if value_pattern(calc).match(s.get("value") or "") is None:
                        ctx.viol("trigger:value-differs", f"{e.path}: setvalue value {s.get('value')!r} for calculation {calc!r}", wit())
                if not calc and bt != "background-geopoint" and s.get("value") not in (None, ""):
                    # a trigger without a calculation clears the field: whatever value the action carries was written for some other row
                    ctx.viol("trigger:value-of-another-row", f"{e.path} has a trigger but no calculation, yet its setvalue carries value={s.get('value')!r}", wit())
                if bt == "background-geopoint" and s.get("value") is not None:
                    ctx.viol("trigger:setgeopoint-has-value", f"{e.path}", wit())
            b = binds.get(e.path)
            if b is not None and b.get("calculate") is not None:
                ctx.viol("trigger:also-bind-calculate", f"{e.path}: triggered calculation also emitted as bind/@calculate={b.get('calculate')!r}", wit())
        elif changed:
            ctx.viol("trigger:action-without-trigger", f"{e.path}: value-changed action but no trigger cell", wit())
    if sample:
        ctx.sample({"class": klass, "sig": sig, "form_md": common.sheets_to_md(form.to_sheets())[:1000], "observed": "exactly-once and placement held"})


def loop_trigger_forms(ctx):
    """Triggered calculations and defaults on rows of the legacy 'begin loop over <list>' section: the row exists once per choice, and each copy gets exactly
    one action (nested in the triggering question's control, targeting that copy, and no bind calculate) - or its own literal / first-load default."""
    from .. import xf
    n = 0
    for kind in ("calculate", "text", "integer", "background-geopoint", "static-default", "dynamic-default"):
        for nch in (1, 2, 3):
            for where in ("loop", "loop/group", "group(control)"):
                n += 1
                if not ctx.mine(n) or (where == "loop/group" and nch > 1):  # section names are unique form-wide: a group inside a loop over two choices is refused by design
                    continue
                cells = {}
                if kind in ("calculate", "text", "integer"):
                    cells = {"calculation": "concat('x', ${src})", "trigger": "${src}"}
                    if kind != "calculate":
                        cells["label"] = "T"
                    qt = kind
                elif kind == "background-geopoint":
                    cells, qt = {"trigger": "${src}"}, kind
                elif kind == "static-default":
                    cells, qt = {"label": "T", "default": "pending"}, "text"
                else:
                    cells, qt = {"label": "T", "default": "concat('d', ${src})"}, "text"
                tgt = Row("q", qt, "tgt", cells)
                inner = [Row("q", "text", "own", {"label": "%(label)s" if where != "group(control)" else "own"}), tgt]
                if where == "loop/group":
                    inner = [Row("group", "begin group", "ing", {"label": "G"}, inner)]
                if where == "group(control)":
                    sec = Row("group", "begin group", "lp", {"label": "L"}, inner)
                    copies = ["/data/lp/tgt"]
                else:
                    sec = Row("group", "begin loop over l1", "lp", {"label": "L"}, inner, meta={"end_type": "end loop"})
                    copies = [f"/data/lp/c{j}/{'ing/' if where == 'loop/group' else ''}tgt" for j in range(nch)]
                f = Form()
                f.survey = [Row("q", "text", "src", {"label": "S"}), sec]
                f.choices = {"l1": [{"name": f"c{j}", "label": f"C{j}"} for j in range(nch)]}
                o = drive.convert_form(f)
                ctx.case(sig=f"loop-trigger|{kind}|{nch}|{where}")
                ctx.ctr("loop_trigger_forms")
                wit = common.witness(f, klass="loop-trigger")
                if not o.ok:
                    ctx.viol(f"loop:{kind}:valid-form-refused", o.brief()[:200], wit)
                    continue
                p = xf.Parsed(o.xform)
                bm = p.bind_map()
                for path in copies:
                    nodes = p.resolve(path)
                    if len(nodes) != 1:
                        ctx.viol(f"loop:{kind}:copy-missing", f"{path} names {len(nodes)} instance nodes", wit)
                        continue
                    node_text = (nodes[0].text or "").strip()
                    acts = [a for a in p.body_actions() + p.model_actions() if a.get("ref") == path]
                    calc = [b.get("calculate") for b in bm.get(path, []) if b.get("calculate")]
                    ctx.ctr("triggers_judged" if "default" not in kind else "defaults_judged")
                    if kind == "static-default":
                        if node_text != "pending" or acts:
                            ctx.viol("loop:static-default:not-exactly-the-literal", f"{path}: node text {node_text!r}, actions {len(acts)}", wit)
                        continue
                    if kind == "dynamic-default":
                        ok = len(acts) == 1 and acts[0].getparent() is p.model and acts[0].get("event") == "odk-instance-first-load" and not node_text
                        if not ok:
                            ctx.viol("loop:dynamic-default:not-exactly-one-first-load-action", f"{path}: node text {node_text!r}, actions {[(xf.local(a.tag), a.get('event'), xf.local(a.getparent().tag)) for a in acts]}", wit)
                        continue
                    want_tag = "setgeopoint" if kind == "background-geopoint" else "setvalue"
                    ok = (len(acts) == 1 and xf.local(acts[0].tag) == want_tag and acts[0].get("event") == "xforms-value-changed"
                          and acts[0].getparent().get("ref") == "/data/src" and not calc)
                    if ok and want_tag == "setvalue" and "concat('x'," not in (acts[0].get("value") or ""):
                        ok = False
                    if not ok:
                        ctx.viol(f"loop:{kind}:not-exactly-one-action-in-the-trigger-control", f"{path}: actions {[(xf.local(a.tag), a.get('event'), a.getparent().get('ref'), a.get('value')) for a in acts]}, "
                                 f"bind calculate {calc}", wit)


def controlless_trigger_forms(ctx):
    """A trigger naming a question that has no control in the body (metadata and action types, calculate, hidden, a question hidden by its own calculation):
    there is nowhere to nest the action, so the form is refused - converting it would drop the calculation silently."""
    from .. import xf
    triggers = [("start-geopoint", {}), ("background-audio", {}), ("calculate", {"calculation": "1"}), ("hidden", {}), ("start", {}), ("today", {}), ("deviceid", {}),
                ("text", {"calculation": "'x'"}), ("integer", {"calculation": "1"}), ("text", {"label": "visible (control form)"})]
    targets = [("calculate", {"calculation": "concat('x', ${trg})"}), ("text", {"label": "T", "calculation": "1 + 1"}), ("background-geopoint", {}), ("text", {"label": "T"})]
    n = 0
    for (tt, tc), (gt, gc) in itertools.product(triggers, targets):
        for pos in ("top", "group", "repeat"):
            n += 1
            if not ctx.mine(n):
                continue
            trg = Row("q", tt, "trg", dict(tc))
            tgt = Row("q", gt, "tgt", dict(gc, trigger="${trg}"))
            rows = [trg, tgt]
            if pos != "top":
                rows = [Row(pos, f"begin {pos}", "sec", {"label": "S"}, [Row("q", "text", "pad", {"label": "P"}), trg, tgt])]
            f = Form()
            f.survey = rows
            o = drive.convert_form(f)
            visible = "label" in tc
            ctx.case(sig=f"controlless-trigger|{tt}|{bool(tc.get('calculation'))}|{gt}|{pos}")
            ctx.ctr("controlless_trigger_forms")
            ctx.ctr("triggers_judged")
            wit = common.witness(f, klass="controlless-trigger")
            if not o.ok:
                if visible and o.exc_is_pyxform:
                    ctx.viol("trigger:visible-trigger-refused", f"trigger {tt} (with a label) for a {gt}: {o.brief()[:200]}", wit)
                continue
            p = xf.Parsed(o.xform)
            base = "/data/" + ("sec/" if pos != "top" else "")
            acts = [a for a in p.body_actions() if a.get("ref") == base + "tgt" and a.getparent().get("ref") == base + "trg"]
            if len(acts) != 1:
                ctx.viol(f"trigger:no-control-to-nest-the-action:{tt}{'+calculation' if tc.get('calculation') and tt != 'calculate' else ''}:accepted-and-action-lost",
                         f"trigger ${{trg}} is a {tt} {tc} (no control in the body); the {gt} was converted with {len(acts)} actions in that control "
                         f"(all actions on it: {[(xf.local(a.tag), a.getparent().get('ref')) for a in p.body_actions() + p.model_actions() if a.get('ref') == base + 'tgt']})", wit)


def run_shard(ctx):
    from ..hooks import counters, install_dyn_hook
    install_dyn_hook(classify)
    alias_type_pairs(ctx)
    loop_trigger_forms(ctx)
    controlless_trigger_forms(ctx)
    pl = plan(ctx.tier, ctx.seed)
    n = 0
    for qt, (kls, dflts), pos in itertools.product(TYPES, (("static", STATIC), ("dynamic", DYNAMIC), ("ambiguous", AMBIG)), POSITIONS):
        for di, d in enumerate(dflts):
            n += 1
            if not ctx.mine(n) or (n + di) % pl["stride"]:
                continue
            bt = qt.split(" ")[0]
            if bt == "select_one" and kls == "static":
                d = "a"
            if bt in ("select_multiple", "rank") and kls == "static":
                d = "a b"
            if bt == "range" and kls == "static":
                d = "5"
            form = default_form(qt, d, pos)
            judge(ctx, form, "enum-default", f"default|{qt}|{kls}:{di}|{pos}", sample=(n <= 2))
    for tpos, cpos, ctype in itertools.product(POSITIONS, POSITIONS, ["calculate", "text", "integer", "dateTime", "background-geopoint", "hidden"]):
        texts = CALC_TEXTS if ctype != "background-geopoint" else CALC_TEXTS[:1]
        if ctx.tier == "quick":
            k = (POSITIONS.index(tpos) * 7 + POSITIONS.index(cpos) * 3) % len(CALC_TEXTS)
            texts = [texts[0]] + ([CALC_TEXTS[k], CALC_TEXTS[(k + 5) % len(CALC_TEXTS)]] if ctype != "background-geopoint" else [])
        for ct in dict.fromkeys(texts):
            n += 1
            if not ctx.mine(n):
                continue
            form = trigger_form(tpos, cpos, ctype, calc_text=ct)
            judge(ctx, form, "enum-trigger", f"trigger|{tpos}|{cpos}|{ctype}|{ct}")
    # table-list sections: the generated heading select next to a first select that carries a default or a trigger
    for k, (sk, what) in enumerate(itertools.product(("group", "repeat"), ("static", "dynamic", "trigger", "none"))):
        n += 1
        if not ctx.mine(n):
            continue
        first = {"label": "first"}
        if what == "static":
            first["default"] = "a"
        elif what == "dynamic":
            first["default"] = "${src}"
        elif what == "trigger":
            first.update({"calculation": "'b'", "trigger": "${src}"})
        f = Form()
        f.survey = [Row("q", "text", "src", {"label": "S"}),
                    Row(sk, f"begin {sk}", "tl", {"label": "TL", "appearance": "table-list"}, [Row("q", "select_one l1", "s1", first), Row("q", "select_one l1", "s2", {"label": "second", "default": "b"})])]
        f.choices = {"l1": [{"name": "a", "label": "A"}, {"name": "b", "label": "B"}]}
        judge(ctx, f, "table-list", f"table-list|{sk}|{what}")
    # one question name used in several groups/repeats (legal: names are unique per section), each copy with its own kind of default
    kinds = [("static", "pending"), ("dynamic", "uuid()"), ("static", "unknown"), ("dynamic", "${src} + 1"), ("none", None), ("trigger", "concat('t1', ${src})"), ("trigger", "'t2'"), ("trigger", "'t2'"), ("trigger", None)]  # two copies may share trigger and calculation
    for k, combo in enumerate(itertools.permutations(kinds, 3)):
        n += 1
        if not ctx.mine(n) or (ctx.tier == "quick" and k % 4):
            continue
        f = Form()
        f.survey = [Row("q", "integer", "src", {"label": "S"})]
        for j, (kd, dv) in enumerate(combo):
            sk = ["group", "repeat", "group"][(j + k) % 3]
            cells = {"label": "code"}
            if kd == "trigger":
                cells.update({"calculation": dv, "trigger": "${src}"} if dv is not None else {"trigger": "${src}"})
            elif dv is not None:
                cells["default"] = dv
            f.survey.append(Row(sk, f"begin {sk}", f"sec{j}", {"label": f"S{j}"}, [Row("q", "text", "code", cells), Row("q", "text", f"pad{j}", {"label": "p"})]))
        o_ = drive.convert_form(f)
        if not o_.ok:
            ctx.case(sig=f"same-name-refused|{k}")
            ctx.viol("same-name:valid-form-refused", f"a question name used once per section ({[x[0] for x in combo]}): {o_.brief()[:200]}", common.witness(f, klass="same-name"))
            continue
        judge(ctx, f, "same-name", f"same-name|{'+'.join(x[0] for x in combo)}|{k % 3}")
    # one trigger, several targets in a row, some of them without a calculation (the action then clears the field: no value attribute)
    for k, pattern in enumerate(itertools.product(("calc", "nocalc"), repeat=3)):
        for inrep in (False, True):
            n += 1
            if not ctx.mine(n):
                continue
            rows = [Row("q", "text", "src", {"label": "S"})]
            for j, pk in enumerate(pattern):
                cells = {"label": f"t{j}", "trigger": "${src}"}
                if pk == "calc":
                    cells["calculation"] = ["0", "concat(${src}, 'x')", "substr(${src}, 0, 1)"][j]
                rows.append(Row("q", ["integer", "text", "text"][j], f"tg{j}", cells))
            f = Form()
            f.survey = [Row("repeat", "begin repeat", "rp", {"label": "R"}, rows)] if inrep else rows
            judge(ctx, f, "multi-target", f"multi-target|{'+'.join(pattern)}|{int(inrep)}")
    for i in range(pl["n_random"]):
        if not ctx.mine(i):
            continue
        rng = ctx.rng("random", i)
        form = gen.gen_form(rng, common.rich_cfg(rng, p_default=0.6, p_dyn_default=0.5, p_trigger=0.3, p_repeat=0.3, max_depth=5, p_or_other=0))
        judge(ctx, form, "random", common.feature_sig(form))
    if ctx.shard == 0:
        include_history(ctx)
    json_histories(ctx)
    ctx.ctr("dyn_hook_evals", counters.get("dyn", 0))
    for msg in counters.get("dyn_violations", []):
        ctx.viol("hook:default_is_dynamic-disagrees-with-classifier", msg, {"klass": "hook"})


ALIAS_PAIRS = [("datetime", "dateTime"), ("location", "geopoint"), ("int", "integer"), ("string", "text"), ("select one l1", "select_one l1"), ("select1 l1", "select_one l1"),
               ("photo", "image"), ("q geopoint", "geopoint"), ("q date time", "dateTime"), ("add date prompt", "date"), ("select all that apply from l1", "select_multiple l1")]
HYPHEN_DEFAULTS = ["2020-01-01T00:00:00 - 1", "1 2 - 3", "2020-01-01 - 1", "2020-01-01", "-1", "1 - 1", "a - b", "2020-01-31T12:30:00", "1.5 2.5 0 0", "x-y", "- 1", "today() - 1", "${src} - 1"]


def alias_type_pairs(ctx):
    """A default is read the same way under every spelling of the question type: the alias and the canonical type give the same instance content and
    the same actions (whether a text is a literal or an expression may depend on the data type - never on how the type cell spells it)."""
    n = 0
    for (alias, canon), d, pos in itertools.product(ALIAS_PAIRS, HYPHEN_DEFAULTS + STATIC[:6] + DYNAMIC[:6], ("top", "repeat")):
        n += 1
        if not ctx.mine(n):
            continue
        res = []
        for qt in (alias, canon):
            o = drive.convert_form(default_form(qt, d, pos))
            if not o.ok:
                res.append(("refused", o.brief()[:80]))
                continue
            p = xf.Parsed(o.xform)
            nodes = [x_ for x_ in p.primary.iter() if isinstance(x_.tag, str) and xf.local(x_.tag) == "tgt"]
            acts = sorted((a_.get("event"), a_.get("value")) for a_ in p.root.iter() if isinstance(a_.tag, str) and xf.local(a_.tag) == "setvalue" and (a_.get("ref") or "").endswith("/tgt"))
            res.append(("ok", tuple((x_.text or "") for x_ in nodes), tuple(acts)))
        ctx.ctr("alias_type_pairs")
        ctx.ctr("defaults_judged")
        ctx.case(sig=f"alias-type|{alias}|{d}|{pos}")
        if res[0] != res[1] and not (res[0][0] == res[1][0] == "refused"):
            ctx.viol(f"default:depends-on-type-spelling:{canon.split()[0]}", f"default {d!r} at {pos}: type {alias!r} gives {res[0]}, its canonical spelling {canon!r} gives {res[1]}",
                     common.witness(default_form(alias, d, pos), klass="alias-type", alias=alias, canon=canon, default=d, pos=pos))


def json_histories(ctx):
    """Defaults and triggered calculations after the survey has been through its JSON form: the same definition dict built twice,
    and a survey rebuilt from its own dump. The rules of the statement hold for the XForm of every one of them."""
    import copy
    import json
    from pyxform.builder import create_survey_element_from_dict
    from pyxform.xls2json import workbook_to_json
    from pyxform.xls2json_backends import get_xlsform
    for i in range(60 if ctx.tier == "quick" else 600):
        if not ctx.mine(i):
            continue
        rng = ctx.rng("jsonhist", i)
        form = gen.gen_form(rng, common.rich_cfg(rng, p_default=0.6, p_dyn_default=0.5, p_trigger=0.5, p_repeat=0.3, max_depth=3, p_or_other=0))
        try:
            d = workbook_to_json(get_xlsform(render.to_dict(form.to_sheets())), warnings=[], **{k: v for k, v in form.args.items() if k in ("form_name", "default_language")})
            first = create_survey_element_from_dict(d)
            x1 = first.to_xml(validate=False, pretty_print=False)
        except Exception:  # noqa: BLE001 - rejected forms are other checks' business
            ctx.ctr("rejected:json-history")
            continue
        for hist in ("same-dict-built-again", "dump-load", "dump-text-load"):
            try:
                if hist == "same-dict-built-again":
                    sv = create_survey_element_from_dict(d)
                elif hist == "dump-load":
                    sv = create_survey_element_from_dict(first.to_json_dict())
                else:
                    sv = create_survey_element_from_dict(json.loads(json.dumps(first.to_json_dict())))
                x = sv.to_xml(validate=False, pretty_print=False)
            except Exception as e:  # noqa: BLE001
                ctx.viol(f"json-history:{hist}:raised:{type(e).__name__}", f"{hist}: {str(e)[:200]}", common.witness(form, klass="json-history", history=hist))
                continue
            ctx.ctr("json_histories")
            judge(ctx, form, f"json-history:{hist}", f"jsonhist|{hist}|{common.feature_sig(form)}", xform=x)


def include_history(ctx):
    """Triggered calculations in a survey assembled through 'include' rows (builder sections API): exactly one action each."""
    from .. import apiseq
    for i in range(40):
        rng = ctx.rng("include", i)
        sv, info = apiseq.include_survey(rng)
        try:
            p = xf.Parsed(sv.to_xml(validate=False, pretty_print=False))
        except Exception as e:  # noqa: BLE001
            ctx.viol(f"include:raised:{type(e).__name__}", str(e)[:300], {"klass": "include", "main_md": info["main_md"]})
            continue
        ctx.case(sig=f"include|{info['n_includes']}|{[t[0] for t in info['triggers']]}")
        binds = {b.get("nodeset"): b for b in p.binds()}
        for calc, trig, tag in info["triggers"]:
            ctx.ctr("triggers_judged")
            acts = [el for el in list(p.model.iter()) + list(p.body.iter()) if isinstance(el.tag, str) and xf.local(el.tag) in ("setvalue", "setgeopoint") and el.get("ref") == calc]
            nested = [a for a in acts if a.getparent() is not None and a.getparent().get("ref") == trig and a.get("event") == "xforms-value-changed"]
            if len(acts) != 1 or len(nested) != 1 or xf.local(acts[0].tag) != tag:
                ctx.viol("include:trigger:not-exactly-one-action", f"{calc} (trigger {trig}, {info['n_includes']} include rows): {len(acts)} actions, {len(nested)} nested in the trigger's control, "
                         f"tags {[xf.local(a.tag) for a in acts]}", {"klass": "include", "main_md": info["main_md"]})
            b = binds.get(calc)
            if b is not None and b.get("calculate") is not None:
                ctx.viol("include:trigger:also-bind-calculate", f"{calc}: bind/@calculate={b.get('calculate')!r}", {"klass": "include", "main_md": info["main_md"]})


def replay(w):
    def chk(ctx, wit):
        if wit.get("klass") == "hook":
            print("hook witness: re-run ./check C10")
            return
        if wit.get("klass") == "include":
            include_history(ctx)
            return
        if wit.get("klass") == "loop-trigger":
            loop_trigger_forms(ctx)  # small deterministic families: run them whole
            return
        if wit.get("klass") == "controlless-trigger":
            controlless_trigger_forms(ctx)
            return
        if str(wit.get("klass", "")).startswith("json-history"):
            json_histories(ctx)
            return
        judge(ctx, common.form_from_witness(wit), wit.get("klass", "replay"), "replay")
    return common.replay_with(PROP, w, chk)
