"""C19 — entity declarations follow the documented create/update decision table.

Deciding oracle: the decision table of the ODK entities spec / pyxform's documentation
encoded independently.  For each of the 16 presence combinations of (entity_id,
create_if, update_if, label): reject, or exact attribute set on meta/entity, exact set
of binds/setvalue under meta/entity with expressions compared through the reference
regex, entities:saveto on exactly the rows with save_to, and xmlns:entities +
entities:entities-version present iff an entity is declared.  Name/placement rules:
dataset and property names, save_to in repeats / on groups / without an entities sheet,
unknown columns, more than one row.
Workload: exhaustive over 16 combinations x 3 expression shapes x 5 save_to placements
x dataset/property name strings.
"""
from __future__ import annotations

import itertools
import re

from .. import render, common, drive, gen, xf
from ..model import Form, Row

PROP = "C19"
LEVEL = "exploration"
TECHNIQUE = "runtime reference-model monitor: independently encoded entities decision table vs meta/entity attributes, binds, setvalue, saveto and namespace declarations"
RULE = ("cases = (presence combination of entity_id/create_if/update_if/label [16], expression shape [3], save_to placement [5], dataset name [12]) "
        "enumerated completely, plus property-name and structural rejection cases; non-trivial = outcome (reject / accept + full comparison) judged; "
        "distinct = distinct tuples")
ASSUMPTIONS = ["with an entity_id the label is optional (update); without one it is required (create), as the converter documents"]

ENT = xf.ENT
DATASETS = [("trees", True), ("my_list", True), ("a-b", True), ("Ünï", True), ("t1", True), ("__reserved", False), ("with.dot", False), ("1start", False),
            ("has space", False), ("_ok", True), ("x:y", True), ("a/b", False),
            # letters of the Latin-1 block on either side of the multiplication sign (U+00D7, not a name character)
            ("\u00d6l", True), ("\u00c0rbres", True), ("ca\u00d1a", True), ("\u00c0-\u00d6]x", False), ("a\u00d7b", False)]
PROPS = [("prop_a", True), ("a-b", True), ("name", False), ("Label", False), ("__x", False), ("1x", False), ("has space", False), ("_p", True), ("NAME", False), ("ok.dot", True),
         # property names that happen to be yes/no words: names, not truth values
         ("yes", True), ("No", True), ("TRUE", True), ("false", True), ("true", True),
         ("\u00d1and\u00fa", True), ("\u00c0-\u00d6]p", False)]
SHAPES = ["literal", "ref", "ref-in-group", "smart-quotes", "truth-words"]
PLACEMENTS = ["none", "top", "group", "repeat", "on-group", "repeat>group", "group>repeat", "group>group", "on-repeat", "repeat>repeat>group", "or-other-select"]


def plan(tier, seed):
    return {"shards": 16, "timeout": 900, "exhaustive": True,
            "floors": {"decision_cases": 5000, "accepted_compared": 500, "rejections_judged": 2000, "distinct": 4000}}


def expr(shape, what):
    if shape == "smart-quotes":
        # typographic quotes as a word processor or a spreadsheet's autocorrect leaves them: straightened like on every other sheet
        return {"entity_id": "\u2018abc-123\u2019", "create_if": "\u201cy\u201d = \u201cy\u201d", "update_if": "1 = 1 or \u2018a\u2019 = \u2018b\u2019",
                "label": "concat(\u2018L\u2019, \u201cx\u201d)"}[what]
    if shape == "truth-words":
        # the conditions written the way every logic column of the survey sheet accepts them: yes / TRUE (also what a boolean spreadsheet cell is read as)
        return {"entity_id": "'abc-123'", "create_if": "TRUE", "update_if": "yes", "label": "concat('L', 'x')"}[what]
    if shape == "literal":
        return {"entity_id": "'abc-123'", "create_if": "true()", "update_if": "1 = 1", "label": "concat('L', 'x')"}[what]
    ref = "${q1}" if shape == "ref" else "${gq}"
    return {"entity_id": ref, "create_if": f"{ref} != ''", "update_if": f"{ref} = 'u'", "label": f"concat('L', {ref})"}[what]


NS_VARIANTS = [None, None, 'x="http://example.org/x"', 'geoentities="http://example.org/geoentities"', 'sub_entities="http://example.org/s" y="http://example.org/y"',
               'entitiesx="http://example.org/ex"', 'a="http://example.org/entities="']


def build(combo, shape, placement, dataset, prop="prop_a"):
    has_id, has_c, has_u, has_l = combo
    f = Form()
    q1 = Row("q", "text", "q1", {"label": "Q1"})
    gq = Row("q", "text", "gq", {"label": "GQ"})
    g = Row("group", "begin group", "g1", {"label": "G"}, [gq])
    rq = Row("q", "text", "rq", {"label": "RQ"})
    r = Row("repeat", "begin repeat", "r1", {"label": "R"}, [rq])
    f.survey = [q1, g, r]
    saved = []
    if ">" in placement:
        # nested chain ending in a question that carries the save_to
        kinds = placement.split(">")
        node = Row("q", "text", "deepq", {"label": "DQ", "save_to": prop})
        pth = ""
        for k, kind in reversed(list(enumerate(kinds))):
            node = Row(kind, f"begin {kind}", f"n{kind[0]}{k}", {"label": "N"}, [Row("q", "text", f"npad{k}", {"label": "p"}), node])
        f.survey.append(node)
        if "repeat" not in kinds:
            saved.append("/data/" + "/".join(f"n{kind[0]}{k}" for k, kind in enumerate(kinds)) + "/deepq")
    elif placement == "on-repeat":
        r.cells["save_to"] = prop
    if placement == "top":
        q1.cells["save_to"] = prop
        saved.append("/data/q1")
    elif placement == "group":
        gq.cells["save_to"] = prop
        saved.append("/data/g1/gq")
    elif placement == "repeat":
        rq.cells["save_to"] = prop
    elif placement == "on-group":
        g.cells["save_to"] = prop
    elif placement == "or-other-select":
        # the select saves to the property; the generated '<name>_other' companion is not the cell that asked for it
        f.survey.append(Row("q", "select_one l9 or_other", "pick", {"label": "P", "save_to": prop}, meta={"or_other": True}))
        f.choices = {"l9": [{"name": "a", "label": "A"}, {"name": "b", "label": "B"}]}
        saved.append("/data/pick")
    ent = {"list_name": dataset}
    for k, on in (("entity_id", has_id), ("create_if", has_c), ("update_if", has_u), ("label", has_l)):
        if on:
            ent[k] = expr(shape, k)
    f.entities = ent
    return f, saved


def expected_reject(combo, placement, dataset_ok, prop_ok=True):
    has_id, has_c, has_u, has_l = combo
    if has_u and not has_id:
        return "update-needs-id"
    if has_id and has_c and not has_u:
        return "id-with-create-needs-update"
    if not has_id and not has_l:
        return "create-needs-label"
    if not dataset_ok:
        return "dataset-name"
    if placement in ("on-group", "on-repeat"):
        return "saveto-on-group"
    if "repeat" in placement:
        return "saveto-in-repeat"
    if placement in ("top", "group", "group>group") and not prop_ok:
        return "property-name"
    return None


def ref_paths(shape):
    return {"literal": None, "ref": "/data/q1", "ref-in-group": "/data/g1/gq", "truth-words": None}.get(shape)


def subst(e, shape):
    """Expected attribute value after reference substitution."""
    if shape == "smart-quotes":
        return e.replace("\u2018", "'").replace("\u2019", "'").replace("\u201c", '"').replace("\u201d", '"')
    if shape == "truth-words":
        return {"TRUE": "true()", "yes": "true()"}.get(e, e)
    p = ref_paths(shape)
    if p is None:
        return e
    return re.sub(r"\$\{[^}]+\}", f" {p} ", e)


def judge_accepted(ctx, form, combo, shape, saved, o, wit, dataset):
    has_id, has_c, has_u, has_l = combo
    try:
        p = xf.Parsed(o.xform)
    except xf.XFError as e:
        ctx.viol("unparseable:" + e.kind, str(e), wit())
        return
    ctx.ctr("accepted_compared")
    ents = p.resolve("/data/meta/entity")
    if len(ents) != 1:
        ctx.viol("entity:element-count", f"{len(ents)} meta/entity elements", wit())
        return
    el = ents[0]
    got = dict(el.attrib)
    want = {"dataset": dataset, "id": ""}
    if has_id:
        want.update({"update": "1", "baseVersion": "", "trunkVersion": "", "branchId": ""})
    if has_c or (not has_u and not has_id):
        want["create"] = "1"
    if got != want:
        diff = sorted(set(got) ^ set(want)) or [k for k in want if got.get(k) != want[k]]
        ctx.viol(f"entity:attributes:{'+'.join(diff)}", f"meta/entity attributes {got}, expected {want}", wit())
    kids = [xf.local(c.tag) for c in el if isinstance(c.tag, str)]
    if kids != (["label"] if has_l else []):
        ctx.viol("entity:children", f"meta/entity children {kids}, label expected={has_l}", wit())
    # binds under meta/entity
    eb = {}
    for b in p.binds():
        ns = b.get("nodeset") or ""
        if ns.startswith("/data/meta/entity"):
            a = p.attr_dict(b)
            a.pop("nodeset")
            if ns in eb:
                ctx.viol("entity:bind-duplicated", ns, wit())
            eb[ns] = a
    base = {"type": "string", "readonly": "true()"}
    wantb = {"/data/meta/entity/@id": dict(base, **({"calculate": subst(form.entities["entity_id"], shape)} if has_id else {}))}
    if has_c:
        wantb["/data/meta/entity/@create"] = dict(base, calculate=subst(form.entities["create_if"], shape))
    if has_u:
        wantb["/data/meta/entity/@update"] = dict(base, calculate=subst(form.entities["update_if"], shape))
    if has_id:
        ide = subst(form.entities["entity_id"], shape)
        for attr, fld in (("baseVersion", "__version"), ("trunkVersion", "__trunkVersion"), ("branchId", "__branchId")):
            wantb[f"/data/meta/entity/@{attr}"] = dict(base, calculate=f"instance('{dataset}')/root/item[name={ide}]/{fld}")
    if has_l:
        wantb["/data/meta/entity/label"] = dict(base, calculate=subst(form.entities["label"], shape))
    for ns in sorted(set(eb) | set(wantb)):
        if ns not in eb:
            ctx.viol(f"entity:bind-missing:{ns.rsplit('/', 1)[-1]}", f"no bind {ns}; expected {wantb[ns]}", wit())
        elif ns not in wantb:
            ctx.viol(f"entity:bind-unexpected:{ns.rsplit('/', 1)[-1]}", f"bind {ns} {eb[ns]} not in the decision table for this combination", wit())
        elif _norm(eb[ns]) != _norm(wantb[ns]):
            ctx.viol(f"entity:bind-differs:{ns.rsplit('/', 1)[-1]}", f"bind {ns}: {eb[ns]}, expected {wantb[ns]}", wit())
    # setvalue uuid()
    svs = [a for a in p.model_actions() if (a.get("ref") or "").startswith("/data/meta/entity")]
    want_sv = has_c or not has_id
    if want_sv != (len(svs) == 1) or len(svs) > 1:
        ctx.viol("entity:id-setvalue-presence", f"{len(svs)} setvalue(s) under meta/entity; creating={want_sv}", wit())
    for s in svs:
        a = p.attr_dict(s)
        if a.get("ref") != "/data/meta/entity/@id" or a.get("value") != "uuid()" or a.get("event") != "odk-instance-first-load":
            ctx.viol("entity:id-setvalue-attributes", f"{a}", wit())
    # saveto
    got_saved = {}
    for b in p.binds():
        v = b.get(xf.q(ENT, "saveto"))
        if v is not None:
            got_saved[b.get("nodeset")] = v
    want_saved = {pth: "prop_a" for pth in saved}
    if set(got_saved) != set(want_saved):
        ctx.viol("saveto:rows", f"entities:saveto on {sorted(got_saved)}, expected on {sorted(want_saved)}", wit())
    # namespace + version
    if p.root.nsmap.get("entities") != ENT:
        ctx.viol("namespace:entities-not-declared", f"xmlns:entities={p.root.nsmap.get('entities')!r}", wit())
    if p.model.get(xf.q(ENT, "entities-version")) != "2024.1.0":
        ctx.viol("model:entities-version", f"{p.model.get(xf.q(ENT, 'entities-version'))!r}", wit())


def _norm(d):
    return {k: re.sub(r"\s+", " ", v).strip() for k, v in d.items()}


def run_shard(ctx):
    n = 0
    for combo in itertools.product((1, 0), repeat=4):
        for shape in SHAPES:
            for placement in PLACEMENTS:
                for dataset, ds_ok in DATASETS:
                    n += 1
                    if not ctx.mine(n):
                        continue
                    form, saved = build(combo, shape, placement, dataset)
                    # custom namespaces next to the entity declaration (rotating): prefixes that contain or end in 'entities' included
                    nsv = NS_VARIANTS[n % len(NS_VARIANTS)]
                    if nsv:
                        form.settings["namespaces"] = nsv
                    if n % 5 == 2:
                        form.settings["omit_instanceID"] = ["yes", "true", "Yes"][n % 3]  # no instanceID: the declaration is still due
                    sig = f"{combo}|{shape}|{placement}|{dataset}|ns{n % len(NS_VARIANTS)}"
                    ctx.ctr("decision_cases")
                    ctx.case(sig=sig)
                    wit = lambda **kw: common.witness(form, combo=list(combo), shape=shape, placement=placement, dataset=dataset, **kw)  # noqa: E731
                    if n % 3 == 1:
                        # a workbook started from a template: all five entities columns are on the sheet, the unused ones with empty cells -
                        # what counts is what the entity row says, not which headers exist
                        sheets_ = form.to_sheets()
                        eh, er = sheets_["entities"]
                        add_ = [c_ for c_ in ("entity_id", "create_if", "update_if", "label") if c_ not in eh]
                        sheets_["entities"] = (list(eh) + add_, [list(r_) + [None] * len(add_) for r_ in er])
                        o = drive.convert_sheets(sheets_, fmt=("dict", "xlsx", "md")[n % 9 // 3], args=form.args)
                        ctx.ctr("template_sheets_with_empty_columns")
                    else:
                        o = drive.convert_form(form)
                    why = expected_reject(combo, placement, ds_ok)
                    if dataset == "x:y":
                        why = why  # prefixed NCName is admitted by the name rule; outcome judged as accepted-or-rejected below
                    if why:
                        ctx.ctr("rejections_judged")
                        if o.ok:
                            ctx.viol(f"accepted-but-must-reject:{why}", f"combination id={combo[0]} create_if={combo[1]} update_if={combo[2]} label={combo[3]}, "
                                     f"save_to {placement}, dataset {dataset!r} was converted", wit())
                        elif not o.exc_is_pyxform:
                            ctx.viol(f"internal-exception:{o.exc_type}:{why}", o.brief(), wit())
                        continue
                    if not o.ok:
                        if dataset == "x:y":
                            continue
                        ctx.viol(f"rejected-but-valid:{'id' if combo[0] else ''}{'C' if combo[1] else ''}{'U' if combo[2] else ''}{'L' if combo[3] else ''}",
                                 f"valid combination rejected: {o.brief()}", wit())
                        continue
                    if dataset == "x:y":
                        continue
                    judge_accepted(ctx, form, combo, shape, saved, o, wit, dataset)
                    if n % 3 == 0 and getattr(o, "result", None) is not None:
                        # the survey rebuilt from its own JSON dump declares the same entity (an API caller stores and reloads forms this way)
                        import json as _json
                        from pyxform.builder import create_survey_element_from_dict
                        try:
                            sv2 = create_survey_element_from_dict(_json.loads(_json.dumps(o.result._survey.to_json_dict())))
                            x2 = sv2.to_xml(validate=False, pretty_print=False)
                        except Exception as e2:  # noqa: BLE001
                            ctx.viol(f"reload:raised:{type(e2).__name__}", f"reloading the survey's JSON dump raised {type(e2).__name__}: {str(e2)[:200]}", wit(history="dump-load"))
                        else:
                            ctx.ctr("reloaded_surveys_judged")
                            o2 = type("O", (), {})()
                            o2.xform = x2
                            judge_accepted(ctx, form, combo, shape, saved, o2, lambda **kw: wit(history="survey -> to_json_dict -> JSON text -> survey -> to_xml", **kw), dataset)
                    if n <= 3:
                        ctx.sample({"combination": dict(zip(["entity_id", "create_if", "update_if", "label"], combo)), "shape": shape, "save_to": placement,
                                    "dataset": dataset, "observed": "attributes, binds, setvalue, saveto, namespace as the table prescribes"})
    # property names
    for (prop, ok), placement in itertools.product(PROPS, ("top", "group")):
        n += 1
        if not ctx.mine(n):
            continue
        form, saved = build((0, 0, 0, 1), "literal", placement, "trees", prop)
        o = drive.convert_form(form)
        ctx.ctr("rejections_judged")
        ctx.case(sig=f"prop|{prop}|{placement}")
        wit = lambda **kw: common.witness(form, prop=prop, **kw)  # noqa: E731
        if not ok and o.ok:
            ctx.viol("accepted-but-must-reject:property-name", f"save_to {prop!r} accepted", wit())
        elif ok and not o.ok:
            ctx.viol("rejected-but-valid:property-name", f"save_to {prop!r}: {o.brief()}", wit())
        elif not o.ok and not o.exc_is_pyxform:
            ctx.viol(f"internal-exception:{o.exc_type}:property-name", o.brief(), wit())
        elif o.ok:
            p = xf.Parsed(o.xform)
            vals = [b.get(xf.q(ENT, "saveto")) for b in p.binds() if b.get(xf.q(ENT, "saveto")) is not None]
            if vals != [prop]:
                ctx.viol("saveto:value", f"saveto values {vals}, expected [{prop!r}]", wit())
    # structural rejections
    structural = []
    f1 = gen.simple_form([("text", "q1", {"label": "Q", "save_to": "p"})])
    structural.append(("saveto-without-entities-sheet", f1))
    for col in ("bogus_column", "name", "Name", "type", "parameters", "parent", "extra_data", "children", "repeat", "save_to", "bind::x", "relevant", "calculation",
                "label::en", "label::English (en)", "entity_id::x", "create_if::a", "list_name::en"):
        f2, _ = build((0, 0, 0, 1), "literal", "none", "trees")
        f2.entities[col] = "x"
        structural.append((f"unknown-entities-column:{col}", f2))
    for col in ("bogus_column", "create_iff", "Label ", "updateif", "label::en"):
        f2, _ = build((0, 0, 0, 1), "literal", "none", "trees")
        structural.append((f"unknown-entities-column-with-empty-cell:{col}", f2))  # the column is on the sheet, the entity row has nothing in it
    f3, _ = build((0, 0, 0, 1), "literal", "none", "trees")
    f3.extra_sheets = {}
    structural.append(("two-entity-rows", f3))
    for variant in ("blank-list-name", "only-label", "only-update-if", "same-list-name"):
        f4, _ = build((0, 0, 0, 1), "literal", "none", "trees")
        structural.append((f"two-entity-rows:{variant}", f4))
    for name, form in structural:
        n += 1
        if not ctx.mine(n):
            continue
        sheets = form.to_sheets()
        if name.startswith("unknown-entities-column-with-empty-cell:"):
            h, rows = sheets["entities"]
            col = name.split(":", 1)[1]
            if col.strip().lower() in [str(x).strip().lower() for x in h]:
                continue
            sheets["entities"] = (list(h) + [col], [list(r) + [None] for r in rows])
        if name == "two-entity-rows":
            h, rows = sheets["entities"]
            sheets["entities"] = (h, rows + [["second"] + rows[0][1:]])
        elif name.startswith("two-entity-rows:"):
            h, rows = sheets["entities"]
            v = name.split(":")[1]
            second = {"blank-list-name": [None] + rows[0][1:], "only-label": [None if x != "label" else "concat('second', 'row')" for x in h],
                      "only-update-if": [None] * len(h), "same-list-name": list(rows[0])}[v]
            if v == "only-update-if":
                h = h + ["update_if", "entity_id"]
                rows = [r + [None, None] for r in rows]
                second = [None] * (len(h) - 2) + ["true()", "'x'"]
            sheets["entities"] = (h, rows + [second])
        o = drive.convert_sheets(sheets)
        ctx.ctr("rejections_judged")
        ctx.case(sig=f"structural|{name}")
        if o.ok:
            ctx.viol(f"accepted-but-must-reject:{name}", "converted", common.witness(form, structural=name))
        elif not o.exc_is_pyxform:
            ctx.viol(f"internal-exception:{o.exc_type}:{name}", o.brief(), common.witness(form, structural=name))
    # several forms with entity declarations parsed and built before the first of them is rendered (a batch converter, a cache of surveys)
    for k in range(12):
        n += 1
        if not ctx.mine(n):
            continue
        from pyxform.builder import create_survey_element_from_dict
        from pyxform.xls2json import workbook_to_json
        from pyxform.xls2json_backends import get_xlsform
        specs = [("shrubs", (0, 1, 0, 1)), ("trees", (1, 0, 1, 0)), ("rocks", (0, 0, 0, 1)), ("birds", (1, 1, 1, 1))]
        order = specs[k % 4:] + specs[:k % 4]
        built = []
        for ds, combo in order[: 2 + k % 3]:
            fm, saved = build(combo, "ref", "top", ds)
            sv = create_survey_element_from_dict(workbook_to_json(get_xlsform(render.to_dict(fm.to_sheets())), warnings=[]))
            built.append((ds, combo, fm, saved, sv))
        for ds, combo, fm, saved, sv in built:  # render only now, oldest first
            ctx.ctr("accepted_compared")
            ctx.case(sig=f"batch-build|{k}|{ds}")
            try:
                x = sv.to_xml(validate=False, pretty_print=False)
            except Exception as e:  # noqa: BLE001
                ctx.viol("batch-build:render-raised", f"{ds}: a survey built before {len(built) - 1} other entity forms failed to render: {type(e).__name__}: {str(e)[:200]}", common.witness(fm, dataset=ds))
                continue
            class _O:  # the shape judge_accepted expects
                pass
            o = _O()
            o.xform = x
            judge_accepted(ctx, fm, combo, "ref", saved, o, lambda **kw: common.witness(fm, dataset=ds, history="built before other entity forms, rendered later", **kw), ds)
    # save_to on rows that are neither ordinary questions nor groups: the audit row (moved to meta) - without an entities sheet it must be refused like any other
    n += 1
    if ctx.mine(n):
        f6 = gen.simple_form([("text", "q1", {"label": "Q"}), ("audit", "audit", {"save_to": "p_audit"})])
        o = drive.convert_form(f6)
        ctx.ctr("rejections_judged")
        ctx.case(sig="saveto-on-audit-without-entities-sheet")
        if o.ok:
            ctx.viol("accepted-but-must-reject:saveto-without-entities-sheet:audit-row", "save_to on the audit row without an entities sheet was converted "
                     f"(entities:saveto in output: {'entities:saveto' in o.xform})", common.witness(f6))
    # ... and with an entities sheet the audit row's save_to is held to the same naming rules as any question's (and a good name is bound on meta/audit)
    for nm, good in (("p_audit", True), ("soil.ph", True), ("name", False), ("LaBeL", False), ("__audit", False), ("1st", False), ("a b", False), ("x$", False)):
        for params in (None, "track-changes=true"):
            n += 1
            if not ctx.mine(n):
                continue
            cells = {"save_to": nm}
            if params:
                cells["parameters"] = params
            f7 = gen.simple_form([("text", "q1", {"label": "Q", "save_to": "p0"}), ("audit", "audit", cells)])
            f7.entities = {"list_name": "trees", "label": "concat('L', 'x')"}
            o = drive.convert_form(f7)
            ctx.ctr("rejections_judged")
            ctx.case(sig=f"saveto-on-audit|{nm}|{bool(params)}")
            if good:
                if not o.ok:
                    ctx.viol("rejected-but-valid:saveto-on-audit-row", f"save_to {nm!r} on the audit row: {o.brief()[:200]}", common.witness(f7))
                elif f'saveto="{nm}"' not in o.xform:
                    ctx.viol("saveto:missing:audit-row", f"save_to {nm!r} on the audit row is not on any bind", common.witness(f7))
            elif o.ok:
                ctx.viol("accepted-but-must-reject:saveto-name:audit-row", f"save_to {nm!r} on the audit row was converted (entities:saveto in output: {'entities:saveto=' in o.xform})", common.witness(f7))
            elif not o.exc_is_pyxform:
                ctx.viol("crash:saveto-on-audit-row", f"{nm!r}: {o.brief()}", common.witness(f7))
    # save_to on the begin row of every kind of section, in every spelling of the type cell: a section holds no value, the form is refused
    for bt, et in (("begin group", "end group"), ("begin_group", "end_group"), ("begin repeat", "end repeat"), ("Begin Group", "End Group"), ("begin  group", "end group"),
                   ("begin loop over lp9", "end loop"), ("begin_loop over lp9", "end_loop"), ("begin loop  over lp9", "end loop")):
        n += 1
        if not ctx.mine(n):
            continue
        f8 = gen.simple_form([("text", "q1", {"label": "Q", "save_to": "p0"}), (bt, "sec", {"label": "S", "save_to": "p_sec"}, [("text", "inq", {"label": "I"})])],
                             choices={"lp9": [{"name": "a", "label": "A"}, {"name": "b", "label": "B"}]})
        f8.survey[1].meta["end_type"] = et
        f8.entities = {"list_name": "trees", "label": "concat('L', 'x')"}
        o = drive.convert_form(f8)
        ctx.ctr("rejections_judged")
        ctx.case(sig=f"saveto-on-section-row|{bt}")
        if o.ok:
            ctx.viol(f"accepted-but-must-reject:saveto-on-section-row:{bt.split()[0].lower().replace('_', ' ').split()[0]}-{'loop' if 'loop' in bt else ('repeat' if 'repeat' in bt else 'group')}",
                     f"save_to on a {bt!r} row was converted (entities:saveto on the section's bind: {'saveto=\"p_sec\"' in o.xform})", common.witness(f8))
        elif not o.exc_is_pyxform:
            ctx.viol("crash:saveto-on-section-row", f"{bt!r}: {o.brief()}", common.witness(f8))
    # selects whose LIST is called like a container: they are questions, save_to is legal on them
    for ln in ("group_list", "my_repeat_codes", "loop1", "begin", "groups"):
        n += 1
        if not ctx.mine(n):
            continue
        f7 = gen.simple_form([("select_one " + ln, "s1", {"label": "S", "save_to": "p1"}), ("text", "grouping", {"label": "T", "save_to": "p2"})],
                             choices={ln: [{"name": "a", "label": "A"}]})
        f7.entities = {"list_name": "trees", "label": "concat('L', 'x')"}
        o = drive.convert_form(f7)
        ctx.ctr("accepted_compared")
        ctx.case(sig=f"saveto-on-select-with-list-named|{ln}")
        if not o.ok:
            ctx.viol("rejected-but-valid:saveto-on-select-whose-list-name-contains-group-or-repeat", f"select_one {ln} with save_to: {o.brief()}", common.witness(f7))
        else:
            vals = sorted(b.get(xf.q(ENT, "saveto")) for b in xf.Parsed(o.xform).binds() if b.get(xf.q(ENT, "saveto")) is not None)
            if vals != ["p1", "p2"]:
                ctx.viol("saveto:value", f"saveto values {vals}, expected ['p1', 'p2']", common.witness(f7))
    # a question that happens to be called like the generated declaration ('entity') is an ordinary question and may be referenced
    for qname, mode in itertools.product(("entity", "Entity", "label", "dataset"), ("create", "update")):
        n += 1
        if not ctx.mine(n):
            continue
        f5 = gen.simple_form([("text", qname, {"label": "Q"}), ("text", "other", {"label": "O", "save_to": "p1"})])
        f5.entities = {"list_name": "trees", "label": "concat('L', ${%s})" % qname}
        if mode == "update":
            f5.entities.update({"entity_id": "${%s}" % qname, "update_if": "${%s} != ''" % qname})
        else:
            f5.entities["create_if"] = "${%s} != ''" % qname
        o = drive.convert_form(f5)
        ctx.ctr("accepted_compared")
        ctx.case(sig=f"question-named|{qname}|{mode}")
        if not o.ok:
            ctx.viol(f"rejected-but-valid:question-named-like-generated-node", f"a question named {qname!r} referenced from the entities sheet ({mode}): {o.brief()}", common.witness(f5, qname=qname))
            continue
        p5 = xf.Parsed(o.xform)
        lb = [b for b in p5.binds() if b.get("nodeset") == "/data/meta/entity/label"]
        if len(lb) != 1 or f"/data/{qname}" not in (lb[0].get("calculate") or ""):
            ctx.viol("entity:label-bind", f"label bind {[b.attrib for b in lb]} does not read /data/{qname}", common.witness(f5, qname=qname))
    # no entities sheet -> no namespace / version
    n += 1
    if ctx.mine(n):
        o = drive.convert_form(gen.simple_form([("text", "q1", {"label": "Q"})]))
        if o.ok:
            p = xf.Parsed(o.xform)
            ctx.case(sig="no-entities")
            if "entities" in p.root.nsmap or p.model.get(xf.q(ENT, "entities-version")) is not None:
                ctx.viol("namespace:declared-without-entity", "entities namespace/version present without an entities sheet", {})


def replay(w):
    def chk(ctx, wit):
        form = common.form_from_witness(wit)
        o = drive.convert_form(form)
        print("  outcome:", o.brief())
        if "combo" in wit:
            combo = tuple(wit["combo"])
            ds_ok = dict(DATASETS).get(wit["dataset"], True)
            why = expected_reject(combo, wit["placement"], ds_ok)
            if why:
                if o.ok:
                    ctx.viol(f"accepted-but-must-reject:{why}", "converted")
            elif not o.ok:
                ctx.viol("rejected-but-valid", o.brief())
            else:
                saved = {"top": ["/data/q1"], "group": ["/data/g1/gq"], "group>group": ["/data/ng0/ng1/deepq"]}.get(wit["placement"], [])
                judge_accepted(ctx, form, combo, wit["shape"], saved, o, lambda **kw: {}, wit["dataset"])
    return common.replay_with(PROP, w, chk)
