"""C03 — ${name} references become XPaths that reach the named question's node.

Two independent observation points:
 (a) online  H-subst: post-condition on Survey._var_repl_function — the returned path,
     resolved by path arithmetic from the context element pyxform used, must be the
     chain of .name's from the target element up;
 (b) offline: for every reference-bearing cell of the abstract form a regex built from
     the literal segments of the cell captures the substituted paths in the corresponding
     output attribute / output@value; each captured path is resolved from the node the
     cell belongs to (AF position) and must be the target's instance path — absolute, or a
     relative path equivalent to it; relative is *required* when the target's innermost
     enclosing repeat also encloses the referrer (except indexed-repeat() arguments and
     trigger targets); relative paths inside choice filters / secondary-instance
     predicates must be anchored with current(); ${last-saved#x} must become
     instance('__last-saved') + absolute path; no '${' may survive anywhere; references
     to missing/duplicated names must fail with an error naming them.
Workload: W-layout (bounded-exhaustive placements of referrer and target in trees of
groups/repeats, plain and adversarial names, both sheet orders, referrer = question /
group / repeat) with every reference-accepting cell kind on the referrer; random W-core.
"""
from __future__ import annotations

import itertools
import re

from .. import common, drive, gen, refmodel, xf
from ..model import Form, Row
from ..refmodel import REF_RE, texts

PROP = "C03"
LEVEL = "exploration"
TECHNIQUE = "runtime reference-model monitor (regex capture of substituted paths + path arithmetic from the owning node) + icontract-style post-condition hook on Survey._var_repl_function"
RULE = ("cases = (layout, names, order, referrer kind) forms carrying all reference-accepting cell kinds, enumerated exhaustively up to the "
        "stated depth (quick: prefix/target/referrer chains over {g,r} of length <=2; thorough: <=3 plus random to depth 6), plus random W-core "
        "forms and negative forms (missing/duplicate names); non-trivial = converted and >=1 substituted path judged; distinct = distinct "
        "(layout, name style, order, referrer kind) | form feature signature")
ASSUMPTIONS = ["equivalence of a relative path is judged on node names (path arithmetic), as the statement words it; position-sensitive "
               "evaluation is reported as a diagnostic counter only", "select-from-repeat item-relative './name' predicates are by design"]


def plan(tier, seed):
    depth = 2 if tier == "quick" else 3
    return {"shards": 16, "timeout": 1200 if tier == "quick" else 5400, "depth": depth, "n_random": 800 if tier == "quick" else 12000,
            "floors": {"suite_conversions_judged": 500, "paths_judged": 20000, "layouts": 1000, "hook_evals": 20000, "distinct": 500, "negative_cases": 30},
            "exhaustive": False}


def base_t(r):
    return (r.type or "").split(" ")[0]


# ----------------------------------------------------------------------------- layout enumeration
def chains(maxlen):
    out = [()]
    for n in range(1, maxlen + 1):
        out += list(itertools.product("gr", repeat=n))
    return out


PLAIN = {"g": ["grp_a", "grp_b", "grp_c", "grp_d", "grp_e", "grp_f", "grp_g", "grp_h", "grp_i"], "r": ["rep_a", "rep_b", "rep_c", "rep_d", "rep_e", "rep_f", "rep_g", "rep_h", "rep_i"]}
ADV = {"g": ["g", "g1", "g_", "gg", "g1a", "g-1", "g.1", "G2", "g11"], "r": ["r", "r1", "r_", "rr", "r1a", "r-1", "r.1", "R2", "r11"]}


def layout_form(prefix, tsuf, rsuf, style, target_first, ref_kind, with_cells=True):
    """common prefix containers, then two branches: target chain ending in question tgt, referrer chain ending in the referrer."""
    names = {"g": iter((ADV if style == "adv" else PLAIN)["g"]), "r": iter((ADV if style == "adv" else PLAIN)["r"])}
    if style == "uni":
        names = {"g": iter(["gr\u00fcppe", "g\u0308b", "g\u00b7c", "gd", "ge", "gf", "gg", "gh", "gi"]), "r": iter(["r\u00e9p", "re\u0301b", "r\u00b7c", "rd", "re", "rf", "rg", "rh", "ri"])}
    extras = []

    def sec(k):
        nm = next(names[k])
        return Row("repeat" if k == "r" else "group", "begin repeat" if k == "r" else "begin group", nm, {"label": f"L {nm}"})

    f = Form()
    cur = f.survey
    for k in prefix:
        s = sec(k)
        cur.append(s)
        cur = s.children
    base = cur
    # "uni": a valid XML name that is not ASCII: a decomposed letter (base + combining mark), a middle dot, a composed letter
    tname = {"plain": "tgt", "adv": "t", "case": "Tgt", "uni": "re\u0301ponse\u00b7\u00e9t\u00e9"}[style]
    tq = Row("q", "integer", tname, {"label": "target"})
    tb = tq
    for k in reversed(tsuf):
        s = sec(k)
        s.children = [tb]
        tb = s
    R = "${%s}" % tname
    # referrer
    lst = "l1"
    if ref_kind == "question":
        cells = {"label": f"lab {R} x", "hint": f"{R} hint", "relevant": f"{R} > 1", "constraint": f". > {R} and {R} != 5", "required": f"{R} = 2",
                 "read_only": f"{R} = 3", "constraint_message": f"msg {R}", "default": f"{R} + 1", "choice_filter": f"name != {R} and cf = {R}",
                 "parameters": "randomize=true seed=" + {"plain": f"{R}", "adv": f"{R}*2", "case": f"{R}+{R}", "uni": f"{R}"}[style], "instance::xattr": f"{R}", "body::kb:flag": f"{R}", "bind::odk:x": f"{R} * 2"}
        rq = Row("q", f"select_one {lst}", "refq", cells)
        # an external select (external_choices sheet) next to it: its filter lives in input/@query and needs current() like any predicate
        extras = [Row("q", "select_one_external ext", "refx", {"label": "x", "choice_filter": f"state={R} and cf = {R}"}),
                  Row("q", "text", "refap", {"label": "ap", "appearance": f"w3 custom('f', 'matches', 'col', {R})"})]
    elif ref_kind == "calc":
        rq = Row("q", "calculate", "refq", {"calculation": f"{R} + indexed-repeat({R}, /data/x, 1) + ${{last-saved#{tname}}}",
                                            "relevant": (f'instance("{lst}")/root/item[name = {R}]/label != "" and pulldata("f", "a", "b", {R})' if style == "adv" else  # either quote style delimits an XPath string
                                                         f"instance('{lst}')/root/item[name = {R}]/label != '' and pulldata('f', 'a', 'b', {R})")})
    elif ref_kind == "group":
        rq = Row("group", "begin group", "refq", {"label": f"G {R}", "relevant": f"{R} > 0"}, [
            Row("q", "text", "inner", {"label": f"in {R}"}),
            # defaults of date-like types: a '-' there may be part of a literal date/coordinate, but with a reference it is an expression
            Row("q", "date", "dflt_d", {"label": "d", "default": f"{R} - 1"}),
            Row("q", "geopoint", "dflt_g", {"label": "g", "default": f"if({R} - 1 > 0, {R}, '')"}),
            Row("q", "dateTime", "dflt_dt", {"label": "dt", "default": f"{R}-{R}"}),
            # the literal first, the reference after the '-': still an expression
            Row("q", "date", "dflt_d2", {"label": "d2", "default": f"2020-01-01 - {R}"}),
            Row("q", "geopoint", "dflt_g2", {"label": "g2", "default": f"-1 * {R}"}),
            # a bare last-saved reference (the whole cell), the shortest possible one when the name has one character
            Row("q", "text", "dflt_ls", {"label": "ls", "default": "${last-saved#%s}" % tname}),
        ])
    elif ref_kind == "selrep":
        rq = Row("q", f"select_one {R}", "refq", {"label": "from repeat", "choice_filter": f"{R} != 'zz'"})
    elif ref_kind == "selrep-nofilter":
        rq = Row("q", f"select_one {R}", "refq", {"label": "from repeat"})
    else:
        rq = Row("repeat", "begin repeat", "refq", {"label": f"R {R}", "relevant": f"{R} > 0 or ${{last-saved#{tname}}} = 1", "repeat_count": f"{R}"},
                 [Row("q", "text", "inner", {"label": f"in {R}", "default": f"{R}"})])
    if not with_cells:
        rq.cells = {"label": "x", "relevant": f"{R} > 1"}
    rb = rq
    first = True
    for k in reversed(rsuf):
        s = sec(k)
        s.children = [rb] + (extras if first else [])
        first = False
        rb = s
    tail = extras if not rsuf else []
    if target_first:
        base.extend([tb, rb] + tail)
    else:
        base.extend([rb] + tail + [tb])
    if extras:
        f.external_choices = [{"list_name": "ext", "name": "e1", "label": "E1", "state": "s1", "cf": "1"}, {"list_name": "ext", "name": "e2", "label": "E2", "state": "s2", "cf": "2"}]
    if style in ("plain", "adv") and (len(prefix) + len(tsuf) + len(rsuf)) % 2 == 1:
        # questions elsewhere in the form that carry the names of the repeats (legal: they are not siblings): a repeat stays a repeat
        reps = [r.name for r, _ in f.walk() if r.kind == "repeat" and r.name != "refq"]
        if reps:
            f.survey.append(Row("group", "begin group", "shadow_zone", {"label": "S"}, [Row("q", "integer", nm, {"label": "shadow"}) for nm in reps]))
    if style == "case":
        # a decoy whose name differs from the target's only by case, elsewhere in the form: no reference may land on it
        f.survey.append(Row("group", "begin group", "decoy_zone", {"label": "D"}, [Row("q", "integer", tname.lower(), {"label": "decoy"})]))
    f.choices = {lst: [{"name": "a", "label": "A", "cf": "1"}, {"name": "b", "label": "B", "cf": "2"}]}
    f.settings = {"namespaces": 'kb="http://kobotoolbox.org/xforms"', "form_id": "lay"}
    if ref_kind == "calc":
        # indexed-repeat second arg must be a repeat path; use a literal absolute path to keep the form valid-looking
        pass
    return f, tname


# ----------------------------------------------------------------------------- offline judge
def resolve_relative(ctx_path, rel):
    """Path arithmetic: evaluate a relative location path from the node at ctx_path."""
    segs = ctx_path.strip("/").split("/")
    for part in rel.split("/"):
        if part == "..":
            if not segs:
                return None
            segs.pop()
        elif part in (".", ""):
            continue
        else:
            segs.append(part)
    return "/" + "/".join(segs)


def enclosing_repeat(entry):
    return entry.repeat


def repeat_path(rm, rep_row):
    for e in rm.entries:
        if e.row is rep_row:
            return e.path
    return None


class Judge:
    def __init__(self, ctx, form, rm, p, klass):
        self.ctx, self.form, self.rm, self.p, self.klass = ctx, form, rm, p, klass
        self.targets = {}
        for e in rm.entries:
            if e.row is not None and e.row.name:
                self.targets.setdefault(e.row.name, []).append(e)

    def wit(self, **kw):
        return common.witness(self.form, klass=self.klass, **kw)

    def judge(self, cellkind, owner_entry, source, actual, ctx_path=None, need_current=False, exempt_abs=False, itemrel_repeat=None, alt_ctx=None):
        """source: cell text with ${..}; actual: output string. Captures each substituted path and judges it."""
        from .C05 import value_pattern
        # a line break inside the cell reaches an attribute as a line break, which every XML parser hands back as a space
        source = source.replace("\r\n", " ").replace("\n", " ").replace("\r", " ")
        actual = actual.replace("\n", " ")
        m = value_pattern(source).match(actual)
        ctxp = ctx_path or owner_entry.path
        if m is None:
            self.ctx.viol(f"{cellkind}:literal-text-changed", f"{cellkind} of {owner_entry.path}: output {actual!r} does not match source {source!r} with references substituted", self.wit(cell=cellkind))
            return
        refs = [(mm.group(1) is not None, mm.group(2), mm.start()) for mm in REF_RE.finditer(source)]
        for (last_saved, name, pos), got in zip(refs, m.groups()):
            self.ctx.ctr("paths_judged")
            tl = self.targets.get(name)
            if not tl or len(tl) != 1:
                continue
            t = tl[0]
            in_ir = _in_indexed_repeat(source, pos)
            sig_rel = _relation(owner_entry, t)
            if last_saved:
                want = f"instance('__last-saved'){t.path}"
                if got != want:
                    self.ctx.viol(f"{cellkind}:last-saved", f"${{last-saved#{name}}} in {cellkind} of {owner_entry.path} became {got!r}, expected {want!r}", self.wit(cell=cellkind))
                continue
            if alt_ctx is not None and self._ok_from(alt_ctx, got, t):
                # right from the alternative context (the trigger question) -> is it also right from the owner?
                if not self._ok_from_entry(owner_entry, ctxp, got, t):
                    self.ctx.viol(f"{cellkind}:reference-resolved-from-trigger-question-not-from-calculated-node",
                                  f"${{{name}}} in {cellkind} of {owner_entry.path} became {got!r}: correct relative to the trigger question {alt_ctx[0]} but not relative to {ctxp}, the node the cell belongs to (setvalue/@ref)", self.wit(cell=cellkind))
                continue
            ir_arg = _indexed_repeat_arg(source, pos)
            if ir_arg in (0, 1, 3, 5) and not got.startswith("/"):
                # the node name and the repeat of each level are absolute by design (the function itself walks down from the root)
                self.ctx.viol(f"{cellkind}:indexed-repeat-argument-not-absolute:arg{ir_arg}", f"${{{name}}} as argument #{ir_arg + 1} of indexed-repeat() in {cellkind} of {owner_entry.path} became the relative path {got!r}",
                              self.wit(cell=cellkind))
                continue
            if got.startswith("/"):
                if got != t.path:
                    self.ctx.viol(f"{cellkind}:absolute-wrong-node:{sig_rel}", f"${{{name}}} in {cellkind} of {owner_entry.path} became {got!r}; the node is {t.path!r}", self.wit(cell=cellkind))
                    continue
                # relative required?
                tr = t.repeat
                # absolute by design are the node-name and repeat arguments of indexed-repeat() (#1, #2, #4, #6); an index argument (#3, #5, #7) is an
                # ordinary expression evaluated at the referrer: the relative-path rule applies to the references in it
                if tr is not None and not exempt_abs and not (in_ir and ir_arg in (None, 0, 1, 3, 5)):
                    rp = repeat_path(self.rm, tr)
                    if ctxp.startswith(rp + "/"):
                        self.ctx.viol(f"{cellkind}:absolute-where-relative-required:{sig_rel}",
                                      f"${{{name}}} in {cellkind} of {owner_entry.path} became the absolute path {got!r} although the target's innermost repeat {rp} also encloses the referrer", self.wit(cell=cellkind))
                self.ctx.ctr("absolute_paths")
                continue
            rel = got
            anchored = False
            if rel.startswith("current()/"):
                rel = rel[len("current()/"):]
                anchored = True
            if itemrel_repeat is not None and rel.startswith("./"):
                # select-from-repeat: predicate paths starting './' are item-relative (resolved against the source repeat)
                res = resolve_relative(itemrel_repeat, rel)
            else:
                if (need_current or _in_instance_predicate(source, pos)) and not anchored:
                    self.ctx.viol(f"{cellkind}:relative-not-anchored-with-current", f"${{{name}}} in {cellkind} of {owner_entry.path} became {got!r}: a relative path inside a secondary-instance predicate must start with current()/", self.wit(cell=cellkind))
                res = resolve_relative(ctxp, rel)
            self.ctx.ctr("relative_paths")
            if res != t.path:
                self.ctx.viol(f"{cellkind}:relative-wrong-node:{sig_rel}", f"${{{name}}} in {cellkind} of {owner_entry.path} became {got!r}, which from {ctxp} reaches {res!r}; the node is {t.path!r}", self.wit(cell=cellkind))
            else:
                # diagnostic: does the relative path leave the shared repeat and re-enter it?
                tr = t.repeat
                if tr is not None:
                    rp = repeat_path(self.rm, tr)
                    ups = rel.split("/").count("..")
                    depth_in = len(ctxp[len(rp):].strip("/").split("/")) if ctxp.startswith(rp + "/") else 0
                    if depth_in and ups > depth_in:
                        self.ctx.ctr("diag_relative_paths_leaving_shared_repeat")


def _judge_helpers():
    pass


def _ok_from(self, alt, got, t):
    """Would `got` satisfy the rules if the cell belonged to the node at alt=(path, entry)?"""
    path, entry = alt
    return self._ok_from_entry(entry, path, got, t)


def _ok_from_entry(self, entry, ctxp, got, t):
    if got.startswith("/"):
        if got != t.path:
            return False
        if t.repeat is not None:
            rp = repeat_path(self.rm, t.repeat)
            if ctxp.startswith(rp + "/"):
                return False
        return True
    rel = got[len("current()/"):] if got.startswith("current()/") else got
    return resolve_relative(ctxp, rel) == t.path


Judge._ok_from = _ok_from
Judge._ok_from_entry = _ok_from_entry


def _ir_calls(source):
    """[(start, end, [(arg_start, arg_end), ...])] for every indexed-repeat( ... ) call, parentheses balanced, quotes respected (calls may nest)."""
    out = []
    i = 0
    while True:
        i = source.find("indexed-repeat(", i)
        if i < 0:
            return out
        j = i + len("indexed-repeat(")
        depth, quote, a0, args = 1, None, j, []
        k = j
        while k < len(source) and depth:
            c = source[k]
            if quote:
                quote = None if c == quote else quote
            elif c in "'\"":
                quote = c
            elif c == "(":
                depth += 1
            elif c == ")":
                depth -= 1
                if depth == 0:
                    args.append((a0, k))
            elif c == "," and depth == 1:
                args.append((a0, k))
                a0 = k + 1
            k += 1
        if depth:
            args.append((a0, len(source)))
        out.append((i, k, args))
        i = j


def _in_indexed_repeat(source, pos):
    return any(a <= pos < b for a, b, _ in _ir_calls(source))


def _in_instance_predicate(source, pos):
    """Is the reference at `pos` inside a [...] predicate applied to an instance('x') / instance("x") path?"""
    for m in re.finditer(r"""instance\(\s*(?:'[^']*'|"[^"]*")\s*\)""", source):
        i = m.end()
        # walk the location path that follows the call; every [ ... ] met on the way is a predicate over the secondary instance
        while i < len(source):
            c = source[i]
            if c == "[":
                depth, j = 1, i + 1
                while j < len(source) and depth:
                    depth += source[j] == "["
                    depth -= source[j] == "]"
                    j += 1
                if i < pos < j:
                    return True
                i = j
            elif c.isalnum() or c in "/_-.:*@":
                i += 1
            else:
                break
    return False


def _indexed_repeat_arg(source, pos):
    """Position (0-based) of the argument of the innermost indexed-repeat() call that holds the reference at `pos`, or None."""
    best = None
    for a, b, args in _ir_calls(source):
        if a <= pos < b:
            for n, (x, y) in enumerate(args):
                if x <= pos < y:
                    best = n
    return best


def _relation(owner, t):
    """Relation class for distinct counting / keys: (owner-in-repeat, target-in-repeat, same-repeat?, nested?)"""
    o, tr = owner.repeat, t.repeat
    if o is None and tr is None:
        return "no-repeats"
    if o is tr:
        return "same-repeat"
    if tr is None:
        return "referrer-in-repeat"
    if o is None:
        return "target-in-repeat"
    # both in repeats, different
    oa = [a for a in owner.anc if a.kind == "repeat"]
    ta = [a for a in t.anc if a.kind == "repeat"]
    if tr in oa:
        return "referrer-in-nested-repeat-of-target"
    if o in ta:
        return "target-in-nested-repeat-of-referrer"
    if set(oa) & set(ta):
        return "sibling-repeats-in-shared-repeat"
    return "unrelated-repeats"


def check_form(ctx, form, klass, sig):
    o = drive.convert_form(form)
    if not o.ok:
        ctx.ctr(f"rejected:{klass}")
        if not o.exc_is_pyxform:
            ctx.ctr("internal_exception_seen(C17's business)")
            if klass in ("indexed-repeat", "lone-cell", "container-target", "path-prefix", "same-text"):
                # the hand-built families are valid forms: an internal exception there means the substitution machinery itself fell over
                ctx.viol(f"substitution-crashed:{klass}:{o.exc_type}", f"[{sig}] {o.brief()[:300]} at {o.exc_frame}", common.witness(form, klass=klass))
        return None
    try:
        p = xf.Parsed(o.xform)
    except xf.XFError:
        ctx.ctr("unparseable_output(C01's business)")
        return None
    ctx.case(sig=sig)
    # (5) no ${ survives anywhere
    for el in p.root.iter():
        if not isinstance(el.tag, str):
            continue
        for k, v in el.attrib.items():
            if "${" in v:
                ctx.viol("token-survives:attribute", f"'${{' survives in @{xf.local(k)}={v!r} on <{xf.local(el.tag)}>", common.witness(form, klass=klass))
        if el.text and "${" in el.text or (el.tail and "${" in el.tail):
            ctx.viol("token-survives:text", f"'${{' survives in text of/after <{xf.local(el.tag)}>", common.witness(form, klass=klass))
    # (4b) whatever refers to the last-saved instance needs that instance declared, exactly once, with the conventional URI
    uses_ls = any("instance('__last-saved')" in v for el in p.root.iter() if isinstance(el.tag, str) for v in el.attrib.values())
    decl_ls = [i for i in p.secondary if i.get("id") == "__last-saved"]
    if uses_ls:
        ctx.ctr("last_saved_forms")
        if len(decl_ls) != 1 or decl_ls[0].get("src") != "jr://instance/last-saved":
            ctx.viol("last-saved:instance-not-declared", f"paths into instance('__last-saved') are emitted but the instance is declared {len(decl_ls)} times "
                     f"(src {[i.get('src') for i in decl_ls]})", common.witness(form, klass=klass))
    rm = refmodel.RM(form)
    J = Judge(ctx, form, rm, p, klass)
    binds = {b.get("nodeset"): p.attr_dict(b) for b in p.binds()}
    trs, _ = p.itext()
    itext_first = {}
    for lang, dflt, txts, _ in trs:
        for tid, vals in txts.items():
            itext_first.setdefault(tid, []).append((lang, vals))
    ctl = {}
    for el in p.body.iter():
        if isinstance(el.tag, str) and el.get("ref") and xf.local(el.tag) not in ("label", "hint", "value", "setvalue", "setgeopoint"):
            ctl.setdefault(el.get("ref"), el)
    repeats = {el.get("nodeset"): el for el in p.body.iter(xf.q(xf.XF, "repeat"))}
    setvalues = {}
    for el in list(p.model) + list(p.body.iter()):
        if isinstance(el.tag, str) and xf.local(el.tag) in ("setvalue", "setgeopoint"):
            setvalues.setdefault(el.get("ref"), []).append(el)
    for e in rm.entries:
        r = e.row
        if r is None:
            if e.kind == "count-helper":
                src = e.generated.cells["repeat_count"]
                b = binds.get(e.path, {})
                if "calculate" in b and "${" in src:
                    J.judge("repeat_count-helper", e, src, b["calculate"])
            continue
        b = binds.get(e.path, {})
        for cell, attr in (("relevant", "relevant"), ("required", "required"), ("read_only", "readonly"), ("constraint", "constraint")):
            v = r.cells.get(cell)
            if v and "${" in v and attr in b:
                J.judge(cell, e, v, b[attr])
        v = r.cells.get("calculation")
        if v and "${" in v:
            if r.cells.get("trigger"):
                if not [sv for sv in setvalues.get(e.path, []) if sv.get("event") == "xforms-value-changed"]:
                    # the expression of this row went somewhere else (or nowhere): nothing computes the row from its own cell
                    ctx.viol("calculation-with-trigger:no-action-targets-the-row", f"{e.path} has calculation {v!r} and trigger {r.cells.get('trigger')!r}, but no value-changed action has ref={e.path}", J.wit(cell="calculation"))
                for sv in setvalues.get(e.path, []):
                    if sv.get("event") == "xforms-value-changed" and sv.get("value") is not None:
                        par = sv.getparent()
                        tpath = par.get("ref") if par is not None else None
                        tent = next((x for x in rm.entries if x.path == tpath), None)
                        J.judge("calculation-with-trigger", e, v, sv.get("value"), alt_ctx=(tpath, tent) if tent is not None else None)
            elif "calculate" in b:
                J.judge("calculation", e, v, b["calculate"])
        for h, v in r.cells.items():
            if h.startswith("bind::") and "${" in v and h[6:] in b:
                J.judge("bind-extra", e, v, b[h[6:]])
        # trigger target: setvalue nested in the trigger's control, ref absolute
        tv = r.cells.get("trigger")
        if tv:
            m = re.fullmatch(r"\$\{([^}]+)\}", tv.strip())
            tl = J.targets.get(m.group(1)) if m else None
            if tl and len(tl) == 1:
                c = ctl.get(tl[0].path)
                ctx.ctr("paths_judged")
                if c is None or not any(ch.get("ref") == e.path for ch in c if isinstance(ch.tag, str) and xf.local(ch.tag) in ("setvalue", "setgeopoint")):
                    ctx.viol("trigger:setvalue-not-nested-in-trigger-control", f"trigger {tv} of {e.path}: no setvalue/setgeopoint with ref={e.path} inside the control of {tl[0].path}", J.wit(cell="trigger"))
        # default (dynamic) -> setvalue value
        v = r.cells.get("default")
        if v and "${" in v:
            n_sv = 0
            for sv in setvalues.get(e.path, []):
                if sv.get("event", "").startswith("odk-instance-first-load") and sv.get("value") is not None:
                    n_sv += 1
                    J.judge("default", e, v, sv.get("value"))
            if not n_sv:
                ctx.viol("default:reference-never-compiled", f"default {v!r} of {e.path} ({base_t(r)}) contains a reference but no first-load setvalue carries it", J.wit(cell="default"))
        # instance:: / body:: attributes
        for h, v in r.cells.items():
            if h.startswith("instance::") and "${" in v:
                for n in p.resolve(e.path):
                    a = p.attr_dict(n)
                    if h[10:] in a:
                        J.judge("instance-attr", e, v, a[h[10:]])
                        break
            if h.startswith("body::") and "${" in v and e.path in ctl:
                a = p.attr_dict(ctl[e.path])
                if h[6:] in a:
                    J.judge("body-attr", e, v, a[h[6:]])
            if h == "appearance" and "${" in v and e.path in ctl and r.kind == "q":
                # a question's appearance may carry a reference (search('file', 'matches', 'col', ${q})): resolved like in any other control attribute
                a = p.attr_dict(ctl[e.path])
                if "appearance" in a:
                    J.judge("appearance", e, v, a["appearance"])
                else:
                    ctx.viol("appearance:attribute-missing", f"{e.path}: appearance {v!r} written, control has no appearance attribute", J.wit(cell="appearance"))
        # repeat_count bare reference -> jr:count
        rc = r.cells.get("repeat_count")
        if r.kind == "repeat" and rc and re.fullmatch(r"\$\{[^}]+\}", rc.strip()) and e.path in repeats:
            a = p.attr_dict(repeats[e.path])
            if "jr:count" in a:
                J.judge("repeat_count", e, rc.strip(), a["jr:count"])
        # label / hint / messages: outputs
        for kind, idsuffix, tagname in (("label", "label", "label"), ("hint", "hint", "hint"), ("guidance_hint", "hint", None),
                                        ("constraint_message", "jr:constraintMsg", None), ("required_message", "jr:requiredMsg", None)):
            for lang, t in texts(r.cells, kind).items():
                if "${" not in t:
                    continue
                got = None
                tid = f"{e.path}:{idsuffix}"
                if tid in itext_first:
                    want_form = "guidance" if kind == "guidance_hint" else None
                    for lg, vals in itext_first[tid]:
                        for form_, segs in vals:
                            if form_ == want_form and any(k == "o" for k, _ in segs):
                                got = segs
                                if _judge_segments(J, kind, e, t, segs):
                                    break
                elif tagname and e.path in ctl:
                    el = ctl[e.path].find(xf.q(xf.XF, tagname))
                    if el is not None:
                        _judge_segments(J, kind, e, t, xf.content_segments(el))
        # choice filter / seed / select-from-repeat
        if r.kind == "q" and e.path in ctl:
            its = ctl[e.path].find(xf.q(xf.XF, "itemset"))
            ns = its.get("nodeset") if its is not None else None
            cf = r.cells.get("choice_filter")
            msel = re.match(r"^\S+ (\$\{([^}]+)\})$", (r.type or "").strip())
            if msel and ns:
                tl = J.targets.get(msel.group(2))
                if tl and len(tl) == 1:
                    t = tl[0]
                    base = ns.split("[", 1)[0].strip()
                    if base.startswith("randomize("):
                        base = base[len("randomize("):]
                    parent = t.path.rsplit("/", 1)[0]
                    res = base if base.startswith("/") else resolve_relative(e.path, base[len("current()/"):] if base.startswith("current()/") else base)
                    ctx.ctr("paths_judged")
                    if res != parent:
                        ctx.viol(f"select-from-repeat:nodeset-wrong-node:{_relation(e, t)}", f"select {r.type!r} at {e.path}: itemset nodeset {ns!r} iterates {res!r}, the answers live under {parent!r}", J.wit(cell="select-from-repeat"))
                    vr = its.find(xf.q(xf.XF, "value")).get("ref")
                    lr = its.find(xf.q(xf.XF, "label")).get("ref")
                    if vr != t.row.name or lr != t.row.name:
                        ctx.viol("select-from-repeat:value-label-ref", f"value/label refs {vr!r}/{lr!r} != {t.row.name!r}", J.wit(cell="select-from-repeat"))
                    if cf and "${" in cf:
                        mm = re.search(r"\[(.*)\]", ns, re.S)
                        if mm:
                            J.judge("choice_filter-select-from-repeat", e, cf, mm.group(1), itemrel_repeat=parent)
                continue
            if ns and cf and "${" in cf:
                mm = re.search(r"\[(.*)\]", ns, re.S)
                if mm:
                    J.judge("choice_filter", e, cf, mm.group(1), need_current=True)
            qy = ctl[e.path].get("query")
            if qy and cf and "${" in cf and base_t(r) == "select_one_external":
                mm = re.search(r"\[(.*)\]", qy, re.S)
                if mm:
                    J.judge("choice_filter-external", e, cf, mm.group(1), need_current=True)
                else:
                    ctx.viol("choice_filter-external:no-predicate", f"{e.path}: query {qy!r} carries no predicate for filter {cf!r}", J.wit(cell="choice_filter"))
            prm = refmodel.parse_params(r.cells.get("parameters"))
            if ns and "seed" in prm and "${" in (r.cells.get("parameters") or ""):
                sm = re.search(r"seed=(\S+)", r.cells["parameters"])  # a lone reference or an expression that starts with one
                mm = re.search(r"^randomize\(.*?\]?\s*,(.+)\)$", ns, re.S)
                if sm and mm:
                    got = " " + mm.group(1).strip() + (" " if sm.group(1).endswith("}") else "")  # pyxform strips the padded path at the ends only
                    J.judge("parameters-seed", e, sm.group(1), got)
                elif sm:
                    ctx.viol("parameters-seed:not-in-itemset", f"{e.path}: seed {sm.group(1)!r} not found in itemset nodeset {ns!r}", J.wit(cell="parameters-seed"))
    # choice labels with references: always absolute
    for ln, rows in form.choices.items():
        for idx, c in enumerate(rows):
            for h, t in c.items():
                if h.split(":")[0] == "label" and isinstance(t, str) and "${" in t:
                    tid = f"{ln}-{idx}"
                    for lg, vals in itext_first.get(tid, []):
                        for form_, segs in vals:
                            if any(k == "o" for k, _ in segs):
                                for k, vv in segs:
                                    if k == "o":
                                        ctx.ctr("paths_judged")
                                        mref = REF_RE.search(t)
                                        nm = mref.group(2)
                                        tl = J.targets.get(nm)
                                        want = (f"instance('__last-saved'){tl[0].path}" if mref.group(1) is not None else tl[0].path) if tl else None
                                        if tl and len(tl) == 1 and vv.strip() != want and len(REF_RE.findall(t)) == 1:
                                            ctx.viol("choice-label:wrong-path", f"choice label {tid} reference ${{{nm}}} became {vv!r}, node is {tl[0].path}", J.wit(cell="choice-label"))
    return p


def _judge_segments(J, kind, e, source, segs):
    """Mixed content: rebuild a string with outputs as ' PATH ' and judge via the regex."""
    outs = [v for k, v in segs if k == "o"]
    refs = list(REF_RE.finditer(source))
    if len(outs) != len(refs) or "instance(" in source:
        return False
    rebuilt = ""
    last = 0
    for m, o in zip(refs, outs):
        rebuilt += source[last:m.start()] + (o if o.startswith(" ") else f" {o} ")
        last = m.end()
    rebuilt += source[last:]
    J.judge(kind, e, source, rebuilt)
    return True


# ----------------------------------------------------------------------------- negative forms
def same_text_forms():
    """Identical text with a ${ref} in itext-rendered cells of several rows at different depths of one repeat: each row needs its own path."""
    for translated in (False, True):
        for outer in ("repeat", "group"):
            msg = "must stay below ${limit} please"
            lab = "relative to ${limit}"
            def q(name):
                cells = {"constraint": ". < ${limit}", "constraint_message": msg, "required": "yes", "required_message": msg}
                if translated:
                    cells.update({"label::en": lab, "label::fr": lab, "hint::en": lab})
                else:
                    cells.update({"label": lab, "hint": lab})
                return Row("q", "integer", name, cells)
            inner2 = Row("group", "begin group", "sg2", {"label": "g2"}, [q("sc")])
            inner1 = Row("group", "begin group", "sg1", {"label": "g1"}, [q("sb"), inner2])
            member = Row(outer, f"begin {outer}", "member", {"label": "m"}, [Row("q", "integer", "limit", {"label": "limit"}), q("sa"), inner1])
            f = Form()
            f.survey = [member, q("stop")]
            f.settings = {"form_id": "st"}
            yield f, f"same-text|{outer}|{'translated' if translated else 'plain'}"


def indexed_repeat_forms():
    """indexed-repeat() with one, two and three (repeat, index) pairs, written at every depth of a 3-level repeat nest and outside it."""
    for depth in (1, 2, 3):
        for where in ("top", "r1", "r2", "r3"):
            for pair in (False, True):
                q = Row("q", "integer", "iq", {"label": "q"})
                r3 = Row("repeat", "begin repeat", "ir3", {"label": "3"}, [q])
                r2 = Row("repeat", "begin repeat", "ir2", {"label": "2"}, [Row("q", "integer", "p2", {"label": "p2"}), r3])
                r1 = Row("repeat", "begin repeat", "ir1", {"label": "1"}, [Row("q", "integer", "p1", {"label": "p1"}), r2])
                args = ["${iq}", "${ir1}", "1", "${ir2}", "${p2}" if where in ("r2", "r3") else "2", "${ir3}", "3"][: 1 + 2 * depth]
                if depth < 3:
                    # the inner repeats still exist; indexing fewer levels is legal XPath-wise for this check (only paths are judged)
                    pass
                sep = ",\n " if (depth + int(pair) + len(where)) % 3 == 0 else ", "  # a long call wrapped over several lines of the cell
                expr = f"indexed-repeat({sep.join(args)})"
                if pair:
                    expr = f"concat({expr}, indexed-repeat(${{iq}}, ${{ir1}}, 2))"
                calc = Row("q", "calculate", "ircalc", {"calculation": expr})
                {"top": None, "r1": r1, "r2": r2, "r3": r3}[where].children.append(calc) if where != "top" else None
                f = Form()
                f.survey = [r1] + ([calc] if where == "top" else [])
                f.settings = {"form_id": "ir"}
                yield f, f"indexed-repeat|depth{depth}|{where}|{'pair' if pair else 'single'}"


def multi_call_forms():
    """Several indexed-repeat() calls in one cell, with ordinary references before, between and after them, an index argument that itself
    contains parentheses (position(..)), and one name used in several arguments: every reference is judged by the place where it is written."""
    exprs = [
        "indexed-repeat(${ma}, ${mr}, 1) + indexed-repeat(${mb}, ${mr}, 2) + ${mc}",
        "indexed-repeat(${ma}, ${mr}, 1) + indexed-repeat(${mb}, ${mr}, ${mpos})",
        "indexed-repeat(${ma}, ${mr}, 1) + ${mc} + indexed-repeat(${mb}, ${mr}, 2)",
        "${mc} + indexed-repeat(${ma}, ${mr}, ${mpos}) + ${mc}",
        "indexed-repeat(${ma}, ${mr}, 1) + indexed-repeat(${mb}, ${mr}, 2) + indexed-repeat(${mc}, ${mr}, 3)",
        "indexed-repeat(${ma}, ${mr}, position(..) - 1) + ${mc}",
        "indexed-repeat(${ma}, ${mr}, ${ma})",
        "if(${mc} > 1, indexed-repeat(${ma}, ${mr}, ${mc} - 1), ${mb}) - ${mpos}",
        "concat(indexed-repeat(${ma}, ${mr}, 1), ')', ${mc}, indexed-repeat(${mb}, ${mr}, 2), ${mpos})",
        "indexed-repeat(${ma}, ${mr}, count(${mr})) + ${mb}",
        # quoted text inside an argument that holds parentheses or commas: a string literal is not call syntax
        "indexed-repeat(${ma}, ${mr}, if(contains(${mb}, ')'), ${mpos}, 1))",
        "indexed-repeat(${ma}, ${mr}, if(${mb} = '(', ${mpos}, ${mc}))",
        "indexed-repeat(${ma}, ${mr}, if(contains(${mb}, \"a, b)\"), ${mpos}, 1)) + ${mc}",
        "indexed-repeat(${ma}, ${mr}, if(${mb} = ',', ${mpos}, 1), ${mr}, 1)",
        "concat('indexed-repeat(', ${mb}, ')') != indexed-repeat(${ma}, ${mr}, ${mpos})",
        "indexed-repeat(${ma}, ${mr}, if(contains(${mb}, ')'), ${mpos}, 1), ${mr}, 2)",
        "indexed-repeat(${ma}, ${mr}, if(${mb} = ') (', ${mpos}, 1), ${mr}, if(${mc} = \"(\", 1, 2), ${mr}, 3)",
        "indexed-repeat(${ma}, ${mr}, string-length('((') , ${mr}, 2)",
    ]
    for k, expr in enumerate(exprs):
        for col in ("calculation", "relevant", "constraint"):
            kids = [Row("q", "integer", n, {"label": n}) for n in ("ma", "mb", "mc", "mpos")]
            kids.append(Row("q", "calculate" if col == "calculation" else "integer", "mk", {col: expr} if col == "calculation" else {"label": "k", col: expr}))
            f = Form()
            f.survey = [Row("repeat", "begin repeat", "mr", {"label": "R"}, kids)]
            f.settings = {"form_id": "mir"}
            yield f, f"multi-call|{k}|{col}"


def same_name_trigger_forms():
    """Triggered calculations that share their name (in different groups of one repeat) and their trigger: each action targets its own row and its
    references are resolved from that row."""
    for k, (d1, d2) in enumerate([(1, 2), (2, 1), (1, 1), (2, 3)]):
        def nest(depth, inner, tag):
            node = inner
            for j in range(depth):
                node = Row("group", "begin group", f"{tag}{j}", {"label": "G"}, [node])
            return node
        c1 = Row("q", "calculate", "samec", {"calculation": "${sx} + 1", "trigger": "${strig}"})
        c2 = Row("q", "text", "samec", {"label": "C", "calculation": "${sx} + ${sy}", "trigger": "${strig}"})
        rep = Row("repeat", "begin repeat", "srep", {"label": "R"}, [Row("q", "integer", "sx", {"label": "x"}), Row("q", "integer", "sy", {"label": "y"}), Row("q", "text", "strig", {"label": "t"}),
                                                                     nest(d1, c1, "ga"), nest(d2, c2, "gb")])
        f = Form()
        f.survey = [rep]
        f.settings = {"form_id": "snt"}
        yield f, f"same-name-trigger|{d1}|{d2}"


def lone_cell_forms():
    """One reference in one cell of an otherwise reference-free form, per cell kind and owner kind: whatever a cell needs declared (the last-saved instance) must not depend on some other cell asking for it too."""
    qcols = ["label", "hint", "guidance_hint", "constraint_message", "required_message", "relevant", "constraint", "required", "read_only", "calculation", "default", "choice_filter", "seed",
             "instance::marker", "bind::odk:note", "body::kb:flag", "choice-label", "constraint_message::en"]
    for ref in ("${last-saved#t}", "${t}"):
        for col in qcols:
            for wrap in ("top", "group", "repeat"):
                cells = {"label": "x"}
                typ = "integer"
                choice_label = "A"
                if col == "choice-label":
                    typ = "select_one l1"
                    choice_label = f"A {ref} z"
                    if wrap != "top":
                        continue  # choice labels resolve references from the survey root: top-level owner only
                elif col in ("instance::marker", "bind::odk:note", "body::kb:flag"):
                    cells[col] = ref
                elif col == "constraint_message::en":
                    cells = {"label::en": "x", col: f"see {ref} here", "constraint": ". > 0"}
                elif col in ("label", "hint", "guidance_hint", "constraint_message", "required_message"):
                    cells[col] = f"see {ref} here"
                elif col == "seed":
                    typ = "select_one l1"
                    cells["parameters"] = f"randomize=true seed={ref}"
                elif col == "choice_filter":
                    typ = "select_one l1"
                    cells[col] = f"cf = {ref}"
                elif col == "calculation":
                    typ = "calculate"
                    cells = {col: f"{ref} + 1"}
                else:
                    cells[col] = f"{ref} = 1" if col != "default" else f"{ref}"
                if col == "constraint_message":
                    cells["constraint"] = ". > 0"
                if col == "required_message":
                    cells["required"] = "yes"
                q = Row("q", typ, "own", cells)
                body = [q]
                if wrap != "top":
                    body = [Row(wrap, f"begin {wrap}", "wrapper", {"label": "w"}, [q])]
                f = Form()
                f.survey = [Row("q", "integer", "t", {"label": "t"})] + body
                f.choices = {"l1": [{"name": "a", "label": choice_label, "cf": "1"}]}
                f.settings = {"form_id": "lone", "namespaces": 'kb="http://kobotoolbox.org/xforms"'}
                yield f, f"lone|{ref[2:6]}|{col}|{wrap}"
        # the entities sheet: its expressions are cells like any other
        for col in ("label", "create_if", "update_if", "entity_id"):
            ent = {"list_name": "things", "label": "'L'"}
            if col in ("update_if", "entity_id"):
                ent["entity_id"] = "'id-1'"
            ent[col] = f"concat({ref}, 'x')" if col in ("label", "entity_id") else f"{ref} = 1"
            f = Form()
            f.survey = [Row("q", "integer", "t", {"label": "t", "save_to": "p1"})]
            f.entities = ent
            f.settings = {"form_id": "lone"}
            yield f, f"lone|{ref[2:6]}|entity-{col}"
        for kind in ("group", "repeat"):
            for col in ("label", "relevant", "repeat_count"):
                if col == "repeat_count" and kind != "repeat":
                    continue
                cells = {"label": "s"}
                cells[col] = f"see {ref}" if col == "label" else (f"{ref} = 1" if col == "relevant" else ref)
                f = Form()
                f.survey = [Row("q", "integer", "t", {"label": "t"}), Row(kind, f"begin {kind}", "sec", cells, [Row("q", "text", "inner", {"label": "i"})])]
                f.settings = {"form_id": "lone"}
                yield f, f"lone|{ref[2:6]}|{kind}-{col}"


def path_prefix_forms():
    """Select-from-repeat with a filter that also reads a question whose path merely begins with the repeat's path text (/data/rep vs /data/rep2/x, /data/rep_q)."""
    for other_where in ("group-rep2", "top-rep_q", "repeat-rep_b", "inside"):
        for sel_where in ("top", "group", "inside"):
            rp = Row("repeat", "begin repeat", "rep", {"label": "R"}, [Row("q", "text", "nm", {"label": "N"})])
            f = Form()
            f.survey = [rp]
            oname = "other"
            if other_where == "group-rep2":
                f.survey.append(Row("group", "begin group", "rep2", {"label": "G"}, [Row("q", "text", oname, {"label": "O"})]))
            elif other_where == "top-rep_q":
                oname = "rep_q"
                f.survey.append(Row("q", "text", oname, {"label": "O"}))
            elif other_where == "repeat-rep_b":
                f.survey.append(Row("repeat", "begin repeat", "rep_b", {"label": "RB"}, [Row("q", "text", oname, {"label": "O"})]))
            else:
                rp.children.append(Row("q", "text", oname, {"label": "O"}))
            sel = Row("q", "select_one ${nm}", "sel", {"label": "S", "choice_filter": "${nm} != ${%s} and ${nm} != ''" % oname})
            if sel_where == "top":
                f.survey.append(sel)
            elif sel_where == "group":
                f.survey.append(Row("group", "begin group", "rep3", {"label": "G3"}, [sel]))
            else:
                rp.children.append(sel)
            f.settings = {"form_id": "pp"}
            yield f, f"path-prefix|{other_where}|{sel_where}"


def container_target_forms():
    """References whose target is a group or a repeat (count(${rep}), position(..), indexed-repeat arguments), written inside the target itself,
    beside it, in a nested repeat of it and outside every repeat."""
    spots = ["top", "in_r", "in_g", "in_r2", "in_h", "in_g2"]
    for outer_repeat in (True, False):
        for spot in spots:
            for tgt in ("r", "g", "r2", "h", "g2"):
                calc = Row("q", "calculate", "cref", {"calculation": "count(${%s}) + 1" % tgt, "relevant": "count(${%s}) > 0" % tgt})
                lab = Row("q", "note", "nref", {"label": "n ${%s} end" % "leaf"})
                leaf = Row("q", "integer", "leaf", {"label": "leaf"})
                g2 = Row("group", "begin group", "g2", {"label": "g2"}, [Row("q", "text", "g2q", {"label": "q"})])
                r2 = Row("repeat", "begin repeat", "r2", {"label": "r2"}, [Row("q", "text", "r2q", {"label": "q"}), g2])
                g = Row("group", "begin group", "g", {"label": "g"}, [leaf, r2])
                h = Row("group", "begin group", "h", {"label": "h"}, [Row("q", "text", "hq", {"label": "q"})])
                r = Row("repeat" if outer_repeat else "group", "begin repeat" if outer_repeat else "begin group", "r", {"label": "r"}, [g, h])
                f = Form()
                f.survey = [r]
                {"top": f.survey, "in_r": r.children, "in_g": g.children, "in_r2": r2.children, "in_h": h.children, "in_g2": g2.children}[spot].extend([calc, lab])
                f.settings = {"form_id": "ct"}
                yield f, f"container-target|{'rep' if outer_repeat else 'grp'}|{spot}|{tgt}"


def negative_cases(ctx):
    n = 0
    styles = [("missing", 0)] + [("duplicate", k) for k in (2, 3, 4, 5)]
    for style, ndup in styles:
        for cell in ("relevant", "label", "calculation", "constraint", "default", "choice_filter", "repeat_count", "trigger", "constraint_message"):
            n += 1
            if not ctx.mine(n):
                continue
            rows = [("text", "a", {"label": "A"})]
            for k in range(max(ndup, 2)):
                nm = "dup" if style == "duplicate" else f"x{k}"
                kind = "begin repeat" if k % 2 else "begin group"
                rows.append((kind, f"sec{k}", {"label": f"S{k}"}, [("integer", nm, {"label": f"D{k}"})]))
            f = gen.simple_form(rows, choices={"l1": [{"name": "a", "label": "A"}]})
            name = "dup" if style == "duplicate" else "nosuch"
            R = "${%s}" % name
            if cell == "repeat_count":
                f.survey.append(Row("repeat", "begin repeat", "rp", {"label": "R", "repeat_count": R}, [Row("q", "text", "inr", {"label": "x"})]))
            elif cell == "choice_filter":
                f.survey.append(Row("q", "select_one l1", "s", {"label": "S", "choice_filter": f"name = {R}"}))
            elif cell == "trigger":
                f.survey.append(Row("q", "calculate", "c", {"calculation": "1", "trigger": R}))
            elif cell == "calculation":
                f.survey.append(Row("q", "calculate", "c", {"calculation": f"{R} + 1"}))
            elif cell == "constraint_message":
                f.survey.append(Row("q", "text", "c", {"label": "x", "constraint": ". != ''", "constraint_message": f"m {R}"}))
            else:
                f.survey.append(Row("q", "text", "c", {"label": "x", cell: (f"{R} > 1" if cell != "label" else f"l {R}")}))
            o = drive.convert_form(f)
            ctx.ctr("negative_cases")
            ctx.case(sig=f"negative|{style}{ndup}|{cell}")
            if o.ok:
                ctx.viol(f"negative:{style}-name-accepted:{cell}", f"reference to a {style} name ({ndup or 'no'} elements called {name!r}) in {cell} was converted instead of rejected", common.witness(f, klass="negative"))
            elif not o.exc_is_pyxform:
                ctx.viol(f"negative:{style}:internal-exception:{o.exc_type}:{cell}", f"{o.brief()}", common.witness(f, klass="negative"))
            elif name not in (o.exc_msg or ""):
                ctx.viol(f"negative:{style}:error-does-not-name-it:{cell}", f"error does not name {name!r}: {o.exc_msg[:200]}", common.witness(f, klass="negative"))


def json_flat_group_forms(ctx):
    """Surveys built from JSON (the builder route) in which ONE group carries the legacy flat flag while the survey does not: the group's children are
    lifted into its parent in the instance, and every bind, control and substituted reference names the lifted node."""
    from pyxform.builder import create_survey_element_from_dict
    k = 0
    for sec in ("group", "repeat"):
        for depth in (1, 2):
            for ref_from in ("inside", "beside", "outside"):
                k += 1
                if not ctx.mine(k):
                    continue
                inner = [{"type": "text", "name": "b", "label": "B"}]
                if ref_from == "inside":
                    inner.append({"type": "calculate", "name": "c", "bind": {"calculate": "${b} + ${a}"}})
                node = {"type": "group", "name": "g", "label": "G", "flat": True, "children": inner}
                for d_ in range(depth - 1):
                    node = {"type": "group", "name": f"mid{d_}", "label": "M", "children": [node]}
                kids = [node] + ([{"type": "calculate", "name": "c", "bind": {"calculate": "${b} + ${a}"}}] if ref_from == "beside" else [])
                top = [{"type": "text", "name": "a", "label": "A"}, {"type": sec, "name": "r", "label": "R", "children": kids}]
                if ref_from == "outside":
                    top.append({"type": "calculate", "name": "c", "bind": {"calculate": "${b} + ${a}"}})
                d = {"type": "survey", "name": "data", "id_string": "j", "title": "j", "children": top}
                ctx.case(sig=f"json-flat-group|{sec}|{depth}|{ref_from}")
                ctx.ctr("json_flat_group_forms")
                wit = {"klass": "json-flat", "json": d}
                try:
                    p = xf.Parsed(create_survey_element_from_dict(d).to_xml(validate=False, pretty_print=False))
                except Exception as e:  # noqa: BLE001
                    ctx.viol(f"json-flat-group:raised:{type(e).__name__}", str(e)[:300], wit)
                    continue
                mids = "".join(f"/mid{d_}" for d_ in reversed(range(depth - 1)))
                b_path = f"/data/r{mids}/b"
                c_path = {"inside": f"/data/r{mids}/c", "beside": "/data/r/c", "outside": "/data/c"}[ref_from]
                live = [n for n in p.resolve(b_path) if not any(p.is_template(a_) for a_ in [n] + list(n.iterancestors()))]
                if len(live) != 1:
                    ctx.viol("json-flat-group:lifted-node-missing", f"{b_path} names {len(live)} nodes outside templates", wit)
                    continue
                binds = p.bind_map()
                for ns_ in binds:
                    if not p.resolve(ns_):
                        ctx.viol("json-flat-group:bind-names-no-node", f"bind {ns_} names no instance node (the flat group's children live in its parent)", wit)
                calc = (binds.get(c_path) or [None])[0]
                got = None if calc is None else (calc.get("calculate") or "").split("+")[0].strip()
                ctx.ctr("paths_judged")
                res = got if (got or "").startswith("/") else (resolve_relative(c_path, got) if got else None)
                if res != b_path:
                    ctx.viol("json-flat-group:reference-reaches-another-node", f"${{b}} written {ref_from} the flat group became {got!r}, which from {c_path} reaches {res!r}; the node is {b_path!r}", wit)


def form_root_name_cases(ctx):
    """${name} names questions, groups and repeats - not the form. A reference to the form's own root name is a reference to nothing (refused like
    any unknown name) unless a question is called that, in which case it means the question."""
    n = 1000
    for root, via in (("data", None), ("myform", "settings"), ("hh", "arg")):
        for cell in ("relevant", "label", "calculation", "constraint", "default", "choice_filter"):
            for has_q in (False, True):
                n += 1
                if not ctx.mine(n):
                    continue
                R = "${%s}" % root
                rows = [("text", "a", {"label": "A"})]
                if has_q:
                    rows.append(("begin group", "g", {"label": "G"}, [("integer", root, {"label": "named like the form"})]))
                f = gen.simple_form(rows, choices={"l1": [{"name": "a", "label": "A"}]})
                if via == "settings":
                    f.settings["name"] = root
                elif via == "arg":
                    f.args["form_name"] = root
                if cell == "choice_filter":
                    f.survey.append(Row("q", "select_one l1", "s", {"label": "S", "choice_filter": f"name = {R}"}))
                elif cell == "calculation":
                    f.survey.append(Row("q", "calculate", "c", {"calculation": f"{R} + 1"}))
                else:
                    f.survey.append(Row("q", "text", "c", {"label": "x", cell: (f"{R} > 1" if cell != "label" else f"l {R}")}))
                o = drive.convert_form(f)
                ctx.ctr("negative_cases")
                ctx.case(sig=f"form-root-name|{root}|{cell}|{has_q}")
                wit = common.witness(f, klass="form-root-name")
                if not has_q:
                    if o.ok:
                        ctx.viol(f"negative:form-root-name-accepted:{cell}", f"${{{root}}} in {cell}: no question, group or repeat is called {root!r} (it is the form's own root), yet the form was converted", wit)
                    elif not o.exc_is_pyxform:
                        ctx.viol(f"negative:form-root-name:internal-exception:{o.exc_type}:{cell}", o.brief(), wit)
                elif not o.ok:
                    ctx.viol(f"form-root-name:question-named-like-the-form-cannot-be-referenced:{cell}", f"the only element called {root!r} is the question /{root}/g/{root}; ${{{root}}} in {cell} was refused: {o.brief()[:200]}", wit)
                elif f"/{root}/g/{root} " not in o.xform and f"/{root}/g/{root}\"" not in o.xform and f"/{root}/g/{root}&" not in o.xform and f"/{root}/g/{root}<" not in o.xform and f"/{root}/g/{root}'" not in o.xform:
                    ctx.viol(f"form-root-name:reference-not-to-the-question:{cell}", f"${{{root}}} in {cell} did not become /{root}/g/{root}", wit)


# ----------------------------------------------------------------------------- shard
def run_shard(ctx):
    from ..hooks import counters, install_subst_hook
    install_subst_hook()
    pl = plan(ctx.tier, ctx.seed)
    ch = chains(pl["depth"])
    n = 0
    for prefix in ch:
        for tsuf in ch:
            for rsuf in ch:
                for style in ("plain", "adv", "case", "uni"):
                    for tf in (True, False):
                        for rk in ("question", "calc", "group", "repeat", "selrep", "selrep-nofilter"):
                            n += 1
                            if not ctx.mine(n):
                                continue
                            if rk.startswith("selrep") and "r" not in prefix + tsuf:
                                continue
                            form, tname = layout_form(prefix, tsuf, rsuf, style, tf, rk)
                            sig = f"layout|{''.join(prefix)}|{''.join(tsuf)}|{''.join(rsuf)}|{style}|{int(tf)}|{rk}"
                            ctx.ctr("layouts")
                            p = check_form(ctx, form, "layout", sig)
                            if n <= 2 and p is not None:
                                ctx.sample({"layout": sig, "form_md": common.sheets_to_md(form.to_sheets())[:1200], "observed": "all substituted paths resolve to the target"})
    for k, (form, sig) in enumerate(same_text_forms()):
        if ctx.mine(k):
            ctx.ctr("same_text_forms")
            check_form(ctx, form, "same-text", sig)
    for k, (form, sig) in enumerate(lone_cell_forms()):
        if ctx.mine(k):
            ctx.ctr("lone_cell_forms")
            check_form(ctx, form, "lone-cell", sig)
    for k, (form, sig) in enumerate(path_prefix_forms()):
        if ctx.mine(k):
            ctx.ctr("path_prefix_forms")
            check_form(ctx, form, "path-prefix", sig)
    for k, (form, sig) in enumerate(container_target_forms()):
        if ctx.mine(k):
            ctx.ctr("container_target_forms")
            check_form(ctx, form, "container-target", sig)
    for k, (form, sig) in enumerate(same_name_trigger_forms()):
        if ctx.mine(k):
            ctx.ctr("same_name_trigger_forms")
            check_form(ctx, form, "same-name-trigger", sig)
    for k, (form, sig) in enumerate(multi_call_forms()):
        if ctx.mine(k):
            ctx.ctr("indexed_repeat_forms")
            check_form(ctx, form, "indexed-repeat", sig)
    for k, (form, sig) in enumerate(indexed_repeat_forms()):
        if ctx.mine(k):
            ctx.ctr("indexed_repeat_forms")
            check_form(ctx, form, "indexed-repeat", sig)
    # random W-core with many references
    for i in range(pl["n_random"]):
        if not ctx.mine(i):
            continue
        rng = ctx.rng("random", i)
        cfg = common.rich_cfg(rng, p_ref=0.9, p_label_ref=0.5, p_relevant=0.5, p_constraint=0.5, p_constraint_msg=0.8, p_default=0.4, p_dyn_default=0.7,
                              p_choice_filter=0.5, p_repeat=0.3, max_depth=rng.choice([3, 4, 6]), p_repeat_count=0.7, p_trigger=rng.choice([0, 0.3]),
                              p_choice_label_ref=rng.choice([0, 0.3]), p_randomize=0, p_or_other=0, name_style=rng.choice(["plain", "adv"]))
        form = gen.gen_form(rng, cfg)
        check_form(ctx, form, "random", common.feature_sig(form))
    negative_cases(ctx)
    json_flat_group_forms(ctx)
    form_root_name_cases(ctx)
    ctx.ctr("hook_evals", counters.get("subst", 0))
    ctx.ctr("hook_reference_parent_calls", counters.get("subst_reference_parent", 0))
    for msg in counters.get("subst_violations", []):
        ctx.viol("hook:substituted-path-does-not-reach-target-from-pyxform-context", msg, {"klass": "hook"})


def replay(w):
    def chk(ctx, wit):
        if wit.get("klass") == "hook":
            print("hook witness: re-run ./check C03")
            return
        if wit.get("klass") == "form-root-name":
            form_root_name_cases(ctx)  # small and deterministic: run the family whole
            return
        if wit.get("klass") == "json-flat":
            json_flat_group_forms(ctx)
            return
        form = common.form_from_witness(wit)
        if wit.get("klass") == "negative":
            o = drive.convert_form(form)
            print("  outcome:", o.brief())
            if o.ok:
                ctx.viol("negative:accepted", "accepted")
            return
        check_form(ctx, form, wit.get("klass", "replay"), "replay")
    return common.replay_with(PROP, w, chk)
