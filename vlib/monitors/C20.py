"""C20 — advisory warnings fire exactly when their trigger is present.

Deciding oracle: for each listed warning kind an independent trigger predicate on the
source workbook and a recogniser (regex + subject extraction) on the warnings list;
asserted: trigger <=> recognised, and subject equality (languages, columns, sheet names,
row numbers).  Kinds: missing translations (survey/choices, header-level as documented),
sheet-name near-misses for absent settings/entities (own Levenshtein, <=2, not underscore
-prefixed), language without a valid IANA code (frozen valid/invalid code lists,
cross-checked against the repository's subtag files at start), image without max-pixels,
deprecated metadata types, unlabeled group/repeat (row numbers), unlabeled choice (row
numbers), or_other with translations, the disabled column, duplicate form_id/id_string
headers.  Advisory only: where a trigger can be removed without changing the form's
meaning the XForm must be identical.  Unlisted warning kinds are counted, not judged.
"""
from __future__ import annotations

import itertools
import re
import zlib

from .. import common, drive, gen, refmodel, render
from ..model import Form, Row
from ..refmodel import MEDIA, base_type, split_header

PROP = "C20"
LEVEL = "exploration"
TECHNIQUE = "runtime reference-model monitor: independent trigger predicates on the workbook vs recognised warnings (iff + subject equality), plus advisory-only differential"
RULE = ("cases = workbooks from (a) enumerated subsets of translatable headers x {unsuffixed, L1, L2} on both sheets, (b) sheet names within edit "
        "radius 0-3 of settings/entities, (c) language labels with/without bracketed codes, (d) generated forms with row-level triggers at random "
        "sites; non-trivial = converted and every kind judged; distinct = distinct (header set | sheet name | language label | form signature)")
ASSUMPTIONS = ["language names shorter than 3 characters and upper-case codes are ambiguous spellings and not generated",
               "an unlabeled group whose appearance merely contains field-list among other words is ambiguous and not generated"]

L1, L2 = "French (fr)", "Deutsch (de)"
SURVEY_COLS = ["label", "hint", "guidance_hint", "image", "audio", "constraint_message", "required_message", "no_app_error_string"]
CHOICE_COLS = ["label", "image", "audio"]
VALID_CODES = ["en", "fr", "es", "de", "sw", "am", "pt", "zh", "ar", "hi", "tlh", "yue", "ceb",
               "aa", "ab", "zh", "zu", "aaa", "aab", "zza", "zzj"]  # the first and last entries of the two subtag tables too
INVALID_CODES = ["xx", "zzz9", "123", "en-", "e n", "english", "q"]

RX = {
    "missing": re.compile(r"^Language '(.*)' is missing the (survey|choices) (?:columns? )?(.*?)(?: columns?)?\.$"),
    "sheet": re.compile(r"^When looking for a sheet named '(\w+)', the following sheets with similar names were found: (.*?)\. If you do not mean"),
    "iana": re.compile(r"^The following language declarations do not contain valid machine-readable codes: (.*)\. Learn more"),
    "maxpixels": re.compile(r"^\[row : (\d+)\] Use the max-pixels parameter"),
    "deprecated": re.compile(r"^\[row : (\d+)\] ([\w ]+?) is no longer supported on most devices"),
    "nolabel": re.compile(r"^\[row : (\d+)\] (Group|Repeat) has no label: "),
    "choice_nolabel": re.compile(r"^\[row : (\d+)\] On the 'choices' sheet, the 'label' value is invalid\. Choices should have a label"),
    "or_other": re.compile(r"^This form uses or_other and translations"),
    "disabled": re.compile(r"^\[row : (\d+)\] The 'disabled' column header is not part of the current spec"),
    "dup_id": re.compile(r"^The form_id and id_string column headers are both specified"),
}


def plan(tier, seed):
    n = 2500 if tier == "quick" else 30000
    return {"shards": 16, "timeout": 900 if tier == "quick" else 3600, "n": n, "n_headers": 1500 if tier == "quick" else None,
            "floors": {"kinds_judged": 25000, "forms_judged": 2500, "distinct": 800}}


def lev(a, b):
    prev = list(range(len(b) + 1))
    for i, ca in enumerate(a, 1):
        cur = [i]
        for j, cb in enumerate(b, 1):
            cur.append(min(prev[j] + 1, cur[j - 1] + 1, prev[j - 1] + (ca != cb)))
        prev = cur
    return prev[-1]


# ----------------------------------------------------------------------------- recognise
def recognise(warnings):
    out = {k: [] for k in RX}
    out["other"] = []
    for w in warnings:
        lines_done = False
        if w.startswith("Language '"):
            for line in w.split("\n"):
                m = RX["missing"].match(line)
                if m:
                    cols = tuple(sorted(c.strip() for c in m.group(3).split(",")))
                    out["missing"].append((m.group(2), m.group(1), cols))
                else:
                    out["other"].append(line)
            continue
        for k, rx in RX.items():
            if k == "missing":
                continue
            m = rx.match(w)
            if m:
                if k == "sheet":
                    out[k].append((m.group(1), tuple(sorted(x.strip().strip("'") for x in m.group(2).split("', '")))))
                elif k == "iana":
                    out[k].append(tuple(sorted(x.strip() for x in m.group(1).split(", "))))
                elif k in ("maxpixels", "nolabel", "choice_nolabel", "disabled"):
                    out[k].append(int(m.group(1)))
                elif k == "deprecated":
                    out[k].append((int(m.group(1)), m.group(2)))
                else:
                    out[k].append(True)
                lines_done = True
                break
        if not lines_done:
            out["other"].append(w[:80])
    return out


# ----------------------------------------------------------------------------- triggers (from the workbook only)
def expected(sheets, form=None):
    exp = {k: [] for k in RX}
    names = list(sheets)
    lower = [n.strip().lower() for n in names]  # letter case and surrounding blanks are not part of a sheet name
    # missing translations
    for sheet, cols in (("survey", SURVEY_COLS + ["video", "big-image"]), ("choices", CHOICE_COLS + ["video", "big-image"])):
        if sheet not in sheets:
            continue
        hdrs = sheets[sheet][0]
        seen = {}
        cols_seen = set()
        for h in hdrs:
            b, lg = split_header(h)
            if b in cols:
                seen.setdefault(lg if lg is not None else "default", set()).add(b)
                cols_seen.add(b)
        if not seen or (set(seen) == {"default"}):
            continue
        for lg, have in seen.items():
            miss = cols_seen - have
            if miss:
                exp["missing"].append((sheet, lg, tuple(sorted(miss))))
    # sheet near-misses
    for key in ("settings", "entities"):
        if key in lower:
            continue
        cands = [n for n in names if lev(n.lower(), key) <= 2 and n.strip().lower() not in ("survey", "choices", "settings", "external_choices", "osm", "entities") and not n.strip().startswith("_")]
        if cands:
            exp["sheet"].append((key, tuple(sorted(cands))))
    # or_other + translations
    sv = sheets.get("survey")
    if sv:
        h = sv[0]
        ti = h.index("type") if "type" in h else None
        di = h.index("disabled") if "disabled" in h else None
        truthy = ("yes", "Yes", "YES", "true", "True", "TRUE", "true()")
        uses_oo = ti is not None and any(isinstance(r[ti], str) and r[ti].endswith((" or_other", " or other", " or specify other"))
                                         and not (di is not None and r[di] in truthy) for r in sv[1])
        translated = False
        for sheet, cols in (("survey", SURVEY_COLS + ["video", "big-image"]), ("choices", CHOICE_COLS + ["video", "big-image"])):
            if sheet in sheets:
                for hh in sheets[sheet][0]:
                    b, lg = split_header(hh)
                    if b in cols and lg is not None:
                        translated = True
        if uses_oo and translated:
            exp["or_other"].append(True)
        # row-level
        ni = h.index("name") if "name" in h else None
        for ri, r in enumerate(sv[1], start=2):
            cell = dict(zip(h, r))
            t = cell.get("type")
            if "disabled" in h and cell.get("disabled") not in (None, ""):
                exp["disabled"].append(ri)
                if cell.get("disabled") in ("yes", "Yes", "YES", "true", "True", "TRUE", "true()"):
                    continue
            if not isinstance(t, str):
                continue
            if t == "image" and "max-pixels" not in (cell.get("parameters") or ""):
                exp["maxpixels"].append(ri)
            if t in ("simserial", "subscriberid", "sim id", "get sim id", "subscriber id", "get subscriber id"):  # every spelling of the two deprecated types
                exp["deprecated"].append((ri, t))
            if t in ("begin group", "begin repeat"):
                has_label = any(split_header(k)[0] == "label" and v not in (None, "") for k, v in cell.items())
                has_media = any(split_header(k)[0] in MEDIA and v not in (None, "") for k, v in cell.items())
                exempt = t == "begin group" and cell.get("appearance") == "field-list"
                if not has_label and not has_media and not exempt and not cell.get("calculation"):
                    exp["nolabel"].append(ri)
    ch = sheets.get("choices")
    if ch:
        h = ch[0]
        for ri, r in enumerate(ch[1], start=2):
            cell = {k: v for k, v in zip(h, r) if v not in (None, "")}
            if not cell:
                continue
            if not any(split_header(k)[0] == "label" for k in cell):
                exp["choice_nolabel"].append(ri)
    st = sheets.get("settings")
    if st and "form_id" in st[0] and "id_string" in st[0]:
        exp["dup_id"].append(True)
    return exp


def expected_iana(form_langs):
    bad = []
    for lg in form_langs:
        if lg == "default" or len(lg) < 3:
            continue
        m = re.search(r"\(([^()]*)\)$", lg)  # the code is the LAST parenthesised part: "Chinese (Simplified) (zh)" carries zh
        if not m or m.group(1) not in VALID_CODES:
            bad.append(lg)
    return [tuple(sorted(bad))] if bad else []


def judge(ctx, sheets, sig, klass, args=None, langs_in_output=None, form=None, fmt="dict"):
    o = drive.convert_sheets(sheets, fmt=fmt, args=args or {})
    ctx.ctr(f"container:{fmt}")
    if not o.ok:
        ctx.ctr(f"rejected:{klass}")
        if not o.exc_is_pyxform:
            ctx.ctr("internal_exception_seen(C17's business)")
        return None
    ctx.case(sig=sig)
    ctx.ctr("forms_judged")
    got = recognise(o.warnings)
    exp = expected(sheets)
    wit = {"sheets_md": common.sheets_to_md(sheets)[:3000], "warnings": o.warnings[:12], "klass": klass,
           "sheets": {k: [list(h), rows] for k, (h, rows) in sheets.items()}, "args": args or {}, "fmt": fmt}
    # iana: languages = translations in the output
    from .. import xf
    try:
        p = xf.Parsed(o.xform)
        out_langs = [t[0] for t in p.itext()[0]]
    except xf.XFError:
        out_langs = []
    exp["iana"] = expected_iana(out_langs)
    for kind in RX:
        ctx.ctr("kinds_judged")
        e, g = sorted(map(repr, exp[kind])), sorted(map(repr, got[kind]))
        if e != g:
            if not g:
                cls = "not-emitted"
            elif not e:
                cls = "spurious"
            elif len(e) != len(g):
                cls = "count"
            else:
                cls = "wrong-subject"
            ctx.viol(f"{kind}:{cls}", f"[{klass}] warning kind {kind}: trigger says {exp[kind]}, warnings say {got[kind]}", wit)
    ctx.ctr("unlisted_warnings", len(got["other"]))
    if fmt == "dict" and zlib.crc32(sig.encode()) % 4 == 0:
        # the builder route writing a file (workbook -> JSON form -> survey.print_xform_to_file(path, warnings=w)): same advisories as convert()
        import copy
        import os
        import tempfile
        from pyxform.builder import create_survey_element_from_dict
        from pyxform.xls2json import workbook_to_json
        from pyxform.xls2json_backends import get_xlsform
        w = []
        d = tempfile.mkdtemp(prefix="verif_c20_")
        try:
            kw = {k: v for k, v in (args or {}).items() if k in ("form_name", "default_language", "fallback_form_name")}
            js = workbook_to_json(get_xlsform(render.render(sheets, "dict")), warnings=w, **kw)
            sv = create_survey_element_from_dict(copy.deepcopy(js))
            sv.print_xform_to_file(os.path.join(d, "out.xml"), validate=False, pretty_print=False, warnings=w)
            ctx.ctr("file_route_forms_judged")
            got2 = recognise(w)
            for kind in RX:
                a_, b_ = sorted(map(repr, got[kind])), sorted(map(repr, got2[kind]))
                if a_ != b_:
                    ctx.viol(f"{kind}:{'not-emitted' if not b_ else 'differs'}:print_xform_to_file-route", f"[{klass}] warning kind {kind}: convert() says {got[kind]}, the builder route writing the "
                             f"file itself (print_xform_to_file) says {got2[kind]}", wit)
        except Exception as e:  # noqa: BLE001
            ctx.viol("file-route:raised", f"[{klass}] convert() accepted the workbook but workbook_to_json + print_xform_to_file raised {type(e).__name__}: {str(e)[:200]}", wit)
        finally:
            for n_ in os.listdir(d):
                os.unlink(os.path.join(d, n_))
            os.rmdir(d)
    return o


def header_form(scols, ccols):
    """scols: list of (col, variant) for the survey; ccols for choices."""
    def hname(c, v):
        return c if v is None else f"{c}::{v}"
    cells = {}
    for c, v in scols:
        cells[hname(c, v)] = f"{c}.{(v or 'x')[:2]}" + (".png" if c in MEDIA else "")
    if any(c == "constraint_message" for c, _ in scols):
        cells["constraint"] = ". != 'z'"
    if any(c == "required_message" for c, _ in scols):
        cells["required"] = "yes"
    f = Form()
    f.survey = [Row("q", "select_one l1", "q1", cells)]
    ch = []
    for k in range(2):
        c = {"name": f"c{k}"}
        for cc, v in ccols:
            c[hname(cc, v)] = f"{cc}.{k}.{(v or 'x')[:2]}" + (".png" if cc in MEDIA else "")
        ch.append(c)
    f.choices = {"l1": ch}
    return f


def near_names(key, rng, n):
    alpha = "setingsnrx_1"
    out = set()
    for _ in range(n):
        s = key
        for _ in range(rng.choice([0, 1, 1, 2, 2, 3])):
            op = rng.randrange(3)
            pos = rng.randrange(len(s) + 1)
            if op == 0 and s:
                pos = min(pos, len(s) - 1)
                s = s[:pos] + s[pos + 1:]
            elif op == 1:
                s = s[:pos] + rng.choice(alpha) + s[pos:]
            elif s:
                pos = min(pos, len(s) - 1)
                s = s[:pos] + rng.choice(alpha) + s[pos + 1:]
        if rng.random() < 0.2:
            s = s.capitalize()
        if rng.random() < 0.15:
            s = "_" + s
        if s and s.lower() not in ("survey", "choices", "external_choices", "osm"):
            out.add(s)
    # names that repeat a piece of the key (a stutter): far from the key by true edit distance although head and tail both match it
    for _ in range(max(20, n // 6)):
        a = rng.randrange(0, len(key) - 1)
        b = rng.randrange(a + 1, len(key) + 1)
        chunk = key[a:b] * rng.choice([1, 1, 2])
        pos = rng.choice([a, b, 0, len(key), rng.randrange(len(key) + 1)])
        s = key[:pos] + chunk + key[pos:]
        if rng.random() < 0.3:
            s = s + key[-1] * rng.randint(1, 3)
        if s.lower() not in ("survey", "choices", "external_choices", "osm", key):
            out.add(s)
    return sorted(out)


def first_use_thread_pass(ctx):
    """The very first conversions of a process, in several threads at once, with language labels whose codes live in the big subtag file:
    whatever the library loads lazily on first use must not be seen half-loaded by the conversion next door. Runs before anything else in the worker."""
    import sys
    import threading
    codes = ["tlh", "yue", "ceb", "en", "fr", "zzz9", "sw", "ach"]
    forms = [gen.simple_form([("text", "q1", {f"label::Lang{k} ({c})": "L", f"label::Second{k} (en)": "S"})]).to_sheets() for k, c in enumerate(codes)]
    res = [None] * len(forms)
    bar = threading.Barrier(len(forms))

    def work(k):
        try:
            bar.wait(timeout=30)
        except threading.BrokenBarrierError:
            pass
        res[k] = drive.convert_sheets(forms[k])
    old = sys.getswitchinterval()
    sys.setswitchinterval(1e-5)
    try:
        ts = [threading.Thread(target=work, args=(k,)) for k in range(len(forms))]
        for t_ in ts:
            t_.start()
        for t_ in ts:
            t_.join(120)
    finally:
        sys.setswitchinterval(old)
    for k, (c, o) in enumerate(zip(codes, res)):
        ctx.ctr("first_use_thread_conversions")
        if o is None or not o.ok:
            ctx.viol("first-use-threads:conversion-failed", f"first conversions of the process, 8 threads: code {c!r}: {o.brief() if o is not None else 'no result'}", {"klass": "threads", "sheets_md": common.sheets_to_md(forms[k])})
            continue
        got = recognise(o.warnings)["iana"]
        want = [] if c in VALID_CODES or c == "ach" else [(f"Lang{k} ({c})",)]
        ctx.case(sig=f"first-use-threads|{c}")
        if sorted(map(repr, got)) != sorted(map(repr, want)):
            ctx.viol("first-use-threads:iana", f"first conversions of the process, 8 threads at once: language 'Lang{k} ({c})' gives the code warning {got}, alone it gives {want}",
                     {"klass": "threads", "sheets_md": common.sheets_to_md(forms[k]), "warnings": o.warnings})


def run_shard(ctx):
    import os
    first_use_thread_pass(ctx)
    pl = plan(ctx.tier, ctx.seed)
    # cross-check the frozen code lists once against the data files themselves (read directly: the reader function is the library's business)
    tags = set()
    for fn in ("iana_subtags_2_characters.txt", "iana_subtags_3_or_more_characters.txt"):
        try:
            with open(os.path.join(drive.REPO, "pyxform", "validators", "pyxform", "iana_subtags", fn), encoding="utf-8") as fh:
                tags |= {ln.strip() for ln in fh}
        except OSError:
            ctx.ctr("subtag_file_unreadable")
    bad_lists = ([c for c in VALID_CODES if c not in tags] + [c for c in INVALID_CODES if c in tags]) if tags else []
    if bad_lists:
        ctx.ctr("frozen_code_lists_disagree_with_repo_files", len(bad_lists))
    # (a) header subsets
    variants = [None, L1, L2, "default"]  # the literal suffix ::default names the same language as no suffix at all
    scombos = [()]
    for k in (1, 2, 3):
        scombos += list(itertools.combinations([(c, v) for c in SURVEY_COLS for v in variants], k))
    ccombos = [()]
    for k in (1, 2):
        ccombos += list(itertools.combinations([(c, v) for c in CHOICE_COLS for v in variants], k))
    total = len(scombos)
    if pl["n_headers"]:
        rng = ctx.rng("headers")
        picks = sorted({rng.randrange(total) for _ in range(pl["n_headers"])})
    else:
        picks = range(total)
    for n, si in enumerate(picks):
        if not ctx.mine(n):
            continue
        sc = scombos[si]
        cc = ccombos[(si * 31 + n) % len(ccombos)]
        if not any(c in ("label", "hint") or c in MEDIA for c, _ in sc):
            sc = sc + (("label", None),)
        if not any(c == "label" for c, _ in cc):
            cc = cc + (("label", None),)
        form = header_form(sc, cc)
        xcol = None
        if n % 5 == 2:
            # a plain data column on the choices sheet that is called like a translatable SURVEY column: still plain data (copied into the
            # choices instance), never part of the translation bookkeeping
            xcol = ("hint", "guidance_hint", "constraint_message", "required_message", "hint", "guidance_hint")[(n // 5) % 6]
            for c_ in form.choices["l1"]:
                c_[xcol] = "data"
            ctx.ctr("choices_plain_column_named_like_survey_translatable")
        o = judge(ctx, form.to_sheets(), f"hdr|{si}|{(si * 31 + n) % len(ccombos)}|{xcol}", "headers")
        if n < 2 and o is not None:
            ctx.sample({"survey_headers": [f"{c}::{v}" if v else c for c, v in sc], "choices_headers": [f"{c}::{v}" if v else c for c, v in cc],
                        "warnings": o.warnings[:4], "observed": "missing-translation warning iff trigger, subjects equal"})
    # (b) sheet names
    rng = ctx.rng("sheets")
    names = near_names("settings", rng, 300 if ctx.tier == "quick" else 3000) + near_names("entities", rng, 300 if ctx.tier == "quick" else 3000)
    base = gen.simple_form([("text", "q1", {"label": "Q"})])
    for n, nm in enumerate(names):
        if not ctx.mine(n):
            continue
        sheets = base.to_sheets()
        if nm.lower() == "settings":
            sheets[nm] = (["form_title"], [["T"]])
        elif nm.lower() == "entities":
            sheets[nm] = (["list_name", "label"], [["e", "'x'"]])
        else:
            sheets[nm] = (["a", "b"], [["1", "2"]])
            if n % 7 == 3:
                # the real sheet is there but holds no row yet (a template): not a missing sheet
                real = "settings" if lev(nm.lower(), "settings") <= lev(nm.lower(), "entities") else "entities"
                sheets[real] = (["form_title"], []) if real == "settings" else (["list_name", "label"], [])
        # every container reports the sheet names it met: the advisory does not depend on how the workbook was delivered
        fmt_ = ["dict", "csv", "xlsx", "md", "xls", "dict", "csv"][n % 7]
        if fmt_ in ("md", "csv") and (nm != nm.strip() or "|" in nm or not nm.strip()):
            fmt_ = "xlsx"
        o = judge(ctx, sheets, f"sheet|{nm}|{len(sheets)}|{fmt_}", "sheet-name", fmt=fmt_)
        # advisory only: underscore-prefixing a near-miss must not change the XForm
        if o is not None and nm.lower() not in ("settings", "entities") and not nm.startswith("_"):
            s2 = {("_" + k if k == nm else k): v for k, v in sheets.items()}
            o2 = drive.convert_sheets(s2)
            if o2.ok and o2.xform != o.xform:
                ctx.viol("advisory:sheet-warning-changes-xform", f"sheet {nm!r} vs '_{nm}': XForm differs", {"sheets_md": common.sheets_to_md(sheets), "klass": "sheet-name"})
    # (c) language labels
    labels = [f"Lang{k} ({c})" for k, c in enumerate(VALID_CODES)] + [f"Bad{k} ({c})" for k, c in enumerate(INVALID_CODES)] + ["English", "Français", "Kiswahili ()", "(en) English", "Eng (en) x", "Chinese (Simplified) (zh)", "Português (Brasil) (pt)", "A (b) (zz9)", "B ((fr))"]
    for n, (a, b) in enumerate(itertools.combinations(labels, 2)):
        if not ctx.mine(n) or (ctx.tier == "quick" and n % 3):
            continue
        f = gen.simple_form([("text", "q1", {f"label::{a}": "A", f"label::{b}": "B"})])
        mode = n % 4
        args = {}
        if mode == 1:
            f.settings["default_language"] = a
        elif mode == 2:
            f.settings["default_language"] = b
        elif mode == 3:
            args["default_language"] = a
        judge(ctx, f.to_sheets(), f"lang|{a}|{b}|{mode}", "language-label", args=args)
    # (c2) both id headers on the settings sheet: the warning is about the two HEADERS, whatever their order, spelling or cells
    kk = 0
    for h_form in ("form_id", "Form_ID", "set_form_id", "form id"):
        for h_ids in ("id_string", "ID_STRING"):
            for order in (0, 1):
                for blank in (None, "form", "ids", "both"):
                    kk += 1
                    if not ctx.mine(kk):
                        continue
                    vals = {h_form: None if blank in ("form", "both") else "fid", h_ids: None if blank in ("ids", "both") else "ids_value", "form_title": "T"}
                    keys = [h_form, h_ids] if order == 0 else [h_ids, h_form]
                    f = gen.simple_form([("text", "q1", {"label": "Q"})])
                    f.settings = {k: vals[k] for k in keys + ["form_title"]}
                    sheets = f.to_sheets()
                    o = drive.convert_sheets(sheets)
                    ctx.ctr("both_id_header_cases")
                    if not o.ok:
                        ctx.ctr("rejected:both-ids")
                        # "advisory only": the pair draws a warning, it is no reason to refuse the form
                        ctx.viol("dup_id:form-refused", f"[both-ids] settings headers {keys} (blank cell: {blank}): the form is refused instead of warned about: {o.brief()[:200]}",
                                 {"sheets_md": common.sheets_to_md(sheets), "klass": "both-ids", "sheets": {k: [list(h), rows] for k, (h, rows) in sheets.items()}, "args": {}, "fmt": "dict"})
                        continue
                    ctx.case(sig=f"both-ids|{h_form}|{h_ids}|{order}|{blank}")
                    ctx.ctr("forms_judged")
                    got = recognise(o.warnings)["dup_id"]
                    if len(got) != 1:
                        ctx.viol("dup_id:not-emitted" if not got else "dup_id:count", f"[both-ids] settings headers {keys} (blank cell: {blank}): {len(got)} 'both specified' warnings",
                                 {"sheets_md": common.sheets_to_md(sheets), "warnings": o.warnings[:6], "klass": "both-ids", "sheets": {k: [list(h), rows] for k, (h, rows) in sheets.items()}, "args": {}, "fmt": "dict"})
    # (d) row-level triggers in generated forms
    for i in range(pl["n"]):
        if not ctx.mine(i):
            continue
        rng = ctx.rng("rows", i)
        cfg = common.rich_cfg(rng, p_section_label=0.5, p_upload=0.25, p_choice_nolabel=0.2, p_or_other=rng.choice([0, 0.3]), p_meta=0.1,
                              p_bind_extra=0, p_instance_extra=0, p_body_extra=0, p_parameters=0.5, p_appearance=0.3, delim="::")
        form = gen.gen_form(rng, cfg)
        rows = [r for r, _ in form.walk()]
        secs = [r for r in rows if r.is_section()]
        for r in secs:
            # an unlabeled section that carries a hint is still unlabeled
            if not any(h.split(":")[0] == "label" for h in r.cells) and rng.random() < 0.5:
                r.cells[rng.choice(["hint", "hint", "guidance_hint"])] = "section hint"
        if rng.random() < 0.3:
            for t in rng.sample(["simserial", "subscriberid", "deviceid", "sim id", "get subscriber id", "subscriber id", "get sim id", "get device id", "phonenumber"], 3):
                form.survey.insert(rng.randint(0, len(form.survey)), Row("q", t, f"md_{t.replace(' ', '_')}_{i}", {}))
        if rng.random() < 0.3:
            for r in rng.sample(rows, min(2, len(rows))):
                if r.kind == "q":
                    r.cells["disabled"] = rng.choice(["no", "false", "yes"])
        if rng.random() < 0.25 and form.choices:
            # duplicate choice names (allowed by the setting), some of them unlabeled, at later positions
            form.settings["allow_choice_duplicates"] = "yes"
            ln = rng.choice(list(form.choices))
            lst = form.choices[ln]
            for _ in range(rng.randint(1, 3)):
                src = rng.choice(lst)
                dup = {"name": src["name"]}
                if rng.random() < 0.5:
                    dup.update({k: v for k, v in src.items() if k.startswith("label")})
                lst.insert(rng.randint(1, len(lst)), dup)
        if rng.random() < 0.15:
            form.settings["id_string"] = "other_id"
            form.settings.setdefault("form_id", "fid")
            v = rng.randrange(4)
            if v == 1:
                form.settings["id_string"] = None  # both headers, one cell left blank: the headers are what the warning is about
            elif v == 2:
                form.settings = dict([("id_string", "other_id")] + [(k, x) for k, x in form.settings.items() if k != "id_string"])  # id_string column first
        if rng.random() < 0.2:
            form.extra_sheets[rng.choice(["setting", "Setings ", "entity", "entitis", "_setting", "sett", "choice"])] = (["a"], [["1"]])
        sheets = form.to_sheets()
        fmt = "dict"
        if rng.random() < 0.4:
            # blank spacer rows between the data rows (kept by the workbook readers and by dict input so that cited row numbers stay those of the spreadsheet)
            for sn in ("choices", "survey"):
                if sn in sheets and rng.random() < 0.8:
                    h, rws = sheets[sn]
                    rws = [list(r) for r in rws]
                    for _ in range(rng.randint(1, 4)):
                        rws.insert(rng.randint(0, max(0, len(rws) - 1)), [None] * len(h))
                    sheets[sn] = (h, rws)
            ctx.ctr("forms_with_blank_spacer_rows")
            fmt = rng.choice(["dict", "xlsx", "xls"])
        judge(ctx, sheets, common.feature_sig(form) + f"|{fmt}", "rows", args=form.args, fmt=fmt)


def replay(w):
    def chk(ctx, wit):
        if wit.get("klass") == "threads":
            print("thread witness: re-run ./check C20 (the pass needs a fresh process)")
            return
        sheets = {k: (v[0], v[1]) for k, v in wit["sheets"].items()}
        judge(ctx, sheets, "replay", wit.get("klass", "replay"), args=wit.get("args"), fmt=wit.get("fmt", "dict"))
    return common.replay_with(PROP, w, chk)
