"""C05 — logic cells reach the right bind unchanged, with the type the table prescribes.

Deciding oracle: reference model.  For every row the expected attribute set of the single
bind with that row's nodeset = type-table bind defaults + row logic cells + parameter-
derived attributes + bind:: extras + entities:saveto; values are the cell text with the
yes/no family mapped to true()/false() (whole cell, convertible attributes only),
references compared through a regex built from the literal segments of the source cell
(the path itself is C03's), messages inline or jr:itext('<path>:jr:...Msg').  Every
expression carries a unique marker literal naming its row and column, so a cell landing on
another row's bind identifies itself.  A share of cases renames/permutes the logic columns
with documented aliases before conversion (the model still reads the canonical form).
"""
from __future__ import annotations

import re

from .. import render, common, drive, gen, refmodel, spelling, xf
from ..model import Row
from ..refmodel import REF_RE, base_type, parse_params, texts

PROP = "C05"
LEVEL = "exploration"
TECHNIQUE = "runtime reference-model monitor: expected bind attribute sets (with self-identifying marker literals) vs model/bind of the parsed XForm"
RULE = ("cases = generated forms with random subsets of logic columns on rows of every type class (thorough: all 2^5 subsets of the five "
        "expression columns x type classes), random column order and documented header aliases; non-trivial = converted and every bind "
        "compared; distinct = distinct (form feature signature, alias/permutation variant)")
ASSUMPTIONS = ["reference paths inside expressions are only checked for shape here (C03 decides them)", "entity binds under meta/entity are C19's"]

CONVERTIBLE = {"readonly", "required", "relevant", "constraint", "calculate"}
YES = {"yes": "true()", "Yes": "true()", "YES": "true()", "true": "true()", "True": "true()", "TRUE": "true()",
       "no": "false()", "No": "false()", "NO": "false()", "false": "false()", "False": "false()", "FALSE": "false()"}
CELL2ATTR = {"relevant": "relevant", "required": "required", "read_only": "readonly", "constraint": "constraint", "calculation": "calculate"}


def plan(tier, seed):
    n = 2000 if tier == "quick" else 30000
    return {"shards": 16, "timeout": 900 if tier == "quick" else 3600, "n": n,
            "floors": {"binds_compared": n * 5, "logic_cells_checked": n * 3, "distinct": 100}}


def make_form(rng, i, tier):
    cfg = common.rich_cfg(rng, p_relevant=0.5, p_required=0.4, p_readonly=0.3, p_constraint=0.5, p_calc_on_visible=0.2,
                          p_constraint_msg=0.6, p_required_msg=0.6, p_parameters=0.7, p_bind_extra=0.2, p_group_logic=0.6, audit=0.3,
                          p_trigger=rng.choice([0, 0.3]), p_or_other=rng.choice([0, 0.3]), p_repeat_count=0.5, p_noapp=0.15, p_range=0.1,
                          p_upload=0.15)
    f = gen.gen_form(rng, cfg)
    if tier == "thorough" or i % 4 == 0:
        # exhaustive-ish: one row per type class with a chosen subset of the five expression columns
        mask = i % 32
        cols = ["relevant", "required", "read_only", "constraint", "calculation"]
        for t in ("text", "integer", "select_one", "image", "geopoint", "range", "calculate", "note", "date"):
            cells = {"label": f"lbl {t}"} if t != "calculate" else {}
            for b, c in enumerate(cols):
                if mask >> b & 1 or (t == "calculate" and c == "calculation"):
                    cells[c] = f"'{c}.sub_{t}_{i}' != ''"
            tt = t if t != "select_one" else f"select_one {next(iter(f.choices))}"
            f.survey.append(Row("q", tt, f"sub_{t}_{i}", cells))
    if i % 3 == 2:
        # a whole cell that is a yes/no word in each of the five expression columns (a constant calculation, a constraint switched off, a spreadsheet boolean)
        words = list(YES)
        for j, c in enumerate(["relevant", "required", "read_only", "constraint", "calculation"]):
            t = rng.choice(["text", "integer", "calculate" if c == "calculation" else "decimal"])
            cells = {} if t == "calculate" else {"label": f"yn {c}"}
            cells[c] = rng.choice(words)
            if rng.random() < 0.3:
                cells[rng.choice([x for x in ["relevant", "required", "read_only", "constraint", "calculation"] if x != c])] = rng.choice(words)
            f.survey.insert(rng.randint(0, len(f.survey)), Row("q", t, f"yn{i}_{j}", cells))
    if i % 4 == 2:
        # long expressions wrapped over several lines of the cell (spreadsheets, quoted CSV fields and dict input carry the line breaks)
        f.survey.append(Row("q", "integer", f"ml{i}", {"label": "ml", "constraint": f". >= 18 and\n. <= 99 and\n'c.ml{i}' != ''", "relevant": f"'r.ml{i}' != ''\nor 1 = 1",
                                                  "constraint_message": f"first line.ml{i}\nsecond line"}))
        f.meta["multiline"] = True
    if i % 5 == 0:
        f.entities = {"list_name": "ent", "label": "concat('e', '1')"}
        for r in [r for r in f.survey if r.kind == "q" and base_type(r) in ("text", "integer", "decimal")][:3]:
            r.cells["save_to"] = "p_" + r.name.replace("-", "_").replace(".", "_")
    if i % 7 == 0:
        f.settings["instance_name"] = "concat('i', 'n')"
    if i % 6 == 1 and f.choices:
        # table-list section whose selects carry logic: the generated heading node must not inherit any of it
        ln = next(iter(f.choices))
        sk = rng.choice(["group", "group", "repeat"])
        kids = []
        for j in range(rng.randint(1, 3)):
            cells = {"label": f"tl {j}"}
            for c in rng.sample(["relevant", "required", "constraint", "read_only"], rng.randint(1, 3)):
                cells[c] = f"'{c}.tl{i}_{j}' != ''"
            if "constraint" in cells and rng.random() < 0.5:
                cells["constraint_message"] = f"conmsg.tl{i}_{j}"
            kids.append(Row("q", f"{rng.choice(['select_one', 'select_multiple'])} {ln}", f"tl{i}_{j}", cells))
        f.survey.insert(rng.randint(0, len(f.survey)), Row(sk, f"begin {sk}", f"tlsec{i}", {"label": "TL", "appearance": "table-list"}, kids))
    return f


def conv_value(attr, v):
    if attr in CONVERTIBLE and v in YES:
        return YES[v]
    return v


def value_pattern(v):
    """Regex matching the cell text after reference substitution."""
    parts = REF_RE.split(v)
    # split gives [lit, g1, g2, lit, g1, g2, lit ...]
    lits = parts[0::3]
    pat = ""
    for k, lit in enumerate(lits):
        pat += re.escape(lit)
        if k < len(lits) - 1:
            pat += r" (\S+) "
    return re.compile("^" + pat + "$", re.S)


def expected_binds(form, rm):
    """{nodeset: {attr: ('exact', v) | ('re', pattern, source) | ('itext', id)}}; nodesets under meta/entity excluded."""
    out = {}
    root = rm.root
    for e in rm.entries:
        if e.kind == "count-helper":
            rep = e.generated
            out[e.path] = {"type": ("exact", "string"), "readonly": ("exact", "true()"), "calculate": pat(rep.cells["repeat_count"])}
            continue
        if e.kind == "other-helper":
            out[e.path] = {"type": ("exact", "string"), "relevant": ("exact", f"selected(../{e.generated.name}, 'other')")}
            continue
        if e.kind == "tl-label":
            out[e.path] = {"type": ("exact", "string"), "readonly": ("exact", "true()")}
            continue
        if e.kind == "tl-header":
            out[e.path] = {"type": ("exact", "string")}
            continue
        r = e.row
        bt = base_type(r)
        if bt in ("xml-external", "csv-external"):
            continue
        attrs = {}
        if r.kind == "q":
            ti = refmodel.type_info(r)
            for k, v in (ti or {}).get("bind", {}).items():
                attrs[k] = ("exact", v)
        prm = parse_params(r.cells.get("parameters"))
        if bt == "image" and "max-pixels" in prm:
            attrs["orx:max-pixels"] = ("exact", prm["max-pixels"])
        if bt == "audio" and "quality" in prm:
            attrs["odk:quality"] = ("exact", prm["quality"])
        if bt in ("geopoint", "geotrace", "geoshape") and "allow-mock-accuracy" in prm:
            attrs["odk:allow-mock-accuracy"] = ("exact", prm["allow-mock-accuracy"])
        if bt == "range":
            vals = [prm.get("start", "1"), prm.get("end", "10"), prm.get("step", "1")]
            if any("." in v and _isnum(v) and float(v) for v in vals):
                attrs["type"] = ("exact", "decimal")
        for cell, attr in CELL2ATTR.items():
            v = r.cells.get(cell)
            if v in (None, ""):
                continue
            if attr == "calculate" and r.cells.get("trigger"):
                continue
            attrs[attr] = pat(conv_value(attr, v))
        for cell, attr in (("constraint_message", "jr:constraintMsg"), ("required_message", "jr:requiredMsg"), ("no_app_error_string", "jr:noAppErrorString")):
            tx = texts(r.cells, cell)
            if not tx:
                continue
            translated = any(k is not None for k in tx)
            has_ref = any("${" in t for t in tx.values())
            if translated or (has_ref and attr != "jr:noAppErrorString"):
                attrs[attr] = ("exact", f"jr:itext('{e.path}:{attr}')")
            else:
                attrs[attr] = pat(tx[None])
        for h, v in r.cells.items():
            if h.startswith("bind::"):
                attrs[h[6:]] = pat(v)
        if r.cells.get("save_to"):
            attrs["entities:saveto"] = ("exact", r.cells["save_to"])
        if attrs:
            out[e.path] = attrs
    # meta
    s = form.settings
    meta = rm.expected_meta()
    if "instanceID" in meta:
        out[f"/{root}/meta/instanceID"] = {"type": ("exact", "string"), "readonly": ("exact", "true()"), "jr:preload": ("exact", s.get("instance_id", "uid"))}
    if "instanceName" in meta:
        out[f"/{root}/meta/instanceName"] = {"type": ("exact", "string"), "calculate": pat(s["instance_name"])}
    if rm.audit is not None:
        a = {"type": ("exact", "binary")}
        prm = parse_params(rm.audit.cells.get("parameters"))
        for k in ("location-priority", "location-min-interval", "location-max-age", "track-changes", "identify-user", "track-changes-reasons"):
            if k in prm:
                a["odk:" + k] = ("exact", prm[k])
        out[f"/{root}/meta/audit"] = a
    return out


def _isnum(v):
    try:
        float(v)
        return True
    except ValueError:
        return False


def pat(v):
    # bind values are attributes: a line break (or tab) inside the cell is written as such and read back by any XML parser as a space
    v = v.replace("\r\n", " ").replace("\n", " ").replace("\r", " ").replace("\t", " ")
    if "${" in v:
        return ("re", value_pattern(v), v)
    return ("exact", v)


def check(ctx, form, sig, variant="plain", sheets=None, sample=False, fmt="dict"):
    sheets = sheets or form.to_sheets()
    o = drive.convert_sheets(sheets, args=form.args, fmt=fmt)
    if not o.ok:
        ctx.ctr("rejected")
        if not o.exc_is_pyxform:
            ctx.ctr("internal_exception_seen(C17's business)")
        return
    try:
        p = xf.Parsed(o.xform)
    except xf.XFError:
        ctx.ctr("unparseable_output(C01's business)")
        return
    rm = refmodel.RM(form)
    exp = expected_binds(form, rm)
    ctx.case(sig=f"{sig}|{variant}")
    wit = lambda **kw: common.witness(form, variant=variant, **kw)  # noqa: E731
    got = {}
    for b in p.binds():
        ns = b.get("nodeset")
        if f"/{rm.root}/meta/entity" in (ns or ""):
            continue
        a = p.attr_dict(b)
        a.pop("nodeset", None)
        if ns in got:
            ctx.viol("bind:duplicated", f"two binds for {ns}", wit())
        got[ns] = a
    for ns in exp:
        if ns not in got:
            ctx.viol("bind:missing", f"no bind for {ns}; expected attributes {sorted(exp[ns])}", wit())
    for ns, a in got.items():
        ctx.ctr("binds_compared")
        if ns not in exp:
            ctx.viol("bind:unexpected", f"bind for {ns} with {a} but the row has no logic", wit())
            continue
        e = exp[ns]
        for k in sorted(set(e) | set(a)):
            if k not in a:
                ctx.viol(f"attr:dropped:{k}", f"bind {ns}: attribute {k} missing; expected {e[k][-1] if e[k][0] == 're' else e[k][1]!r}", wit())
                continue
            if k not in e:
                own = _owner(a[k])
                ctx.viol(f"attr:unexpected:{k}", f"bind {ns}: unexpected attribute {k}={a[k]!r}" + (f" (marker says it belongs to {own})" if own else ""), wit())
                continue
            ctx.ctr("logic_cells_checked")
            spec = e[k]
            ok = (spec[0] == "exact" and a[k] == spec[1]) or (spec[0] == "re" and spec[1].match(a[k]) is not None)
            if not ok:
                want = spec[1] if spec[0] == "exact" else spec[2]
                own = _owner(a[k])
                cls = "misplaced" if own and own not in ns else "value"
                ctx.viol(f"attr:{cls}:{k}", f"bind {ns}: {k}={a[k]!r}, expected (after reference substitution) {want!r}", wit())
    if sample:
        ctx.sample({"form_md": common.sheets_to_md(sheets)[:1500], "binds_expected": {k: sorted(v) for k, v in list(exp.items())[:6]},
                    "observed": "every bind carried exactly the expected attribute set and values"})


_MARK = re.compile(r"'(?:relevant|required|readonly|constraint|calc)\.([^']+)'")


def _owner(v):
    m = _MARK.search(v or "")
    return m.group(1) if m else None


def loop_forms(ctx):
    """Legacy 'begin loop over <list>': one group per choice, %(name)s / %(label)s in the children's cells filled in per choice.
    Each copy's bind must carry the logic written for *its* choice (and nobody else's)."""
    for i in range(48):
        if not ctx.mine(i):
            continue
        rng = ctx.rng("loop", i)
        n = rng.randint(2, 4)
        names = rng.sample(["pit", "flush", "bucket", "none_", "vip", "other1"], n)
        items = [(nm, f"Lbl {nm}") for nm in names]
        logic = {}
        for c in rng.sample(["constraint", "relevant", "required", "read_only", "calculation"], rng.randint(1, 3)):
            logic[c] = rng.choice(["'%(name)s' != '' and ${avail} != 'x'", "selected(${avail}, '%(name)s')", "string-length('%(label)s') > 1", "'%(name)s.%(name)s' = 'q'",
                                   "contains('%(name)s', '%') or . < 100"])  # a percent sign that is not a placeholder is ordinary text
        if "constraint" in logic and rng.random() < 0.6:
            logic["constraint_message"] = rng.choice(["Too many %(label)s", "bad %(name)s", "At most 100% of %(label)s", "%(name)s: 5 % 2"])
        rows = ["| | select_multiple toilets | avail | Which | | | | | | |", "| | begin loop over toilets | lp | Loop | | | | | | |"]
        cols = ["constraint", "relevant", "required", "read_only", "calculation", "constraint_message"]
        rows.append("| | integer | number | How many %(label)s | " + " | ".join(logic.get(c, "") for c in cols) + " |")
        rows.append("| | text | plainq | Plain | | | | | | |")
        rows.append("| | end loop | | | | | | | | |")
        md = "| survey |\n| | type | name | label | " + " | ".join(cols) + " |\n" + "\n".join(rows) + "\n| choices |\n| | list_name | name | label |\n" + \
             "\n".join(f"| | toilets | {nm} | {lb} |" for nm, lb in items) + "\n"
        o = drive.call_convert(md, file_type=".md")
        ctx.case(sig=f"loop|{n}|{sorted(logic)}")
        ctx.ctr("loop_forms")
        if not o.ok:
            ctx.viol("loop:rejected", f"a loop over a {n}-choice list was refused: {o.brief()}", {"klass": "loop", "md": md})
            continue
        p = xf.Parsed(o.xform)
        binds = {b.get("nodeset"): p.attr_dict(b) for b in p.binds()}
        attr_of = {"constraint": "constraint", "relevant": "relevant", "required": "required", "read_only": "readonly", "calculation": "calculate", "constraint_message": "jr:constraintMsg"}
        for nm, lb in items:
            got = binds.get(f"/data/lp/{nm}/number")
            ctx.ctr("binds_compared")
            if got is None:
                ctx.viol("loop:bind-missing", f"no bind for /data/lp/{nm}/number", {"klass": "loop", "md": md})
                continue
            for c, text in logic.items():
                want = text.replace("%(name)s", nm).replace("%(label)s", lb).replace("${avail}", " /data/avail ")
                g = got.get(attr_of[c])
                ctx.ctr("logic_cells_checked")
                if g is None or " ".join(g.split()) != " ".join(want.split()):
                    other = next((x for x, _ in items if x != nm and g and f"'{x}" in g), None)
                    ctx.viol("loop:logic-of-another-copy" if other else "loop:logic-wrong", f"/data/lp/{nm}/number @{attr_of[c]} = {g!r}, written for this copy: {want!r}", {"klass": "loop", "md": md})
            extra = set(got) - {attr_of[c] for c in logic} - {"nodeset", "type"}
            if extra:
                ctx.viol("loop:unexpected-attribute", f"/data/lp/{nm}/number carries {sorted(extra)}", {"klass": "loop", "md": md})


NUMS = [3.14159265, 0.0174532925, 6371.0088, 1234567.25, 0.5, 46.9, 1e16, 12345678, 2.5e-7, 123456789.125, 99999.995, 7, 32.0, -0.000123456789]


def numeric_cell_forms(ctx):
    """Logic cells a spreadsheet stores as NUMBERS (typed without a quote): calculation = 3.14159265, bind::... = 1234567.25 ...  The bind carries
    the number the author typed, digit for digit (shortest decimal text that reads back as the same number), in xlsx and xls alike."""
    from ..render import canon_text
    for i in range(32):
        if not ctx.mine(i):
            continue
        rng = ctx.rng("num", i)
        fmt = ("xlsx", "xls")[i % 2]
        vals = rng.sample(NUMS, 5)
        h = ["type", "name", "label", "calculation", "constraint", "relevant", "bind::jr:preload"]
        rows = [["integer", "base", "Base", None, None, None, None]]
        exp = {}
        for j, v in enumerate(vals):
            col = ("calculation", "constraint", "relevant", "calculation")[j % 4]
            r = ["integer" if col != "calculation" else "calculate", f"n{j}", f"L{j}" if col != "calculation" else None, None, None, None, None]
            r[h.index(col)] = v
            rows.append(r)
            exp[f"/data/n{j}"] = ({"calculation": "calculate"}[col] if col == "calculation" else col, canon_text(v))
        sheets = {"survey": (h, rows)}
        o = drive.convert_sheets(sheets, fmt=fmt)
        ctx.case(sig=f"numeric|{fmt}|{sorted(map(str, vals))}")
        ctx.ctr("numeric_cell_forms")
        wit = {"klass": "numeric", "i": i, "fmt": fmt, "values": [repr(v) for v in vals]}
        if not o.ok:
            ctx.viol("numeric:rejected", f"a form with number-typed logic cells was refused: {o.brief()}", wit)
            continue
        p = xf.Parsed(o.xform)
        binds = {b.get("nodeset"): p.attr_dict(b) for b in p.binds()}
        for ns, (attr, want) in exp.items():
            g = (binds.get(ns) or {}).get(attr)
            ctx.ctr("logic_cells_checked")
            if g != want:
                ctx.viol(f"numeric:{attr}:number-not-as-typed", f"{fmt}: bind {ns} @{attr} = {g!r}; the cell holds the number {want}", wit)


def _bind_table(xform):
    p = xf.Parsed(xform)
    return {b.get("nodeset"): p.attr_dict(b) for b in p.binds()}


def thread_pass(ctx):
    """Several different forms converted at the same time in threads of one process (a service converting uploads in a pool): each form's binds are
    the ones it gets when converted alone - nothing missing, nothing borrowed from a row of the form next door."""
    import sys
    import threading
    rounds = 4 if ctx.tier == "quick" else 30
    rng = ctx.rng("threads", ctx.shard)
    forms = [make_form(rng, 9000 + ctx.shard * 10 + k, ctx.tier) for k in range(3)]
    alone = [drive.convert_sheets(f.to_sheets(), args=f.args) for f in forms]
    if not all(o.ok for o in alone):
        ctx.ctr("thread_form_rejected")
        return
    ref = [_bind_table(o.xform) for o in alone]
    old = sys.getswitchinterval()
    sys.setswitchinterval(1e-5)
    try:
        for rnd in range(rounds):
            res = {}
            bar = threading.Barrier(len(forms))

            def work(k):
                try:
                    bar.wait(timeout=30)
                except threading.BrokenBarrierError:
                    pass
                res[k] = drive.convert_sheets(forms[k].to_sheets(), args=forms[k].args)
            ts = [threading.Thread(target=work, args=(k,)) for k in range(len(forms))]
            for t_ in ts:
                t_.start()
            for t_ in ts:
                t_.join(120)
            ctx.ctr("concurrent_conversion_rounds")
            ctx.case(sig=f"threads|{ctx.shard}|{rnd}")
            for k, f in enumerate(forms):
                o = res.get(k)
                if o is None or not o.ok:
                    ctx.viol("threads:conversion-failed-beside-others", f"round {rnd}: form {k} converted beside two others failed: {o.brief()[:160] if o is not None else 'no result'}", common.witness(f, klass="threads"))
                    return
                got = _bind_table(o.xform)
                ctx.ctr("binds_compared", len(got))
                if got != ref[k]:
                    ns = next((n for n in ref[k] if got.get(n) != ref[k][n]), None) or next(iter(set(got) - set(ref[k])), None)
                    ctx.viol("threads:binds-differ-from-conversion-alone", f"round {rnd}: form {k} converted beside two others: bind {ns} is {got.get(ns)}, alone it is {ref[k].get(ns)}",
                             common.witness(f, klass="threads"))
                    return
    finally:
        sys.setswitchinterval(old)


def second_build_forms(ctx):
    """The same workbook dict built a second time (a server that keeps the parsed workbook, a retry): every bind carries what it carried the first
    time. Forms with the legacy add_none_option setting and select_multiple rows that have a constraint of their own are among them."""
    n = 60 if ctx.tier == "quick" else 600
    for i in range(n):
        if not ctx.mine(i):
            continue
        rng = ctx.rng("second", i)
        form = make_form(rng, 7000 + i, ctx.tier)
        if i % 2 == 0 and form.choices:
            form.settings["add_none_option"] = rng.choice(["yes", "true"])
            ln = sorted(form.choices)[0]
            form.survey.append(Row("q", f"select_multiple {ln}", f"sm_own{i}", {"label": "pick", "constraint": "count-selected(.) < 3", "constraint_message": "at most two"}))
            form.survey.append(Row("q", f"select_multiple {ln}", f"sm_plain{i}", {"label": "pick"}))
        sheets = form.to_sheets()
        a = drive.convert_sheets(sheets, fmt="dict", args=form.args)
        b = drive.convert_sheets(sheets, fmt="dict_twice", args=form.args)
        ctx.ctr("second_build_forms")
        ctx.case(sig=f"second-build|{i}|{common.feature_sig(form)}")
        if not a.ok:
            continue
        if not b.ok:
            ctx.viol("second-build:refused", f"the workbook converts, the same dict object converted again does not: {b.brief()[:200]}", common.witness(form, klass="second-build"))
            continue
        ta, tb = _bind_table(a.xform), _bind_table(b.xform)
        ctx.ctr("binds_compared", len(ta))
        # ... and the survey stored as JSON and opened again, and built again from the conversion's own intermediate dict
        try:
            import json as _json
            from pyxform.builder import create_survey_element_from_dict
            from pyxform.xls2xform import convert as _convert
            res_ = _convert(xlsform=render.render(sheets, "dict"), **form.args)
            for how, make in (("dumped-and-reloaded", lambda: create_survey_element_from_dict(_json.loads(_json.dumps(res_._survey.to_json_dict())))),
                              ("rebuilt-from-the-intermediate-dict", lambda: create_survey_element_from_dict(res_._pyxform))):
                tc = _bind_table(make().to_xml(validate=False, pretty_print=False))
                ctx.ctr("binds_compared", len(tc))
                if tc != ta:
                    ns = next((k for k in ta if tc.get(k) != ta[k]), None) or next(iter(set(tc) - set(ta)), None)
                    ctx.viol(f"second-build:{how}:binds-differ", f"bind {ns}: converted {ta.get(ns)}, {how} {tc.get(ns)}", common.witness(form, klass="second-build"))
        except Exception as e:  # noqa: BLE001
            ctx.viol("second-build:reload-raised", f"{type(e).__name__}: {str(e)[:200]}", common.witness(form, klass="second-build"))
        if ta != tb:
            ns = next((k for k in ta if tb.get(k) != ta[k]), None) or next(iter(set(tb) - set(ta)), None)
            ctx.viol("second-build:binds-differ", f"bind {ns}: first build {ta.get(ns)}, second build of the same dict {tb.get(ns)}", common.witness(form, klass="second-build"))


def run_shard(ctx):
    pl = plan(ctx.tier, ctx.seed)
    loop_forms(ctx)
    thread_pass(ctx)
    second_build_forms(ctx)
    numeric_cell_forms(ctx)
    for i in range(pl["n"]):
        if not ctx.mine(i):
            continue
        rng = ctx.rng("case", i)
        form = make_form(rng, i, ctx.tier)
        sheets = form.to_sheets()
        variant = "plain"
        if i % 3 == 1:
            sheets, done, _ = spelling.apply(sheets, rng, n=(1, 4), only=["header_alias", "header_case", "col_perm", "type_alias", "type_alias"])
            variant = "aliases:" + "+".join(sorted({d.split(":")[0] for d in done}))
        fmt = "dict"
        if form.meta.get("multiline") and i % 8 == 2 and variant == "plain":
            fmt = rng.choice(["csv", "xlsx"])
            variant += f"+multiline:{fmt}"
            ctx.ctr("multiline_cell_cases")
        if i % 5 == 4:
            # a spreadsheet with a header-less column (an author's scratch column) somewhere among the logic columns: cells must stay under their headers
            h, rows = sheets["survey"]
            at = rng.randint(1, len(h))
            note = lambda: rng.choice([None, None, "author note", "yes", "1"])  # noqa: E731
            sheets = dict(sheets)
            run = rng.choice([1, 1, 2, 19, 20, 20])  # up to 20 adjacent header-less columns do not end the sheet
            sheets["survey"] = (h[:at] + [None] * run + h[at:], [r[:at] + [note()] + [None] * (run - 1) + r[at:] for r in rows])
            fmt = rng.choice(["xlsx", "xls"])
            variant += f"+headerless-column:{fmt}:{run}"
            ctx.ctr("headerless_column_cases")
        if i % 11 == 5 and variant == "plain" and fmt == "dict":
            # message, hint and label cells that begin with '#' ("# of children can't be < 0"), through the text containers: a cell is not a comment
            touched = 0
            for r_, _ in form.walk():
                for c_ in ("constraint_message", "required_message", "hint", "label"):
                    v_ = r_.cells.get(c_)
                    if isinstance(v_, str) and v_ and "${" not in v_ and rng.random() < 0.7:
                        r_.cells[c_] = "# " + v_
                        touched += 1
            sheets = form.to_sheets()
            if touched and all(render.md_ok_cell(str(c)) for _, (h_, rows_) in sheets.items() for r_ in rows_ for c in r_ if c is not None):
                fmt = rng.choice(["md", "md", "csv"])
                variant += f"+hash-led-cells:{fmt}"
                ctx.ctr("hash_led_cell_cases")
        check(ctx, form, common.feature_sig(form), variant, sheets, sample=(i < 2), fmt=fmt)


def replay(w):
    def chk(ctx, wit):
        if wit.get("klass") == "loop":
            loop_forms(ctx)
            return
        if wit.get("klass") == "second-build":
            second_build_forms(ctx)
            return
        if wit.get("klass") == "threads":
            thread_pass(ctx)
            return
        if wit.get("klass") == "numeric":
            numeric_cell_forms(ctx)
            return
        check(ctx, common.form_from_witness(wit), "replay")
    return common.replay_with(PROP, w, chk)
