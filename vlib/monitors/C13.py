"""C13 — documented spellings and layout noise are interchangeable.

Deciding oracle: metamorphic.  For a generated workbook W and a random composition T of
catalogued equivalences (vlib/spelling.py): canon(convert(W)) == canon(convert(T(W)))
and the warnings are equal up to the predicted row shift.  canon ignores attribute
order and the order of translations / text entries / values / fields of a choice item
(they follow column order and are semantically unordered); everything else is ordered.
"""
from __future__ import annotations

import re

from .. import common, drive, gen, render, spelling, xdiff

PROP = "C13"
LEVEL = "exploration"
TECHNIQUE = "runtime metamorphic monitor: convert(W) vs convert(T(W)) for compositions of catalogued spelling/layout equivalences, with predicted row shift"
RULE = ("cases = (W, T) with W a generated form and T a composition of 1-6 catalogued transformations at random sites (header case/"
        "spacing, header aliases, '::' vs ':' delimiters, type aliases, truth-value spellings, smart quotes, whitespace, column/sheet "
        "permutation, sheet-name case, blank rows, unrelated/underscore sheets, unknown columns); non-trivial = W converted and T changed "
        "the workbook; distinct = distinct (set of transformation kinds applied, form feature signature)")
ASSUMPTIONS = ["the dict container is used so that whitespace and blank rows reach the converter unchanged; xlsx is used for a share of cases",
               "order of translations/text entries/item fields follows column order and is treated as unordered"]

GEN_NAME = re.compile(r"(generated_note_name_|generated_table_list_label_|reserved_name_for_field_list_labels_)(\d+)")
ROW_REF = re.compile(r"\[row : (\d+)\]")
TYPE_ECHO = re.compile(r"'type': '([^']*)'")


def plan(tier, seed):
    n = 1500 if tier == "quick" else 24000
    return {"shards": 16, "timeout": 900 if tier == "quick" else 3600, "n": n,
            "floors": {"pairs_compared": n // 2, "distinct": 100, "transformations_applied": n}}


def base_form(rng):
    cfg = common.rich_cfg(rng, p_bind_extra=0, p_instance_extra=0, p_body_extra=0, p_or_other=rng.choice([0, 0.3]),
                          p_required=0.4, p_readonly=0.3, p_media=0.3, p_constraint=0.4, p_constraint_msg=0.8, p_required_msg=0.6,
                          p_choice_media=0.3, p_repeat_count=0.6, p_choice_nolabel=rng.choice([0, 0.1]))
    f = gen.gen_form(rng, cfg)
    # unnamed notes / unlabeled groups exercise generated names and row-numbered warnings
    from ..model import Row
    if rng.random() < 0.4:
        f.survey.insert(rng.randint(0, len(f.survey)), Row("q", "note", None, {"label": "unnamed note"}))
    if rng.random() < 0.3:
        f.survey.append(Row("group", "begin group", "nolabelgrp", {}, [Row("q", "image", "pic_in_grp", {"label": "pic"})]))
    if rng.random() < 0.3:
        ln = next(iter(f.choices))
        f.survey.append(Row("group", "begin group", "tl_grp", {"label": "TL", "appearance": "table-list"},
                            [Row("q", f"select_one {ln}", "tl_a", {"label": "a"}), Row("q", f"select_one {ln}", "tl_b", {"label": "b"})]))
    if rng.random() < 0.25:
        f.survey.append(Row("q", rng.choice(["select_one_from_file cities.csv", "select_multiple_from_file zones.xml"]), "from_file_q",
                            {"label": "ff", "parameters": rng.choice(["value=code label=nm", "value=v1", "label=l1"])}))
    if rng.random() < 0.2:
        f.settings["instance_id"] = rng.choice(["uid", "myid"])
    if rng.random() < 0.25:
        # the legacy 'disabled' column (still honoured, with a warning): a row switched off and a row left on
        f.survey.append(Row("q", "text", "dis_off", {"label": "off", "disabled": rng.choice(["yes", "true"])}))
        f.survey.append(Row("q", "text", "dis_on", {"label": "on", "disabled": rng.choice(["no", "false"])}))
    if rng.random() < 0.2 and f.entities is None:
        f.extra_sheets[rng.choice(["entities", "settings"]) if not f.settings else "entities"] = (["list_name", "label"], [])  # an optional sheet with a header row only
    # truth values on group / repeat rows too (read-only group, a repeat switched off)
    for r, _ in f.walk():
        if r.is_section() and rng.random() < 0.3:
            r.cells[rng.choice(["read_only", "relevant", "required"])] = rng.choice(["yes", "no", "true", "FALSE"])
    # documented settings flags (so that their yes/no spellings can be exchanged)
    if rng.random() < 0.35:
        ln = next(iter(f.choices))
        if len(f.choices[ln]) >= 1:
            dup = dict(f.choices[ln][0])
            f.choices[ln].append(dup)
            f.settings["allow_choice_duplicates"] = rng.choice(["yes", "true", "TRUE"])
    if rng.random() < 0.25 and "public_key" not in f.settings:
        f.settings["omit_instanceID"] = rng.choice(["yes", "no", "false", "true"])
    return f


def unshift_text(s, shift, sheet_of_msg):
    """Map row numbers of the transformed workbook back to the original numbering."""
    if not shift:
        return s
    def fix(m, which):
        n = int(m.group(which))
        for sheet, (first, k) in shift.items():
            if sheet_of_msg(m) == sheet and n >= first + k:
                n -= k
        return n
    return s, fix


def normalise_warnings(ws, shift):
    out = []
    for w in ws:
        def sub(m):
            n = int(m.group(1))
            # which sheet does this message talk about?
            tail = w[m.end():m.end() + 40]
            sheet = "choices" if "'choices' sheet" in tail or "On the 'choices'" in w else "survey"
            if sheet in shift:
                first, k = shift[sheet]
                if n >= first + k:
                    n -= k
            return f"[row : {n}]"
        w2 = ROW_REF.sub(sub, w)
        w2 = TYPE_ECHO.sub(lambda m: f"'type': '{spelling.canonical_type(m.group(1))}'", w2)
        out.append(w2)
    return out


def normalise_xform(x, shift):
    if "survey" not in shift:
        return x
    first, k = shift["survey"]

    def sub(m):
        n = int(m.group(2))
        if n >= first + k:
            n -= k
        return f"{m.group(1)}{n}"
    return GEN_NAME.sub(sub, x)


def differences(a, b, shift):
    """[(kind, text)] between the original outcome a and the transformed outcome b."""
    out = []
    if not b.ok:
        return [("outcome-differs", f"transformed workbook rejected: {b.brief()}")]
    d = xdiff.diffs(a.xform, normalise_xform(b.xform, shift), unordered=True)
    if d:
        out.append(("xform-differs", f"{d[:2]}"))
    wa = sorted(normalise_warnings(a.warnings, {}))
    wb_ = sorted(normalise_warnings(b.warnings, shift))
    if wa != wb_:
        out.append(("warnings-differ", f"only original: {[w for w in wa if w not in wb_][:2]} / only transformed: {[w for w in wb_ if w not in wa][:2]}"))
    if (a.itemsets is None) != (b.itemsets is None):
        out.append(("itemsets-differ", ""))
    elif a.itemsets != b.itemsets:
        out.append(("itemsets-differ", f"{a.itemsets[:160]!r} vs {b.itemsets[:160]!r}"))
    return out


def _rk(fmt):
    """dict workbooks are handed over as an API caller would: text cells verbatim (padding and all), not pre-trimmed by the renderer"""
    return {"raw": True} if fmt == "dict" else None


def compare_steps(ctx, form, sheets, steps, sig, fmt):
    """Compare after the full composition; on a difference, walk the recorded steps to find the first culprit."""
    tsheets, done, shift = steps[-1]
    a = drive.convert_sheets(sheets, fmt=fmt, args=form.args, render_kw=_rk(fmt))
    kinds = sorted({d.split(":")[0] for d in done})
    if not a.ok:
        ctx.ctr("rejected_original")
        b = drive.convert_sheets(tsheets, fmt=fmt, args=form.args, render_kw=_rk(fmt))
        if b.ok:
            ctx.viol("outcome-differs:original-rejected-transformed-accepted", f"original rejected ({a.brief()}) but transformed accepted; T={done}",
                     _wit(form, done, shift, fmt, tsheets))
        return
    b = drive.convert_sheets(tsheets, fmt=fmt, args=form.args, render_kw=_rk(fmt))
    ctx.ctr("pairs_compared")
    ctx.ctr("transformations_applied", len(done))
    for k in kinds:
        ctx.ctr(f"T:{k}")
    ctx.case(sig=f"{'+'.join(kinds)}|{sig}")
    diffs = differences(a, b, shift)
    if not diffs:
        return
    # locate the first step after which the relation breaks
    for ts, dn, sh in steps:
        bj = drive.convert_sheets(ts, fmt=fmt, args=form.args, render_kw=_rk(fmt))
        dj = differences(a, bj, sh)
        if dj:
            culprit = ":".join(dn[-1].split(":")[:2])
            for kind, text in dj:
                ctx.viol(f"{kind}:{culprit}", f"after T={dn} (culprit step {dn[-1]!r}): {text}"[:900], _wit(form, dn, sh, fmt, ts))
            return
    for kind, text in diffs:
        ctx.viol(f"{kind}:composition", f"T={done}: {text}"[:900], _wit(form, done, shift, fmt, tsheets))


def _wit(form, done, shift, fmt, tsheets):
    return common.witness(form, transformations=done, shift={k: list(v) for k, v in shift.items()}, fmt=fmt,
                          tsheets={k: [list(h), rows] for k, (h, rows) in tsheets.items()})


def compare(ctx, form, sheets, tsheets, done, shift, sig, fmt):
    a = drive.convert_sheets(sheets, fmt=fmt, args=form.args, render_kw=_rk(fmt))
    b = drive.convert_sheets(tsheets, fmt=fmt, args=form.args, render_kw=_rk(fmt))
    kinds = sorted({d.split(":")[0] for d in done})
    wit = lambda: common.witness(form, transformations=done, shift={k: list(v) for k, v in shift.items()}, fmt=fmt,  # noqa: E731
                                 tsheets={k: [list(h), rows] for k, (h, rows) in tsheets.items()})
    if not a.ok:
        ctx.ctr("rejected_original")
        if b.ok:
            ctx.viol(f"outcome-differs:{'+'.join(kinds)}", f"original rejected ({a.brief()}) but transformed workbook accepted; T={done}", wit())
        return
    ctx.ctr("pairs_compared")
    ctx.ctr("transformations_applied", len(done))
    for k in kinds:
        ctx.ctr(f"T:{k}")
    ctx.case(sig=f"{'+'.join(kinds)}|{sig}")
    if not b.ok:
        ctx.viol(f"outcome-differs:{'+'.join(kinds)}", f"transformed workbook rejected: {b.brief()}; T={done}", wit())
        return
    xb = normalise_xform(b.xform, shift)
    d = xdiff.diffs(a.xform, xb, unordered=True)
    if d:
        ctx.viol(f"xform-differs:{'+'.join(kinds)}", f"T={done}: {d[:2]}"[:900], wit())
    wa = sorted(normalise_warnings(a.warnings, {}))
    wb_ = sorted(normalise_warnings(b.warnings, shift))
    if wa != wb_:
        only_a = [w for w in wa if w not in wb_]
        only_b = [w for w in wb_ if w not in wa]
        ctx.viol(f"warnings-differ:{'+'.join(kinds)}", f"T={done}: only original: {only_a[:2]} / only transformed: {only_b[:2]}"[:900], wit())
    if (a.itemsets is None) != (b.itemsets is None):
        ctx.viol(f"itemsets-differ:{'+'.join(kinds)}", f"T={done}", wit())


def dict_reuse_history(ctx, i, rng, form):
    """A caller converts a dict workbook, edits it (inserts blank rows, re-spells headers) *re-using the same row objects*, converts again:
    the second result must be what a freshly built workbook of the same content gives."""
    import copy
    sheets = form.to_sheets()
    wb = render.to_dict(sheets)
    a = drive.call_convert(wb, **form.args)
    if not a.ok:
        return
    k = rng.randint(0, len(wb["survey"]))
    nb = rng.randint(1, 4)
    wb2 = dict(wb)
    wb2["survey"] = wb["survey"][:k] + [{} for _ in range(nb)] + wb["survey"][k:]  # the same row dicts, shifted down
    if rng.random() < 0.5 and "survey_header" in wb2:
        ren = {"type": "Type", "name": "NAME", "label": "Label"}
        wb2["survey_header"] = [{ren.get(h, h): v for h, v in wb2["survey_header"][0].items()}]
        wb2["survey"] = [{ren.get(h, h): v for h, v in r.items()} if r and rng.random() < 0.0 else r for r in wb2["survey"]]
        wb2["survey_header"] = wb["survey_header"]  # headers unchanged when rows are shared (a renamed header would need renamed row keys)
    fresh = copy.deepcopy(render.to_dict(sheets))
    fresh["survey"] = fresh["survey"][:k] + [{} for _ in range(nb)] + fresh["survey"][k:]
    b = drive.call_convert(wb2, **form.args)
    c = drive.call_convert(fresh, **form.args)
    ctx.ctr("dict_reuse_histories")
    ctx.ctr("pairs_compared")
    ctx.case(sig=f"dict-reuse|{nb}|{common.feature_sig(form)}")
    if b.ok != c.ok or (b.ok and (b.xform != c.xform or b.warnings != c.warnings)):
        what = "outcome" if b.ok != c.ok else ("xform" if b.xform != c.xform else "warnings")
        detail = xdiff.diffs(c.xform, b.xform)[:2] if b.ok and c.ok and what == "xform" else (b.brief(), c.brief())
        ctx.viol(f"history:dict-rows-reused-after-a-conversion:{what}", f"converting a dict workbook, inserting {nb} blank rows above row {k + 2} (same row objects) and converting again differs from a fresh "
                 f"workbook of the same content in {what}: {detail}"[:800], common.witness(form, history="convert; insert blank rows re-using row objects; convert"))


def sweep_form():
    """One form that uses every catalogued survey, choices and settings column with a value that shows in the output."""
    from ..model import Form, Row
    f = Form()
    f.survey = [
        Row("q", "integer", "n0", {"label": "N", "hint": "h", "guidance_hint": "gh", "image": "a.png", "audio": "a.mp3", "video": "a.mp4", "big-image": "b.png",
                                   "relevant": "1 = 1", "required": "yes", "read_only": "no", "constraint": ". > 0", "constraint_message": "cm", "required_message": "rm",
                                   "default": "3", "appearance": "numbers", "save_to": "prop_a", "no_app_error_string": "none"}),
        Row("q", "calculate", "c0", {"calculation": "1 + 1", "trigger": "${n0}"}),
        Row("q", "select_one l1", "s0", {"label": "S", "choice_filter": "name != ''", "parameters": "randomize=true"}),
        Row("repeat", "begin repeat", "r0", {"label": "R", "repeat_count": "2"}, [Row("q", "text", "t0", {"label": "T"})]),
        Row("q", "text", "dis_off", {"label": "off", "disabled": "yes"}),
        Row("q", "text", "dis_on", {"label": "on", "disabled": "no"}),
        Row("q", "select_one_external ext", "x0", {"label": "X", "choice_filter": "state=${n0}"}),
    ]
    f.external_choices = [{"list_name": "ext", "name": "e1", "label": "E1", "state": "1"}, {"list_name": "ext", "name": "e2", "label": "E2", "state": "2"}]
    f.choices = {"l1": [{"name": "a", "label": "A", "image": "ca.png", "audio": "ca.mp3", "video": "ca.mp4", "big-image": "cb.png"}, {"name": "b", "label": "B"}]}
    f.settings = {"form_title": "Sweep", "form_id": "sweep", "version": "7", "default_language": "en", "instance_name": "concat('x', ${n0})", "submission_url": "https://example.org/s",
                  "public_key": "abc", "style": "pages", "auto_send": "true", "auto_delete": "false", "namespaces": 'ex="http://example.org/ex"', "instance_xmlns": "http://example.org/x",
                  "name": "sweepdata", "allow_choice_duplicates": "no"}
    f.entities = {"list_name": "ent", "label": "'x'"}
    return f


def nbsp_forms(ctx):
    """Spreadsheet containers: the extra blank inside (or around) a survey cell is a no-break space - what pasting from a word processor or the web
    leaves behind. The spreadsheet readers turn it into an ordinary blank, so it is as neutral as any other extra whitespace."""
    for i in range(64 if ctx.tier == "quick" else 640):
        if not ctx.mine(i):
            continue
        rng = ctx.rng("nbsp", i)
        form = base_form(rng)
        sheets = form.to_sheets()
        h, rows = sheets["survey"]
        trows = [list(r) for r in rows]
        cells = [(ri, ci) for ri, r in enumerate(trows) for ci, c in enumerate(r) if isinstance(c, str) and c and h[ci] is not None]
        spaced = [(ri, ci) for ri, ci in cells if " " in trows[ri][ci]]
        n = 0
        for _ in range(rng.randint(1, 4)):
            style = rng.randrange(3)
            if style < 2 and spaced:
                ri, ci = rng.choice(spaced)
                parts = trows[ri][ci].split(" ")
                k = rng.randrange(len(parts) - 1)
                parts[k] = parts[k] + rng.choice(["\u00a0", "\u00a0\u00a0", " \u00a0"]) if style == 0 else "\u00a0" + parts[k] if k else parts[k] + "\u00a0"
                trows[ri][ci] = " ".join(parts)
            else:
                ri, ci = rng.choice(cells)
                trows[ri][ci] = rng.choice(["\u00a0", " \u00a0", ""]) + trows[ri][ci] + rng.choice(["\u00a0", "\u00a0 "])
            n += 1
        tsheets = dict(sheets)
        tsheets["survey"] = (list(h), trows)
        fmt = ("xlsx", "xls")[i % 2]
        ctx.ctr("nbsp_whitespace_cases")
        compare(ctx, form, sheets, tsheets, [f"whitespace-nbsp:survey:{n}"], {}, common.feature_sig(form) + f"|nbsp|{fmt}", fmt)


def column_sweep(ctx):
    """Every catalogued column header, alone, in each case/spacing style: the random pick of t_header_case reaches rare columns too seldom."""
    form = sweep_form()
    sheets = form.to_sheets()
    _column_sweep_over(ctx, form, sheets)
    # ... and once more with both id headers on the settings sheet (form_id is the one that counts, and a warning says so, however either is spelled)
    form2 = sweep_form()
    form2.settings = dict(form2.settings, id_string="other_id")
    _column_sweep_over(ctx, form2, form2.to_sheets(), only_sheets=("settings",), tag="both-ids")
    # ... and the entities sheet: an update form (entity_id, update_if), a conditional create (create_if) and a create-or-update form (all three)
    for k, ent in enumerate(({"dataset": "trees", "entity_id": "${tid}", "update_if": "${tid} != ''", "label": "concat('t ', ${tid})"},
                             {"dataset": "trees", "create_if": "${tid} = ''", "label": "concat('t ', ${tid})"},
                             {"dataset": "trees", "entity_id": "${tid}", "create_if": "${tid} = ''", "update_if": "${tid} != ''", "label": "${tid}"})):
        fe = gen.simple_form([("text", "tid", {"label": "Tree id"}), ("text", "species", {"label": "Species", "save_to": "species"})])
        fe.entities = ent
        _column_sweep_over(ctx, fe, fe.to_sheets(), only_sheets=("entities",), tag=f"entities{k}")


def _column_sweep_over(ctx, form, sheets, only_sheets=None, tag=""):
    a = drive.convert_sheets(sheets, args=form.args)
    if not a.ok:
        ctx.ctr("sweep_form_rejected")
        ctx.obs("column sweep form rejected: " + a.brief()) if hasattr(ctx, "obs") else None
        return
    n = 0
    for key, known in (("survey", spelling.KNOWN_SURVEY), ("choices", spelling.KNOWN_CHOICES), ("settings", spelling.KNOWN_SETTINGS),
                       ("external_choices", {"list_name", "name", "label"}), ("entities", {"dataset", "list_name", "entity_id", "create_if", "update_if", "label"})):
        if (only_sheets and key not in only_sheets) or key not in sheets:
            continue
        if tag == "both-ids":
            known = {"form_id", "id_string"}
        hdrs, rows = sheets[key]
        for ci, h in enumerate(hdrs):
            if h not in known:
                continue
            for style in range(4):
                n += 1
                if not ctx.mine(n):
                    continue
                nb = [h.upper(), h.title(), "  " + h + " ", h.replace("_", " ") if h != "big-image" else h][style]
                if nb == h:
                    continue
                ts = dict(sheets)
                ts[key] = (hdrs[:ci] + [nb] + hdrs[ci + 1:], rows)
                for fmt in ("dict", "xlsx"):
                    b = drive.convert_sheets(ts, fmt=fmt, args=form.args, render_kw=_rk(fmt))
                    ctx.ctr("column_sweep_pairs")
                    ctx.ctr("pairs_compared")
                    ctx.case(sig=f"sweep{tag}|{key}|{h}|{style}|{fmt}")
                    done = [f"header-case:{key}:{h}->{nb!r}"]
                    diffs = differences(a, b, {})
                    for kind, text in diffs:
                        ctx.viol(f"{kind}:header-case:{key}", f"column sweep, T={done} ({fmt}): {text}"[:900], _wit(form, done, {}, fmt, ts))
            # every documented alias of the column, alone, also upper-cased
            table = {"survey": spelling.SURVEY_ALIASES, "choices": spelling.CHOICES_ALIASES, "settings": spelling.SETTINGS_ALIASES,
                     "external_choices": {"list_name": ["list name"], "name": ["value"], "label": ["caption"]}, "entities": {"dataset": ["list_name", "list name"]}}[key]
            for alt in table.get(h, ()):
                for variant in (alt, alt.upper() if "::" not in alt else alt.split("::")[0].upper() + "::" + alt.split("::", 1)[1]):
                    if variant != alt and ":" in alt and "::" not in alt:
                        continue
                    if variant.lower() in [str(x).lower() for x in hdrs if x is not None]:
                        continue  # the alias is already a column of this sheet: renaming would make a duplicate header, another workbook altogether  # 'jr:count' is an attribute name spelled with its prefix: its letter case is not a documented freedom
                    n += 1
                    if not ctx.mine(n):
                        continue
                    ts = dict(sheets)
                    ts[key] = (hdrs[:ci] + [variant] + hdrs[ci + 1:], rows)
                    b = drive.convert_sheets(ts, args=form.args)
                    ctx.ctr("column_sweep_pairs")
                    ctx.ctr("pairs_compared")
                    ctx.case(sig=f"sweep{tag}|{key}|{h}|alias|{variant}")
                    done = [f"header-alias:{key}:{h}->{variant}"]
                    for kind, text in differences(a, b, {}):
                        ctx.viol(f"{kind}:header-alias:{key}", f"column sweep, T={done}: {text}"[:900], _wit(form, done, {}, "dict", ts))


def run_shard(ctx):
    pl = plan(ctx.tier, ctx.seed)
    names = list(spelling.BY_NAME)
    column_sweep(ctx)
    nbsp_forms(ctx)
    for i in range(pl["n"]):
        if not ctx.mine(i):
            continue
        rng = ctx.rng("case", i)
        form = base_form(rng)
        if i % 8 == 6:
            dict_reuse_history(ctx, i, rng, form)
            continue
        sheets = form.to_sheets()
        steps = []
        text_fmt = None
        if i % 10 in (3, 8):
            from .C12 import md_representable
            if md_representable(sheets):
                text_fmt = "csv" if i % 10 == 3 else "md"
        if text_fmt:
            # the text containers too (their readers drop blank rows and trim cells themselves, so only the re-spellings that do not touch those)
            only = ["extra_sheet", "extra_sheet", "header_case", "header_alias", "sheet_case", "sheet_perm", "col_perm", "type_alias", "truth", "unknown_col"]
            tsheets, done, shift = spelling.apply(sheets, rng, n=(1, 3), only=only, steps=steps)
        elif i % 3 == 0:
            only = [names[(i // 3) % len(names)]]  # every transformation alone, round-robin
            tsheets, done, shift = spelling.apply(sheets, rng, n=(1, 1), only=only, steps=steps)
        else:
            tsheets, done, shift = spelling.apply(sheets, rng, steps=steps)
        if not done:
            ctx.ctr("no_applicable_transformation")
            continue
        fmt = text_fmt or ("xlsx" if i % 5 == 0 else ("xls" if i % 10 == 7 else "dict"))
        ctx.ctr(f"container:{fmt}")
        compare_steps(ctx, form, sheets, steps, common.feature_sig(form), fmt)
        if i < 3:
            ctx.sample({"transformations": done, "row_shift": {k: list(v) for k, v in shift.items()},
                        "original_md": common.sheets_to_md(sheets)[:800], "transformed_md": common.sheets_to_md(tsheets)[:800],
                        "observed": "canonical XForms equal; warnings equal after row shift"})


def replay(w):
    def chk(ctx, wit):
        form = common.form_from_witness(wit)
        ts = {k: (v[0], v[1]) for k, v in wit["tsheets"].items()}
        shift = {k: tuple(v) for k, v in wit.get("shift", {}).items()}
        compare(ctx, form, form.to_sheets(), ts, wit.get("transformations", []), shift, "replay", wit.get("fmt", "dict"))
    return common.replay_with(PROP, w, chk)
