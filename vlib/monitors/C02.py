"""C02 — every nodeset/ref names one existing node; ambiguous names are rejected.

Deciding oracles:
 (a) invariants.c02_closure over the parsed output of every successful conversion;
 (b) AF-side collision model: a form whose names make a path ambiguous (case-insensitively
     equal siblings, two sections with one name, a user name equal to a generated helper)
     must be rejected with PyXFormError — accepted output is then checked by (a) as well;
 (c) H-xpath: icontract post-condition on SurveyElement.get_xpath (cached value == path
     recomputed from the live parent chain), exercised by conversions and by an API-level
     re-parenting sequence.
"""
from __future__ import annotations

import os

from .. import common, drive, gen, invariants, xf
from ..model import Form, Row

PROP = "C02"
LEVEL = "exploration"
TECHNIQUE = "runtime output monitor (ref/nodeset closure + uniqueness over the parsed XForm) + icontract post-condition on get_xpath + collision reference model"
RULE = ("cases = generated forms with or_other, repeat_count helpers, table-list, entities, triggers, actions, nested to depth 5, plus "
        "name-collision forms and repo fixtures; non-trivial = conversion succeeded and at least one bind/control ref was resolved "
        "(or, for collision forms, the outcome was classified); distinct = distinct (form feature signature, workload class)")
ASSUMPTIONS = ["path resolution is by element names on the lxml tree of the primary instance",
               "flat/loop/include features are only covered via fixtures"]


def plan(tier, seed):
    n = 1400 if tier == "quick" else 22000
    return {"shards": 16, "timeout": 900 if tier == "quick" else 3000, "n": n,
            "floors": {"suite_conversions_judged": 500, "outputs_checked": n // 2, "refs_resolved": n * 5, "collision_cases": 100, "xpath_contract_evals": 1000, "distinct": 50}}


def special_form(rng, i):
    """Forms aimed at generated helper nodes."""
    cfg = common.rich_cfg(rng, p_or_other=0.5, p_select=0.45, p_repeat_count=0.9, p_repeat=0.3, p_trigger=0.3, audit=0.5, max_depth=5,
                          p_choice_filter=0.0)
    f = gen.gen_form(rng, cfg)
    k = rng.randrange(4)
    if k == 0:  # table-list group of selects
        ln = next(iter(f.choices))
        g = Row("group", "begin group", "tbl" + str(i), {"label": "Table", "appearance": "table-list"})
        g.children = [Row("q", f"select_one {ln}", f"ts{i}_{j}", {"label": f"ts {j}"}) for j in range(rng.randint(1, 3))]
        tgt = rng.choice([r for r, a in f.walk() if r.is_section()] + [None])
        (tgt.children if tgt else f.survey).append(g)
    elif k == 1:  # entities
        f.entities = {"list_name": "ent", "label": "concat('e', '1')"}
        tops = [r for r in f.survey if r.kind == "q" and (r.type or "").split(" ")[0] in ("text", "integer")]
        for r in tops[:2]:
            r.cells["save_to"] = "p_" + str(abs(hash(r.name)) % 97)
    elif k == 2:  # actions: at top level, and below groups and repeats (their ref is an absolute path like any other)
        secs_ = [r for r, a in f.walk() if r.is_section()]
        for row in (Row("q", "start-geopoint", "sg" + str(i), {}), Row("q", "background-audio", "ba" + str(i), {})):
            tgt = rng.choice(secs_ + [None, None]) if secs_ else None
            (tgt.children if tgt is not None else f.survey).append(row)
    return f


COLLISION_KINDS = ["sibling-case", "sibling-same", "section-same", "helper-count", "helper-other", "meta", "root-section",
                   "ambiguous-trigger", "ambiguous-count-helper", "ambiguous-ref"]


def collision_form(rng, i):
    kind = COLLISION_KINDS[i % len(COLLISION_KINDS)]
    f = gen.gen_form(rng, common.rich_cfg(rng, p_or_other=0, langs=[], n_rows=(3, 8)))
    secs = [r for r, a in f.walk() if r.is_section()]
    parent_rows = rng.choice(secs).children if secs and rng.random() < 0.6 else f.survey
    qs = [r for r in parent_rows if r.kind == "q" and r.type != "audit"]  # audit rows live under meta: no sibling clash
    if kind in ("sibling-case", "sibling-same"):
        if not qs:
            parent_rows.append(Row("q", "text", "abc" + str(i), {"label": "x"}))
            qs = [parent_rows[-1]]
        t = rng.choice(qs)
        nm = t.name.swapcase() if kind == "sibling-case" else t.name
        if nm == t.name and kind == "sibling-case":
            t.name = t.name + "a"
            nm = t.name.upper()
        parent_rows.append(Row("q", "text", nm, {"label": "dup"}))
    elif kind == "section-same":
        g1 = Row("group", "begin group", "sec" + str(i), {"label": "a"}, [Row("q", "text", f"i{i}a", {"label": "x"})])
        inner = Row("group", "begin group", "sec" + str(i), {"label": "b"}, [Row("q", "text", f"i{i}b", {"label": "x"})])
        holder = Row("group", "begin group", "hold" + str(i), {"label": "h"}, [inner])
        f.survey.extend([g1, holder])
    elif kind == "helper-count":
        rep = Row("repeat", "begin repeat", "rp" + str(i), {"label": "r", "repeat_count": "1 + 1"}, [Row("q", "text", f"i{i}c", {"label": "x"})])
        f.survey.append(Row("q", "text", f"rp{i}_count", {"label": "clash"}))
        f.survey.append(rep)
    elif kind == "helper-other":
        ln = next(iter(f.choices))
        f.survey.append(Row("q", f"select_one {ln} or_other", "so" + str(i), {"label": "s"}))
        f.survey.append(Row("q", "text", f"so{i}_other", {"label": "clash"}))
    elif kind == "meta":
        f.survey.append(Row("q", "text", "meta", {"label": "clash with generated meta block"}))
    elif kind in ("ambiguous-trigger", "ambiguous-count-helper", "ambiguous-ref"):
        # one name carried by N elements in different groups (no sibling clash) and something that must look it up: the path is ambiguous
        n = rng.choice([2, 3, 3, 4, 5])
        nm = f"amb{i}" if kind != "ambiguous-count-helper" else f"rp{i}_count"
        for k in range(n if kind != "ambiguous-count-helper" else n - 1):
            f.survey.insert(rng.randint(0, len(f.survey)), Row("group", "begin group", f"ag{i}_{k}", {"label": "g"}, [Row("q", "integer", nm, {"label": "x"})]))
        if kind == "ambiguous-trigger":
            f.survey.append(Row("q", "calculate", f"trg{i}", {"calculation": "1 + 1", "trigger": "${%s}" % nm}))
        elif kind == "ambiguous-ref":
            f.survey.append(Row("q", "text", f"rf{i}", {"label": "r", rng.choice(["relevant", "constraint", "default", "calculation"]): "${%s} + 1" % nm}))
        else:
            f.survey.append(Row("repeat", "begin repeat", "rp" + str(i), {"label": "r", "repeat_count": "1 + 1"}, [Row("q", "text", f"i{i}c", {"label": "x"})]))
        kind = f"{kind}-x{n}"
    elif kind == "root-section":
        f.survey.append(Row("group", "begin group", "data", {"label": "same as root"}, [Row("q", "text", f"i{i}d", {"label": "x"})]))
    return f, kind


def check_output(ctx, o, form, klass, sig):
    try:
        p = xf.Parsed(o.xform)
    except xf.XFError as e:
        ctx.ctr("unparseable_output(C01's business)")
        return
    v = invariants.c02_closure(p)
    nb = len(p.binds())
    nc = sum(1 for el in p.body.iter() if isinstance(el.tag, str) and (el.get("ref") or el.get("nodeset")) and xf.local(el.tag) not in ("label", "hint", "value", "itemset"))
    ctx.ctr("outputs_checked")
    ctx.ctr("refs_resolved", nb + nc)
    ctx.case(sig=f"{sig}|{klass}")
    for key, what in v:
        ctx.viol(f"{klass}:{key}" if klass == "collision" else key, f"[{klass}] {what}", common.witness(form, klass=klass))


def deep_forms(ctx):
    """Chains of 3..70 nested groups/repeats with, at the bottom, everything that generates helper nodes and actions: paths are as long as the nesting is deep."""
    for k, depth in enumerate([3, 12, 24, 31, 32, 33, 34, 40, 55, 70]):
        if not ctx.mine(k):
            continue
        rng = ctx.rng("deep", depth)
        bottom = [Row("q", "text", "src", {"label": "S"}), Row("q", "select_one l1 or_other", "sel", {"label": "Sel"}, meta={"or_other": True}),
                  Row("repeat", "begin repeat", "cnt_rep", {"label": "R", "repeat_count": "${src} + 1"}, [Row("q", "text", "inrep", {"label": "I", "default": "now()"})]),
                  Row("q", "calculate", "calc", {"calculation": "${src} + 1", "trigger": "${src}"}), Row("q", "start-geopoint", "sgp", {})]
        node = bottom
        for lvl in range(depth, 0, -1):
            kind = "repeat" if rng.random() < 0.2 else "group"
            node = [Row(kind, f"begin {kind}", f"lvl{lvl}", {"label": f"L{lvl}"}, node)]
        f = Form()
        f.survey = node
        f.choices = {"l1": [{"name": "a", "label": "A"}]}
        o = drive.convert_form(f)
        ctx.ctr("deep_forms")
        if not o.ok:
            ctx.ctr("rejected:deep")
            if not o.exc_is_pyxform:
                ctx.viol(f"deep-nesting:internal-exception:{o.exc_type}", f"nesting depth {depth}: {o.brief()[:200]}", common.witness(f, klass="deep"))
            continue
        check_output(ctx, o, f, "deep", f"deep|{depth}")


ROW_TYPES = ["text", "integer", "decimal", "note", "date", "select_one l1", "select_multiple l1", "rank l1", "range", "image", "audio", "geopoint", "geotrace", "barcode", "acknowledge",
             "begin group", "begin repeat"]


def control_override_forms(ctx):
    """Columns that would replace the generated ref / nodeset of a control or bind (body::ref, control::ref, body:ref, body::nodeset, bind::nodeset, bind::ref), on every kind
    of row: whatever the converter does with them (it refuses them), no control or bind may end up pointing anywhere but at its own node."""
    k = 0
    for col in ("body::ref", "control::ref", "body::nodeset", "bind::nodeset", "bind::ref", "instance::tag", "instance::nodeset", "instance::ref"):
        for val in (("/data/other", "/data/nowhere") if not col.startswith("instance") else ("household", "other")):  # instance::tag: a custom attribute called 'tag', never the node's name
            for rt in ROW_TYPES:
                k += 1
                if not ctx.mine(k):
                    continue
                f = Form()
                cells = {"label": "own", col: val}
                if rt.startswith("begin"):
                    kind = rt.split()[1]
                    own = Row(kind, rt, "own", cells, [Row("q", "text", "inner", {"label": "in"})])
                else:
                    own = Row("q", rt, "own", cells)
                f.survey = [Row("q", "text", "other", {"label": "O"}), own]
                f.choices = {"l1": [{"name": "a", "label": "A"}, {"name": "b", "label": "B"}]}
                o = drive.convert_form(f)
                ctx.ctr("control_override_cases")
                if not o.ok:
                    ctx.ctr("rejected:control-override")
                    ctx.case(sig=f"override|{col}|{rt}|rejected")
                    if not o.exc_is_pyxform:
                        ctx.viol(f"override:{col}:internal-exception:{o.exc_type}", f"{col}={val} on a {rt} row: {o.brief()[:200]}", common.witness(f, klass="override"))
                    continue
                check_output(ctx, o, f, "override", f"override|{col}|{rt}")
                try:
                    p = xf.Parsed(o.xform)
                except xf.XFError:
                    continue
                want = "/data/own"
                refs = [el.get("ref") or el.get("nodeset") for el in p.body.iter() if isinstance(el.tag, str) and (el.get("ref") or el.get("nodeset"))]
                if want not in refs:
                    ctx.viol(f"override:{col.split(':')[0]}:own-node-has-no-control", f"{col}={val} on a {rt} row: no body element points at {want} (refs: {refs[:6]})", common.witness(f, klass="override"))


def debug_logging_forms(ctx):
    """The same conversions with the library's loggers switched to DEBUG by the embedding application (logging.basicConfig(level=DEBUG)): logging is an observer."""
    import io
    import logging
    lg = logging.getLogger("pyxform")
    old_level, old_prop = lg.level, lg.propagate
    h = logging.StreamHandler(io.StringIO())
    lg.addHandler(h)
    lg.setLevel(logging.DEBUG)
    lg.propagate = False
    children = [logging.getLogger(n) for n in list(logging.root.manager.loggerDict) if n.startswith("pyxform.")]
    saved = [(c, c.level) for c in children]
    for c in children:
        c.setLevel(logging.DEBUG)
    try:
        for i in range(24 if ctx.tier == "quick" else 200):
            if not ctx.mine(i):
                continue
            rng = ctx.rng("debuglog", i)
            form = special_form(rng, i) if i % 2 else gen.gen_form(rng, common.rich_cfg(rng, max_depth=4))
            o = drive.convert_form(form)
            ctx.ctr("debug_logging_conversions")
            if o.ok:
                check_output(ctx, o, form, "debug-logging", f"debuglog|{common.feature_sig(form)}")
    finally:
        lg.removeHandler(h)
        lg.setLevel(old_level)
        lg.propagate = old_prop
        for c, lv in saved:
            c.setLevel(lv)


def run_shard(ctx):
    from ..hooks import install_xpath_contract, counters
    install_xpath_contract()
    pl = plan(ctx.tier, ctx.seed)
    deep_forms(ctx)
    control_override_forms(ctx)
    debug_logging_forms(ctx)
    for i in range(pl["n"]):
        if not ctx.mine(i):
            continue
        rng = ctx.rng("case", i)
        klass = "special" if i % 2 else "core"
        if i % 10 == 4:
            # valid XML names that are not ASCII words: decomposed/composed letters, prefixes declared by the namespaces setting;
            # the path text in binds/controls must be the very name the instance element carries
            klass = "exotic-names"
            form = gen.gen_form(rng, common.rich_cfg(rng, max_depth=4, name_style="exotic", p_trigger=0.3, p_repeat_count=0.5, p_or_other=0.3))
            form.settings["namespaces"] = gen.EXOTIC_NS
            ctx.ctr("exotic_name_forms")
        else:
            form = special_form(rng, i) if klass == "special" else gen.gen_form(rng, common.rich_cfg(rng, max_depth=5))
        o = drive.convert_form(form)
        if not o.ok:
            ctx.ctr(f"rejected:{klass}")
            if "XPathCacheStale" in (o.exc_type or ""):
                ctx.viol("xpath-cache-stale", o.exc_msg, common.witness(form, klass=klass))
            continue
        check_output(ctx, o, form, klass, common.feature_sig(form))
        if i < 2:
            ctx.sample({"class": klass, "form_md": common.sheets_to_md(form.to_sheets())[:1500],
                        "observed": "all bind nodesets / control refs / action refs resolved; siblings unique"})
    # ---- collision sub-class
    m = 420 if ctx.tier == "quick" else 5600
    for i in range(m):
        if not ctx.mine(i):
            continue
        rng = ctx.rng("collision", i)
        form, kind = collision_form(rng, i)
        o = drive.convert_form(form)
        ctx.ctr("collision_cases")
        if not o.ok:
            ctx.case(sig=f"collision|{kind}|rejected:{o.exc_type}")
            ctx.ctr("collision_rejected")
            if not o.exc_is_pyxform:
                ctx.viol(f"collision:{kind}:internal-exception:{o.exc_type}", f"ambiguous-name form raised {o.brief()}", common.witness(form, klass="collision", kind=kind))
            continue
        # accepted: statement says it must have been rejected
        ctx.case(sig=f"collision|{kind}|accepted")
        ctx.viol(f"collision:{kind}:accepted", f"form with ambiguous names ({kind}) was converted instead of rejected", common.witness(form, klass="collision", kind=kind))
    # ---- API-level re-parenting (cache invalidation, survey_element.py __setattr__)
    if ctx.shard == 0:
        reparent_sequence(ctx)
    # ---- fixtures
    for j, path in enumerate(common.fixture_files()):
        if not ctx.mine(j):
            continue
        o = drive.call_convert(path)
        if o.ok:
            try:
                p = xf.Parsed(o.xform)
            except xf.XFError:
                continue
            ctx.ctr("outputs_checked")
            ctx.case(sig=f"fixture|{os.path.basename(path)}")
            for key, what in invariants.c02_closure(p):
                ctx.viol(f"fixture:{key}", f"[{os.path.relpath(path, '/repo')}] {what}", {"fixture": path, "klass": "fixture"})
    ctx.ctr("xpath_contract_evals", counters.get("xpath", 0))
    for msg in counters.get("xpath_violations", []):
        ctx.viol("xpath-cache-stale", msg, {"klass": "hook"})


def reparent_sequence(ctx):
    """Take get_xpath() of elements, move them to another parent, take it again."""
    from pyxform.builder import create_survey_element_from_dict
    n = 0
    for i in range(60):
        rng = ctx.rng("reparent", i)
        d = {"type": "survey", "name": "data", "id_string": "x", "title": "x", "children": [
            {"type": "group", "name": "g1", "label": "g1", "children": [{"type": "text", "name": "a", "label": "a"}]},
            {"type": "repeat", "name": "r1", "label": "r1", "children": [{"type": "text", "name": "b", "label": "b"},
                                                                          {"type": "group", "name": "g2", "label": "g2", "children": [{"type": "text", "name": "c", "label": "c"}]}]},
        ]}
        s = create_survey_element_from_dict(d)
        els = list(s.iter_descendants())
        leafs = [e for e in els if not hasattr(e, "children") or e.children is None]
        secs = [e for e in els if getattr(e, "children", None) is not None and e is not s]
        for e in els:
            e.get_xpath()
        mv = rng.choice(leafs)
        dest = rng.choice([x for x in secs if x is not mv.parent] or secs)
        mv.parent.children.remove(mv)
        dest.add_child(mv)
        chain = []
        cur = mv
        while cur is not None:
            chain.append(cur.name)
            cur = cur.parent
        want = "/" + "/".join(reversed(chain))
        got = mv.get_xpath()
        n += 1
        ctx.case(sig=f"reparent|{mv.name}->{dest.name}")
        if got != want:
            ctx.viol("xpath-cache-stale:after-reparent", f"after moving {mv.name} under {dest.name}: get_xpath()={got!r}, parent chain says {want!r}", {"klass": "reparent", "move": [mv.name, dest.name]})
        try:
            x = s.to_xml(validate=False)
            p = xf.Parsed(x)
            for key, what in invariants.c02_closure(p):
                ctx.viol(f"reparent:{key}", what, {"klass": "reparent", "move": [mv.name, dest.name]})
        except Exception as e:  # noqa: BLE001
            ctx.ctr("reparent_to_xml_raised")
    ctx.ctr("reparent_moves", n)
    api_histories(ctx)
    flat_forms(ctx)


def flat_forms(ctx):
    """The legacy 'flat' setting lifts the children of every group to the top of the instance: names that were unique per group may collide there."""
    for i in range(24):
        rng = ctx.rng("flat", i)
        same = i % 2 == 0
        extq = [("select_one_external ext", f"city{i}", {"label": "C", "choice_filter": "grp = 'x'"})] if i % 3 == 0 else []
        f = gen.simple_form([("begin group", "g1", {"label": "G1"}, [("text", "q" if same else "qa", {"label": "A"})] + extq),
                             ("begin group", "g2", {"label": "G2"}, [("integer", "q" if same else "qb", {"label": "B"}), ("begin repeat", "r", {"label": "R"}, [("text", "inr", {"label": "I"})])] if i % 4 < 2 else
                              [("integer", "q" if same else "qb", {"label": "B"})])],
                            settings={"flat": rng.choice(["yes", "true", "1"])})
        if extq:
            f.external_choices = [{"list_name": "ext", "name": "a", "label": "A", "grp": "x"}]
        o = drive.convert_form(f)
        ctx.case(sig=f"flat|{same}|{i % 4 < 2}")
        ctx.ctr("flat_forms")
        if not o.ok:
            ctx.ctr("flat_rejected")
            continue
        try:
            p = xf.Parsed(o.xform)
        except xf.XFError:
            continue
        for key, what in invariants.c02_closure(p):
            ctx.viol(f"flat-setting:{key}", f"[flat=yes, same name in two groups={same}] {what}", common.witness(f, klass="flat"))
    # ... and names that only meet after being lifted through two or three levels of groups (cousins: visit1/notes1/comment and visit2/notes2/comment)
    for i in range(24):
        depth = 2 + i % 2
        same = i % 3 != 2
        mid = i % 4 < 2  # the shared name sits at the bottom / one level above the bottom

        def branch(b):
            leaf = [("text", "comment" if same else f"comment{b}", {"label": "C"}), ("text", f"own{b}", {"label": "O"})]
            node = leaf
            for d in range(depth, 0, -1):
                extra = [("integer", "comment" if (same and mid and d == depth) else f"n{b}{d}", {"label": "N"})] if d == depth and mid and not same else []
                node = [("begin group", f"v{b}_{d}", {"label": f"V{b}{d}"}, node + extra)]
            return node[0]
        f = gen.simple_form([branch(1), branch(2)], settings={"flat": ["yes", "true", "1"][i % 3]})
        o = drive.convert_form(f)
        ctx.case(sig=f"flat-deep|{depth}|{same}|{mid}")
        ctx.ctr("flat_forms")
        if not o.ok:
            ctx.ctr("flat_rejected")
            if not same and o.exc_is_pyxform:
                ctx.viol("flat-setting:valid-form-refused", f"[flat=yes, depth {depth}, all names different] {o.brief()[:200]}", common.witness(f, klass="flat"))
            continue
        try:
            p = xf.Parsed(o.xform)
        except xf.XFError:
            continue
        for key, what in invariants.c02_closure(p):
            ctx.viol(f"flat-setting:{key}", f"[flat=yes, the same name in groups {depth} levels down in two branches={same}] {what}", common.witness(f, klass="flat"))


def api_histories(ctx):
    """Builder-API histories: 'include' rows (one section pulled in several times) and render / add_child / render."""
    from pyxform.errors import PyXFormError

    from .. import apiseq
    W = lambda **kw: dict(klass="reparent", **kw)  # replayed by re-running the API sequences  # noqa: E731
    for i in range(40):
        rng = ctx.rng("include", i)
        sv, info = apiseq.include_survey(rng)
        ctx.case(sig=f"include|{info['n_includes']}|{len(info['triggers'])}")
        ctx.ctr("api_histories")
        try:
            p = xf.Parsed(sv.to_xml(validate=False, pretty_print=False))
        except Exception as e:  # noqa: BLE001
            ctx.viol(f"include:raised:{type(e).__name__}", f"a form with {info['n_includes']} include rows failed: {e}"[:300], W(main_md=info["main_md"]))
            continue
        for key, what in invariants.c02_closure(p):
            ctx.viol(f"include:{key}", what, W(main_md=info["main_md"]))
        bound = {b.get("nodeset") for b in p.binds()}
        refs = {el.get("ref") for el in p.body.iter() if isinstance(el.tag, str) and el.get("ref")}
        for n in info["included_nodes"]:
            if not p.resolve(n) or n not in bound or n not in refs:
                ctx.viol("include:included-node-without-own-bind-or-control", f"{n}: node={bool(p.resolve(n))} bind={n in bound} control={n in refs} ({info['n_includes']} inclusions of one section)",
                         W(main_md=info["main_md"]))
    for i in range(40):
        rng = ctx.rng("multistep", i)
        o = drive.call_convert({"survey": [{"type": "text", "name": "name", "label": "N"},
                                           {"type": "begin repeat", "name": "members", "label": "M"}, {"type": "begin group", "name": "contact", "label": "C"},
                                           {"type": "text", "name": "phone", "label": "P"}, {"type": "end group"}, {"type": "end repeat"}]})
        if not o.ok:
            continue
        sv = o.result._survey
        sv.to_xml(validate=False)
        contact = next(e for e in sv.iter_descendants() if e.name == "contact")
        target = rng.choice([sv, contact, contact.parent])
        # (1) a legitimate addition after a render
        target.add_child(apiseq.question({"type": "text", "name": f"extra{i}", "label": "E"}))
        ctx.case(sig=f"multistep|{target.name}")
        ctx.ctr("api_histories")
        try:
            p = xf.Parsed(sv.to_xml(validate=False))
            for key, what in invariants.c02_closure(p):
                ctx.viol(f"multistep:{key}", what, W(step="add legit child after render"))
            path = "/" + "/".join(reversed([e.name for e in [target] + [a for a, _ in target.iter_ancestors()]])) + f"/extra{i}"
            if not p.resolve(path) or path not in {b.get("nodeset") for b in p.binds()}:
                ctx.viol("multistep:added-child-not-bound-at-its-place", f"{path} missing from instance or binds after add_child + re-render", W(step="add legit child after render"))
        except PyXFormError as e:
            ctx.viol("multistep:legit-addition-refused", str(e)[:200], W(step="add legit child after render"))
        # (2) a duplicate sibling added after a render must be refused by the next render
        dup_name = rng.choice(["phone", "Phone", "PHONE"])
        contact.add_child(apiseq.question({"type": "text", "name": dup_name, "label": "dup"}))
        try:
            x = sv.to_xml(validate=False)
            ctx.viol("multistep:duplicate-sibling-accepted-after-first-render", f"a second '{dup_name}' next to 'phone' added after the first render was converted; duplicate siblings in output: "
                     f"{[k for k, _ in invariants.c02_closure(xf.Parsed(x))][:3]}", W(step="add duplicate sibling after render"))
        except PyXFormError:
            ctx.ctr("multistep_duplicate_refused")


def replay(w):
    def chk(ctx, wit):
        if wit.get("klass") == "fixture":
            o = drive.call_convert(wit["fixture"])
        elif wit.get("klass") in ("reparent", "hook"):
            class C(common.ReplayCtx):
                shard = 0
            reparent_sequence(ctx)
            return
        else:
            form = common.form_from_witness(wit)
            o = drive.convert_form(form)
        print("  outcome:", o.brief())
        if wit.get("klass") == "collision":
            if o.ok:
                ctx.viol(f"collision:{wit.get('kind')}:accepted", "ambiguous form accepted")
            return
        if o.ok:
            for key, what in invariants.c02_closure(xf.Parsed(o.xform)):
                ctx.viol(key, what)
    return common.replay_with(PROP, w, chk)
