"""C06 — user text is data, never markup.

Deciding oracles:
 (i)  recovery: for every text-bearing cell (labels, hints, guidance, constraint/required
      messages, choice labels, extra choice columns, static defaults, title, version,
      appearance, custom bind::/instance::/body::/attribute:: values) the text an XML
      parser recovers from the corresponding place equals the cell after the documented
      normalisations only (strip; runs of U+0020 collapsed on the survey sheet; smart ->
      straight quotes; the single pad space the writer adds around mixed content; XML
      attribute-value normalisation), with each ${ref} mapped to its <output>;
 (ii) structural differential: skeleton(form) == skeleton(form with every hostile text
      replaced by a bland token of the same reference shape), skeleton = element names +
      attribute names + nesting;
 (iii) H-outval: post-condition on Survey.insert_output_values — when it rewrites a text,
      the result parses as an XML fragment whose text segments are exactly the literal
      segments of the input.
"""
from __future__ import annotations

import re

from .. import common, drive, gen, hostile, refmodel, xf
from ..model import Row
from ..refmodel import MEDIA, REF_RE, base_type, default_language, split_header, texts

PROP = "C06"
LEVEL = "exploration"
TECHNIQUE = "runtime reference-model monitor (text recovery per channel) + structural differential (hostile vs bland text) + post-condition hook on insert_output_values"
RULE = ("cases = generated forms whose text-bearing cells are drawn from a hostile alphabet (XML metacharacters, entity/CDATA/comment "
        "fragments, quotes, braces, astral/RTL/combining Unicode, NBSP, smart quotes, doubled/outer spaces) x channels x {no ref, one, "
        "several} x {one language, several}; non-trivial = converted and >=1 hostile cell recovered and compared; distinct = distinct "
        "(channel set, form feature signature)")
ASSUMPTIONS = ["control characters forbidden by XML 1.0 are judged under C01's hostile class", "fragments that are legitimately an instance() expression "
               "or a dynamic default are excluded from the channels where they change meaning", "dict container (no escaping layer of its own); xlsx in a share of cases"]


def plan(tier, seed):
    n = 1800 if tier == "quick" else 26000
    return {"shards": 16, "timeout": 900 if tier == "quick" else 3600, "n": n,
            "floors": {"cells_recovered": n * 8, "skeletons_compared": n // 2, "outval_hook_evals": 200, "distinct": 100, "instance_word_forms": 80}}


def no_instance(fr):
    return "instance(" not in fr


def static_safe(fr):
    return not any(c in fr for c in "-+*|()[]") and "instance" not in fr and "$" not in fr


def hz(rng, tag, allow=no_instance, ws=True):
    return hostile.hostile(rng, tag, allow=allow, ws=ws and rng.random() < 0.4)


def make_form(rng, i):
    # (languages called like fields the library keeps on every element - study arms 'control' / 'treatment', a language 'type' - are languages like any other)
    langs = rng.choice([[], [], ["English (en)", "French (fr)"], ["en"], ["control", "treatment"], ["bind", "parent"], ["type", "name"], ["extra_data", "label"]])
    cfg = common.rich_cfg(rng, langs=langs, hostile_text=False, p_hint=0.6, p_guidance=0.3, p_constraint=0.5, p_constraint_msg=0.9, p_required=0.4,
                          p_required_msg=0.8, p_label_ref=0, p_choice_extra=0.7, p_default=0, p_choice_media=0, p_media=0, p_or_other=0,
                          p_search=0, p_trigger=0, p_bind_extra=0, p_instance_extra=0, p_body_extra=0, p_appearance=0, p_msg_ref=0, delim="::")
    f = gen.gen_form(rng, cfg)
    rows = [(r, a) for r, a in f.walk()]
    targets = [r for r, a in rows if r.kind == "q" and r.type != "audit"]
    k = [0]

    def refs(n):
        out = []
        for _ in range(n):
            if targets:
                out.append("${%s}" % rng.choice(targets).name)
        return out

    def hostile_with_refs(tag):
        nref = rng.choice([0, 0, 1, 1, 2, 3])
        parts = [hz(rng, tag)]
        for r_ in refs(nref):
            pos = rng.choice(["end", "start", "mid"])
            if pos == "end":
                parts.append(r_)
            elif pos == "start":
                parts.insert(0, r_)
            else:
                parts.append(r_)
            parts.append(hz(rng, "t", ws=False)) if rng.random() < 0.7 else None
        parts = [x for x in parts if x]
        sep = rng.choice([" ", " ", ""])
        return sep.join(parts) if sep else " ".join(parts[:1]) + "".join(parts[1:])

    for r, a in rows:
        for h in list(r.cells):
            b, lg = split_header(h)
            if b in ("label", "hint", "guidance_hint", "constraint_message", "required_message"):
                r.cells[h] = hostile_with_refs(f"{b[:3]}.{r.name}.{lg or 'x'}")
                if rng.random() < 0.12:
                    # a line break inside the cell (spreadsheets, quoted CSV fields and dict input carry them)
                    r.cells[h] = r.cells[h] + rng.choice(["\n", "\n\n", " \n"]) + "second.line"
        if r.kind == "q" and rm_visible(r):
            bt = base_type(r)
            if rng.random() < 0.3 and bt in ("text", "note", "integer", "select_one", "date"):
                r.cells["appearance"] = hz(rng, "app", allow=lambda fr: no_instance(fr) and "(" not in fr)
            if rng.random() < 0.3 and bt in ("text", "hidden", "note"):
                r.cells["default"] = hz(rng, "dflt", allow=static_safe)
            if bt == "image" and rng.random() < 0.6:
                # static default of an image question = a file name: written as jr://images/<name>, the name itself untouched
                r.cells["default"] = hz(rng, "imgdflt", allow=static_safe, ws=False)
            if rng.random() < 0.25 and bt not in gen.HIDDEN_TYPES + gen.META_TYPES:
                m = rng.choice(["image", "audio", "video"])
                r.cells[m if not langs or rng.random() < 0.5 else f"{m}::{rng.choice(langs)}"] = hz(rng, f"{m}file", ws=False)
            if rng.random() < 0.2:
                r.cells["bind::odk:custom"] = hz(rng, "bindattr")
            if rng.random() < 0.15:
                r.cells["bind::mynote"] = rng.choice(["Yes", "no", "true", "FALSE", "yes please", hz(rng, "plainattr")])
            if rng.random() < 0.1:
                # attribute names that coincide with keyword names inside pyxform's own node builder
                r.cells[rng.choice(["bind::tag", "bind::toParseString", "body::toParseString"])] = hz(rng, "kwattr")
            if rng.random() < 0.05:
                r.cells["instance::tag"] = hz(rng, "kwinst")
            if rng.random() < 0.2:
                r.cells["instance::extra"] = hz(rng, "instattr")
            if rng.random() < 0.2:
                r.cells["body::kb:flag"] = hz(rng, "bodyattr")
    for ln, lst in f.choices.items():
        for c in lst:
            for h in list(c):
                b, lg = split_header(h)
                if b == "label":
                    c[h] = hz(rng, f"cl.{ln}.{c['name']}.{lg or 'x'}") + (" " + refs(1)[0] + " z" if rng.random() < 0.15 and targets and top_level(f, targets) else "")
                elif b not in ("name",) + MEDIA:
                    c[h] = hz(rng, f"cx.{ln}.{c['name']}")
    for ln, lst in f.choices.items():
        if len(lst) >= 2 and rng.random() < 0.2:
            # a choice with a name but nothing to show (pyxform only warns): the choices after it still show their own texts
            c = lst[rng.randrange(len(lst) - 1)]
            for h in [h for h in c if split_header(h)[0] in ("label",) + MEDIA]:
                del c[h]
            f.meta["unlabeled_choice"] = True
    f.settings["form_title"] = hz(rng, "title")
    f.settings["form_id"] = "f" + str(i)
    if rng.random() < 0.5:
        f.settings["version"] = hz(rng, "ver", ws=False)
    f.settings["namespaces"] = 'kb="http://kobotoolbox.org/xforms"'
    if rng.random() < 0.4:
        f.settings["attribute::custom"] = hz(rng, "rootattr")
    return f


def top_level(f, targets):
    return True


def rm_visible(r):
    return base_type(r) not in gen.HIDDEN_TYPES + gen.META_TYPES or base_type(r) == "hidden"


# ----------------------------------------------------------------------------- expectation helpers
SMART = hostile.SMART


def container_norm(s, fmt):
    """What the container layer does to a text cell before pyxform's sheet logic sees it."""
    if fmt in ("xlsx", "csv", "xls"):
        s = s.strip().replace("\u00a0", " ")
    return s


def norm_survey(s, fmt="dict"):
    s = container_norm(s, fmt)
    for a, b in SMART.items():
        s = s.replace(a, b)
    return re.sub(r"( )+", " ", s.strip())


def norm_choice(s, fmt):
    s = container_norm(s, fmt)
    for a, b in SMART.items():
        s = s.replace(a, b)
    return s


def norm_settings(s, fmt):
    return norm_choice(s, fmt)


def unsmart(s):
    for a, b in SMART.items():
        s = s.replace(a, b)
    return s


def attr_norm(s):
    return s.replace("\t", " ").replace("\n", " ").replace("\r", " ")


PH = "\ufffc"  # placeholder standing for one reference


def expected_with_ph(s):
    return REF_RE.sub(PH, s)


def observed_with_ph(segs):
    """segments -> string with outputs as PH; removes the writer's single pad spaces of mixed content."""
    if not any(k == "o" for k, _ in segs):
        return "".join(v for k, v in segs if k == "t"), [k for k, _ in segs if k == "e"]
    parts = [(k, v) for k, v in segs]
    s = "".join(v if k == "t" else (PH if k == "o" else "<" + v + ">") for k, v in parts)
    if parts[0][0] == "t" and s.startswith(" "):
        s = s[1:]
    if s.endswith(" "):
        s = s[:-1]
    return s, [v for k, v in parts if k == "e"]


def expected_mixed(s):
    """What the text looks like after substitution: each ${x} -> ' PH '? No: pyxform replaces the token in place,
    the output element carries the spaces inside its value attribute, so surrounding text is untouched."""
    return expected_with_ph(s)


# ----------------------------------------------------------------------------- skeleton
def skeleton(text):
    p = xf.Parsed(text, check_skeleton=False)

    def rec(el):
        kids = [rec(c) for c in el if isinstance(c.tag, str)]
        return (el.tag, tuple(sorted(el.attrib)), tuple(kids))
    return rec(p.root)


def skel_diff(a, b, path=""):
    if a[0] != b[0]:
        return f"{path}: element {xf.local(a[0])} vs {xf.local(b[0])}"
    here = f"{path}/{xf.local(a[0])}"
    if a[1] != b[1]:
        return f"{here}: attribute names {[xf.local(x) for x in a[1]]} vs {[xf.local(x) for x in b[1]]}"
    if len(a[2]) != len(b[2]):
        return f"{here}: {len(a[2])} vs {len(b[2])} child elements ({[xf.local(c[0]) for c in a[2]][:8]} vs {[xf.local(c[0]) for c in b[2]][:8]})"
    for x, y in zip(a[2], b[2]):
        d = skel_diff(x, y, here)
        if d:
            return d
    return None


TEXT_BASES = ("label", "hint", "guidance_hint", "constraint_message", "required_message")


def blandify(form):
    g = form.clone()
    n = [0]

    def bland(s):
        n[0] += 1
        refs = ["${%s%s}" % (m.group(1) or "", m.group(2)) for m in REF_RE.finditer(s)]
        return f"txt{n[0]}" + "".join(f" {r} t" for r in refs)

    for r, _ in g.walk():
        for h in list(r.cells):
            b, lg = split_header(h)
            if b in TEXT_BASES or b in ("appearance", "default", "image", "audio", "video") or h.startswith(("bind::odk:custom", "bind::mynote", "instance::extra", "body::kb:flag")):
                r.cells[h] = bland(r.cells[h])
    for ln, lst in g.choices.items():
        for c in lst:
            for h in list(c):
                b, lg = split_header(h)
                if b != "name" and b not in MEDIA:
                    c[h] = bland(c[h])
    for k in ("form_title", "version", "attribute::custom"):
        if k in g.settings:
            g.settings[k] = bland(g.settings[k])
    return g


# ----------------------------------------------------------------------------- check
def check(ctx, form, sig, fmt="dict", sample=False):
    rkw = {"raw": True} if fmt == "dict" else None
    o = drive.convert_form(form, fmt=fmt, render_kw=rkw)
    if not o.ok:
        ctx.ctr("rejected")
        if not o.exc_is_pyxform:
            ctx.ctr("internal_exception_seen(C17's business)")
        elif "not allowed in XML" in (o.exc_msg or ""):
            # every character of the hostile alphabet is one that XML 1.0 allows in text: the author's text is data that must be carried
            ctx.case(sig=f"{sig}|{fmt}|refused")
            ctx.viol("text:refused-although-xml-allows-every-character", f"{o.brief()[:260]}", common.witness(form, fmt=fmt))
        return
    try:
        p = xf.Parsed(o.xform)
    except xf.XFError as e:
        ctx.viol("output-not-wellformed:" + e.kind, f"hostile text broke the document: {e}", common.witness(form, fmt=fmt))
        return
    ctx.case(sig=f"{sig}|{fmt}")
    rm = refmodel.RM(form)
    wit = lambda **kw: common.witness(form, fmt=fmt, **kw)  # noqa: E731
    # reading the survey (its JSON dump, an equality test) is no edit: the document rendered afterwards still carries every text
    sv_ = getattr(getattr(o, "result", None), "_survey", None)
    if sv_ is not None and fmt == "dict":
        try:
            sv_.to_json_dict()
            _same = sv_ == sv_  # noqa: PLR0124 - exercises __eq__, which dumps both sides
            again = sv_.to_xml(validate=False, pretty_print=False)
            ctx.ctr("rendered_again_after_dump")
            if again != o.xform:
                ctx.viol("text:lost-after-json-dump-of-the-survey", "to_json_dict() and == on the survey, then to_xml(): the document differs from the one convert() returned: "
                         + "; ".join(__import__("vlib.xdiff", fromlist=["diffs"]).diffs(o.xform, again)[:2])[:500], wit())
        except Exception as e:  # noqa: BLE001
            ctx.viol("text:dump-then-render-raised", f"{type(e).__name__}: {e}"[:300], wit())
    D = default_language(form)
    trs, _ = p.itext()
    table = {t[0]: t[2] for t in trs}

    def itext_segs(tid, lang, form_=None):
        vals = table.get(lang, {}).get(tid)
        if vals is None:
            return None
        for f_, segs in vals:
            if f_ == form_:
                return segs
        return None

    def cmp_text(channel, where, cell, segs, sheet="survey"):
        ctx.ctr("cells_recovered")
        exp = norm_survey(cell, fmt) if sheet == "survey" else norm_choice(cell, fmt)
        exp = expected_with_ph(exp)
        got, els = observed_with_ph(segs)
        got = unsmart(got)
        if els:
            ctx.viol(f"{channel}:markup-injected", f"{where}: cell {cell!r} produced child element(s) {els}", wit(channel=channel))
            return
        if got != exp:
            ctx.viol(f"{channel}:text-changed", f"{where}: recovered {got!r}, written {cell!r} (expected after documented normalisation {exp!r})", wit(channel=channel))

    def cmp_attr(channel, where, cell, got, sheet="survey"):
        ctx.ctr("cells_recovered")
        exp = norm_survey(cell, fmt) if sheet == "survey" else norm_settings(cell, fmt)
        exp = attr_norm(exp)
        if "${" in exp:
            return
        got = unsmart(got) if got is not None else got
        if got != exp:
            ctx.viol(f"{channel}:attr-value-changed", f"{where}: recovered {got!r}, written {cell!r} (expected {exp!r})", wit(channel=channel))

    ctl = {}
    for el in p.body.iter():
        if isinstance(el.tag, str) and el.get("ref") and xf.local(el.tag) not in ("label", "hint", "value", "setvalue", "setgeopoint"):
            ctl.setdefault(el.get("ref"), el)
    binds = {b.get("nodeset"): b for b in p.binds()}
    for e in rm.entries:
        r = e.row
        if r is None:
            continue
        visible = r.is_section() or rm.has_control(r)
        c = ctl.get(e.path)
        for base, tagname, idsuf, form_ in (("label", "label", "label", None), ("hint", "hint", "hint", None), ("guidance_hint", "hint", "hint", "guidance")):
            for lg, cell in texts(r.cells, base).items():
                if not visible or c is None:
                    continue
                el = c.find(xf.q(xf.XF, tagname))
                if el is None:
                    if r.kind == "group" and base != "label":
                        continue
                    ctx.viol(f"{base}:not-present", f"{e.path}: no <{tagname}> for cell {cell!r}", wit(channel=base))
                    continue
                tid = xf.itext_id(el.get("ref") or "")
                if tid:
                    lang = lg if lg is not None else D
                    segs = itext_segs(tid, lang, form_)
                    if segs is None:
                        ctx.viol(f"{base}:itext-entry-missing", f"{e.path} {base} language {lang!r}: no itext value", wit(channel=base))
                        continue
                    if lg is None and D in texts(r.cells, base):
                        continue  # overridden by the suffixed default-language cell
                    cmp_text(base, f"{e.path} {base}[{lang}]", cell, segs)
                elif form_ is None:
                    cmp_text(base, f"{e.path} {base}", cell, xf.content_segments(el))
        for m in ("image", "audio", "video"):
            for lg, cell in texts(r.cells, m).items():
                if not visible or c is None:
                    continue
                lang = lg if lg is not None else D
                if lg is None and D in texts(r.cells, m):
                    continue
                segs = itext_segs(f"{e.path}:label", lang, m)
                if segs is None:
                    ctx.viol(f"media:itext-entry-missing", f"{e.path} {m} language {lang!r}: no itext value with form={m}", wit(channel="media"))
                    continue
                ctx.ctr("cells_recovered")
                got, els = observed_with_ph(segs)
                pre = "jr://images/" if m == "image" else f"jr://{m}/"
                exp = pre + norm_survey(cell, fmt)
                if els:
                    ctx.viol("media:markup-injected", f"{e.path} {m}[{lang}]: file name {cell!r} produced child element(s) {els}", wit(channel="media"))
                elif unsmart(got) != exp:
                    ctx.viol("media:text-changed", f"{e.path} {m}[{lang}]: recovered {got!r}, expected {exp!r}", wit(channel="media"))
        b = binds.get(e.path)
        for base, attr, idsuf in (("constraint_message", "constraintMsg", "jr:constraintMsg"), ("required_message", "requiredMsg", "jr:requiredMsg")):
            for lg, cell in texts(r.cells, base).items():
                if b is None:
                    continue
                v = b.get(xf.q(xf.JR, attr))
                if v is None:
                    ctx.viol(f"{base}:not-present", f"{e.path}: bind has no jr:{attr} for cell {cell!r}", wit(channel=base))
                    continue
                tid = xf.itext_id(v)
                if tid:
                    lang = lg if lg is not None else D
                    if lg is None and D in texts(r.cells, base):
                        continue
                    segs = itext_segs(tid, lang)
                    if segs is None:
                        ctx.viol(f"{base}:itext-entry-missing", f"{e.path} {base} language {lang!r}: no itext value", wit(channel=base))
                        continue
                    cmp_text(base, f"{e.path} {base}[{lang}]", cell, segs)
                else:
                    cmp_attr(base, f"{e.path} @jr:{attr}", cell, v)
        if r.kind == "q":
            if "appearance" in r.cells and c is not None:
                cmp_attr("appearance", f"{e.path} @appearance", r.cells["appearance"], c.get("appearance"))
            if "default" in r.cells and base_type(r) in ("text", "hidden", "note", "image"):
                nodes = p.resolve(e.path)
                for nnode in nodes:
                    ctx.ctr("cells_recovered")
                    exp = norm_survey(r.cells["default"], fmt)
                    if base_type(r) == "image":
                        ctx.ctr("image_defaults_recovered")
                        if "jr://images/" not in exp:
                            exp = "jr://images/" + exp
                    got = unsmart(nnode.text or "")
                    if len(nnode):
                        ctx.viol("default:markup-injected", f"{e.path}: default {r.cells['default']!r} produced child elements", wit(channel="default"))
                    elif got != exp:
                        ctx.viol("default:text-changed", f"{e.path}: instance node text {got!r}, written {r.cells['default']!r}", wit(channel="default"))
            for h, attrname, holder in (("bind::odk:custom", "odk:custom", b), ("bind::mynote", "mynote", b), ("body::kb:flag", "kb:flag", c), ("bind::tag", "tag", b),
                                        ("bind::toParseString", "toParseString", b), ("body::toParseString", "toParseString", c)):
                if h in r.cells and holder is not None:
                    cmp_attr(h.split("::")[0] + "-attr", f"{e.path} @{attrname}", r.cells[h], p.attr_dict(holder).get(attrname))
            for ih in ("extra", "tag"):
                if f"instance::{ih}" in r.cells:
                    for nnode in p.resolve(e.path)[:1]:
                        cmp_attr("instance-attr", f"{e.path} @{ih}", r.cells[f"instance::{ih}"], nnode.get(ih))
    # choices
    for inst in p.secondary:
        ln = inst.get("id")
        rows = form.choices.get(ln)
        root = inst.find(xf.q(xf.XF, "root"))
        if rows is None or root is None:
            continue
        items = root.findall(xf.q(xf.XF, "item"))
        for idx, (cdef, it) in enumerate(zip(rows, items)):
            for h, cell in cdef.items():
                bse, lg = split_header(h)
                if bse == "name" or bse in MEDIA:
                    continue
                if bse == "label":
                    tid_el = it.find(xf.q(xf.XF, "itextId"))
                    if tid_el is not None:
                        lang = lg if lg is not None else D
                        if lg is None and any(split_header(x) == ("label", D) for x in cdef):
                            continue
                        segs = itext_segs(tid_el.text or "", lang)
                        if segs is None:
                            ctx.viol("choice-label:itext-entry-missing", f"choice {ln}[{idx}] language {lang!r}", wit(channel="choice-label"))
                        else:
                            cmp_text("choice-label", f"choice {ln}[{idx}] label[{lang}]", cell, segs, sheet="choices")
                    else:
                        lab = it.find(xf.q(xf.XF, "label"))
                        if lab is not None:
                            cmp_text("choice-label", f"choice {ln}[{idx}] label", cell, xf.content_segments(lab), sheet="choices")
                else:
                    chs = [x for x in it if isinstance(x.tag, str) and xf.local(x.tag) == h]
                    if not chs:
                        ctx.viol("choice-extra:not-present", f"choice {ln}[{idx}] column {h!r} missing from item", wit(channel="choice-extra"))
                    else:
                        cmp_text("choice-extra", f"choice {ln}[{idx}] {h}", cell, xf.content_segments(chs[0]), sheet="choices")
    # settings channels
    if "form_title" in form.settings:
        cmp_text("title", "h:title", form.settings["form_title"], xf.content_segments(p.title), sheet="settings")
    if "version" in form.settings:
        cmp_attr("version", "@version", form.settings["version"], p.primary.get("version"), sheet="settings")
    if "attribute::custom" in form.settings:
        cmp_attr("root-attr", "@custom", form.settings["attribute::custom"], p.primary.get("custom"), sheet="settings")
    # (ii) structural differential
    ob = drive.convert_form(blandify(form), fmt=fmt, render_kw=rkw)
    if ob.ok:
        ctx.ctr("skeletons_compared")
        try:
            d = skel_diff(skeleton(o.xform), skeleton(ob.xform))
        except xf.XFError as e:
            d = f"unparseable: {e}"
        if d:
            ctx.viol("skeleton-differs:" + re.sub(r"\[.*", "", d.split(":")[0].rsplit("/", 1)[-1]), f"hostile text changed the element/attribute structure: {d}", wit(channel="skeleton"))
    else:
        ctx.ctr("bland_twin_rejected")
    if sample:
        ctx.sample({"form_md": common.sheets_to_md(form.to_sheets())[:1600], "observed": "every hostile cell recovered verbatim; skeleton equal to bland twin"})


def repeated_text_forms(ctx):
    """The same author text in several cells (and in several conversions of one process) must come out the same every time:
    whatever is memoised about a text may not be changed by using it."""
    import re as _re
    for i in range(24):
        if not ctx.mine(i):
            continue
        rng = ctx.rng("repeated", i)
        frag = rng.choice(["<b> & \"q\"", "]]> x", "<!-- c -->", "&amp; &lt;", "</label>", "\U0001F600 \u05e9\u05dc\u05d5\u05dd", "a < b > c"])
        n_expr = rng.choice([1, 2, 2, 3])
        exprs = [f"instance('l1')/root/item[name = 'a{k}']/label" for k in range(n_expr)]
        text = f"{frag} " + f" mid{i} {frag} ".join(exprs) + f" tail {frag}"
        rows = [("select_one l1", "s", {"label": "S"})] + [("note", f"n{k}", {"label": text}) for k in range(3)] + [("text", "t", {"label": "T", "hint": text})]
        f = gen.simple_form(rows, choices={"l1": [{"name": f"a{k}", "label": f"A{k}"} for k in range(3)]})
        first = None
        for rnd in range(3):
            o = drive.convert_form(f)
            ctx.ctr("repeated_text_conversions")
            ctx.case(sig=f"repeated|{n_expr}|{rnd}")
            if not o.ok:
                if rnd == 0:
                    break
                ctx.viol("repeated-text:later-conversion-fails", f"conversion #{rnd + 1} of the same form in one process failed: {o.brief()}", common.witness(f, klass="repeated"))
                break
            try:
                p = xf.Parsed(o.xform)
            except xf.XFError as e:
                ctx.viol("repeated-text:output-not-wellformed", f"conversion #{rnd + 1}: {e}", common.witness(f, klass="repeated"))
                break
            rendered = []
            for el in p.body.iter():
                if isinstance(el.tag, str) and xf.local(el.tag) in ("label", "hint") and el.getparent() is not None and (el.getparent().get("ref") or "").startswith(("/data/n", "/data/t")):
                    if xf.local(el.tag) == "label" and el.getparent().get("ref") == "/data/t":
                        continue
                    rendered.append(xf.content_segments(el))
            if first is None:
                first = rendered[0] if rendered else None
            for k, sg in enumerate(rendered):
                ctx.ctr("cells_recovered")
                if sg != first:
                    ctx.viol("repeated-text:same-text-rendered-differently", f"conversion #{rnd + 1}, occurrence #{k + 1} of one and the same cell text is rendered as {sg!r}, the first occurrence as {first!r}",
                             common.witness(f, klass="repeated"))
                    break


def instance_word_forms(ctx):
    """Natural-language text around (and instead of) instance() expressions in labels and hints: an expression written in the text is shown as one output
    with exactly the expression as its value; the words next to it ('and', 'or', 'mod', 'div', a comma) and text that merely contains the word
    ("instance(s)", "instance(", "instance('c')" with no path) stay text."""
    E1 = "instance('l1')/root/item[name = 'a1']/label"
    E2 = "instance('l1')/root/item[2]/label"
    cases = []
    for w in ("and", "or", "mod", "div", ",", "and then", "or else x", "-", "/ per"):
        cases.append((f"see {E1} {w} more text", [("t", "see"), ("o", E1), ("t", f"{w} more text")]))
        cases.append((f"{E1} {w} {E2} end", [("o", E1), ("t", w), ("o", E2), ("t", "end")]))
    for t in ("How many instance(s) of it?", "call instance( now", "instance('l1') alone", "an instance ( spaced", "instances(2)", "myinstance('x')/root"):
        cases.append((t, [("t", t)]))
    cases.append((f"x instance(s) then {E1}", [("t", "x instance(s) then"), ("o", E1)]))
    cases.append((f"{E1} instance(s)", [("o", E1), ("t", "instance(s)")]))
    norm = lambda segs: [(k, " ".join(v.split()) if k == "t" else v) for k, v in segs if not (k == "t" and not v.strip())]  # noqa: E731
    for i, (text, want) in enumerate(cases):
        if not ctx.mine(i):
            continue
        for col in ("label", "hint"):
            cells = {"label": "N", col: text}
            f = gen.simple_form([("select_one l1", "s", {"label": "S"}), ("note", "n", cells)], choices={"l1": [{"name": f"a{k}", "label": f"A{k}"} for k in range(3)]})
            for pretty in (False, True):
                o = drive.convert_form(f, pretty=pretty)
                ctx.ctr("instance_word_forms")
                ctx.case(sig=f"instance-word|{i}|{col}|{pretty}")
                wit = common.witness(f, klass="instance-word", pretty=pretty)
                if not o.ok:
                    ctx.viol(f"instance-word:{col}:refused", f"{text!r}: {o.brief()[:200]}", wit)
                    continue
                try:
                    p = xf.Parsed(o.xform)
                except xf.XFError as e:
                    ctx.viol(f"instance-word:{col}:output-not-wellformed", f"{text!r}: {e}", wit)
                    continue
                got = None
                for el in p.body.iter():
                    if isinstance(el.tag, str) and xf.local(el.tag) == col and el.getparent() is not None and el.getparent().get("ref") == "/data/n":
                        got = norm(xf.content_segments(el))
                ctx.ctr("cells_recovered")
                if got != norm(want):
                    kind = "text-became-part-of-an-expression" if sum(1 for k, _ in got or [] if k == "o") <= sum(1 for k, _ in want if k == "o") and got != norm(want) and any(k == "o" for k, _ in got or []) else "segments"
                    if not any(k == "o" for k, _ in want):
                        kind = "plain-text-became-an-output"
                    ctx.viol(f"instance-word:{col}:{kind}", f"{col} {text!r} is shown as {got!r}, expected {norm(want)!r}", wit)


def loop_text_forms(ctx):
    """Looped questions (begin loop over <list>): every copy shows its own choice's label, per language, hostile characters intact."""
    from .. import looptext
    rng = ctx.rng("looptext")
    frags = ["<b>", "&amp;", "]]>", "a < b", '"q"', "\u00e9\u05d0", "&", "</label>", "{x}", "#"]
    for k, (sheets, exp, sig) in enumerate(looptext.cases(rng, lambda: rng.choice(frags))):
        if not ctx.mine(k):
            continue
        o, viols = looptext.judge(sheets, exp)
        ctx.ctr("loop_text_forms")
        ctx.ctr("loop_text_cells", len(exp))
        ctx.case(sig=sig)
        for key, msg in viols[:4]:
            ctx.viol(key, msg, {"klass": "loop-text", "sheets_md": common.sheets_to_md(sheets)[:2500], "sheets": {n: [list(h), r] for n, (h, r) in sheets.items()}})



def locale_children(ctx):
    """Author text in many scripts, converted and written to a file by a child process under the C locale: the document is UTF-8 whatever the locale."""
    from .. import localechild
    md = ("| survey |\n| | type | name | label | hint | constraint | constraint_message |\n"
          "| | text | q1 | \u00c2ge \u2014 \u5e74\u9f62 \U0001F600 | \u041e\u0448\u0438\u0431\u043a\u0430 | . != 'z' | \u0645\u0631\u062d\u0628\u0627 \u00e9 |\n"
          "| | select_one l1 | s1 | W\u00e4hle | | | |\n| choices |\n| | list_name | name | label | r\u00e9gion |\n| | l1 | a | \u00c4 \u05d0 | \u00eele |\n"
          "| settings |\n| | form_title |\n| | T\u00edtulo \u00fcn\u00ef |\n")
    localechild.judge(ctx, md, "texts", "locale")


def run_shard(ctx):
    loop_text_forms(ctx)
    instance_word_forms(ctx)
    if ctx.shard == 0:
        locale_children(ctx)
    from ..hooks import counters, install_outval_hook
    install_outval_hook()
    pl = plan(ctx.tier, ctx.seed)
    for i in range(pl["n"]):
        if not ctx.mine(i):
            continue
        rng = ctx.rng("case", i)
        form = make_form(rng, i)
        fmt = {0: "xlsx", 3: "csv", 5: "xls"}.get(i % 6, "dict")
        check(ctx, form, common.feature_sig(form), fmt=fmt, sample=(i < 2))
    repeated_text_forms(ctx)
    ctx.ctr("outval_hook_evals", counters.get("outval", 0))
    ctx.ctr("outval_hook_rewrites", counters.get("outval_changed", 0))
    for msg in counters.get("outval_violations", []):
        ctx.viol("hook:insert_output_values-changed-literal-text", msg, {"klass": "hook"})


def replay(w):
    def chk(ctx, wit):
        if wit.get("klass") == "locale":
            locale_children(ctx)
            return
        if wit.get("klass") == "loop-text":
            loop_text_forms(ctx)  # the family is small and deterministic: run it whole
            return
        if wit.get("klass") == "instance-word":
            instance_word_forms(ctx)
            return
        if wit.get("klass") in ("hook", "repeated"):
            print("hook / repeated-text witness: re-run ./check C06")
            return
        check(ctx, common.form_from_witness(wit), "replay", fmt=wit.get("fmt", "dict"))
    return common.replay_with(PROP, w, chk)
