"""C15 — pretty_print is purely cosmetic.

Deciding oracle: invariants.c15_same_document: both outputs parsed; trees compared with
whitespace-only text *between elements* dropped and every other text, attribute and
namespace binding identical.  Workload: forms whose labels/hints/itext values have the
shapes text, text+output, output+text, output only, output output, several adjacent
outputs followed by text, text with leading/trailing/inner spaces, multi-line text with
blank lines, empty elements; hostile text; the W-core generator; repo fixtures.
"""
from __future__ import annotations

import zlib

import os

from .. import render, common, drive, gen, hostile, invariants
from ..model import Form, Row

PROP = "C15"
LEVEL = "exploration"
TECHNIQUE = "runtime output relation monitor: compact vs pretty XForm compared as trees modulo inter-element whitespace"
RULE = ("cases = (form, pretty_print=False) vs (same form, pretty_print=True); forms from a mixed-content shape catalogue x channels "
        "(label, hint, guidance, constraint message, choice label, default, title), hostile text, W-core, fixtures; non-trivial = both "
        "conversions succeeded and both parsed; distinct = distinct (shape tuple | form feature signature)")
ASSUMPTIONS = ["dict and xlsx containers are used so that newlines/tabs/outer spaces can reach the converter"]

SHAPES = [
    "plain text", "${a} tail", "head ${a}", "${a}", "${a} ${b}", "${a}${b}", "${a}${b} tail", "${a}${b}${c} is the full name",
    "head ${a}${b}", "x ${a} y ${b} z", "  lead", "trail  ", "in  ner", "para1\n\npara2", "line1\nline2", "l1\n \nl3", "tab\there",
    "${a}\n\n${b}", "a\n\n${a}", "\nx", "x\n", " ", "-", "a < b ${a} & c", "<b>${a}</b>", "instance('l1')/root/item[name = ${a}]/label z",
    "${a} instance('l1')/root/item[name = ${b}]/label", "x ]]> y", "&amp; ${a}",
    # separators that are whitespace for Python's str.strip() but NOT XML whitespace: they are data
    "${a}\u3000${b}", "${a}\u00a0${b}", "${a}\u2003${b} x", "x\u3000${a}\u3000", "${a}\u00a0", "\u3000${a}", "${a}\u2028${b}", "${a}\u0085${b}", "\u00a0",
]


def plan(tier, seed):
    n = 1200 if tier == "quick" else 20000
    return {"shards": 16, "timeout": 900 if tier == "quick" else 3000, "n": n,
            "floors": {"suite_conversions_judged": 500, "pairs_compared": n * 4 // 5, "distinct": 60, "mixed_content_pairs": 200, "typed_dict_pairs": n // 20}}


def shape_form(rng, i):
    shapes = [rng.choice(SHAPES) for _ in range(6)]
    f = Form()
    f.survey = [
        Row("q", "text", "a", {"label": "A"}), Row("q", "text", "b", {"label": "B"}), Row("q", "text", "c", {"label": "C"}),
        Row("q", "text", "q1", {"label": shapes[0], "hint": shapes[1]}),
        Row("q", "integer", "q2", {"label::en": shapes[2], "label::fr": "fr " + shapes[3], "hint::en": shapes[3], "guidance_hint::en": shapes[4],
                                   "constraint": ". > 0", "constraint_message::en": shapes[5]}),
        Row("q", "select_one l1", "q3", {"label": "S", "constraint": ". != 'x'", "constraint_message": shapes[1]}),
        Row("q", "text", "q4", {"label": "D", "default": rng.choice(["plain", "two\n\nparas", "  sp  ", "a\nb", "x < y"])}),
        Row("repeat", "begin repeat", "r1", {"label": shapes[4] if "${" not in shapes[4] else "R"}, [
            Row("q", "text", "q5", {"label": shapes[5].replace("${c}", "${q5x}"), "hint": shapes[0]}),
            Row("q", "text", "q5x", {"label": "in"}),
        ]),
        Row("q", "note", "q6", {"label": shapes[2], "image": "a.png"}),
        Row("q", "text", "q_off", {"label": "switched off", "disabled": "yes"}), Row("q", "text", "q_on", {"label": "not off", "disabled": "no"}),
        # media file names built from an answer: mixed text-and-output content inside <value form="image|audio|video|big-image">
        Row("q", "note", "q7", {"label": "M", rng.choice(["image", "audio", "video"]): rng.choice(["pic_${a}.png", "${a}.mp3", "clips/${b}_${c}.mp4", "x ${a}"]),
                                "big-image::en" if False else "image::fr": "fr_${a}.png"}),
    ]
    f.choices = {"l1": [{"name": "x", "label::en": shapes[0] if "instance(" not in shapes[0] else "X", "label::fr": "F"},
                        {"name": "y", "label::en": shapes[3] if "instance(" not in shapes[3] else "Y", "label::fr": shapes[2] if "instance(" not in shapes[2] else "G"}]}
    # settings texts that are awkward for anything a layout might add around the document (comments, processing instructions, CDATA)
    f.settings = {"form_title": rng.choice(["T", " T  x ", "a\n\nb", "t < & >", "A -- B", "Baseline --- household roster", "Round 2 ---- DRAFT", "x --> y", "<!-- t -->", "a ]]> b", "<?t?>", "-"]),
                  "form_id": rng.choice(["f", "f", "roster---v2", "a--b", "f-", "-->"])}
    if rng.random() < 0.5:
        f.settings["version"] = rng.choice(["1", "v--1", "2---3", "2024-01-01", "--", "?>"])
    return f, shapes


def typed_dict_pair(rng):
    """A dict workbook as an API caller may build it: some cells are JSON numbers/booleans, not strings."""
    # only the cells that accept non-string values today: choice names, extra choice columns, form_title
    num = lambda: rng.choice([1, 2, 7, 10, 2.5, 0, -3, 1e3, True])
    choices = [{"list_name": "l1", "name": rng.choice([1, 2, "a"]) if k == 0 else k + 10, "label": f"L{k}", "weight": num(), "code": rng.choice(["c", 5, 0.25])} for k in range(3)]
    survey = [{"type": "select_one l1", "name": "q1", "label": "Pick"},
              {"type": "integer", "name": "q2", "label": "N", "constraint": ". > 0", "constraint_message": "m"},
              {"type": "text", "name": "q3", "label": "T ${q2}", "hint": "h"},
              {"type": "select_one l1", "name": "q4", "label": "Again", "choice_filter": "weight > 1"}]
    settings = [{"form_id": "f", "form_title": rng.choice(["T", 2024, 1.5])}]
    return {"survey": survey, "choices": choices, "settings": settings}


def compare_typed(ctx, rng, i):
    import copy
    wb = typed_dict_pair(rng)
    a = drive.call_convert(copy.deepcopy(wb), pretty_print=False)
    b = drive.call_convert(copy.deepcopy(wb), pretty_print=True)
    if not (a.ok and b.ok):
        ctx.ctr("rejected:typed-dict")
        if a.ok != b.ok:
            ctx.viol("outcome-differs", f"[typed-dict] compact: {a.brief()} / pretty: {b.brief()}", {"workbook": wb, "klass": "typed-dict"})
        return
    ctx.ctr("pairs_compared")
    ctx.ctr("typed_dict_pairs")
    ctx.case(sig=f"typed-dict|{i}")
    for key, what in invariants.c15_same_document(a.xform, b.xform):
        ctx.viol(key, f"[typed-dict] {what}", {"workbook": wb, "klass": "typed-dict"})


def compare(ctx, form, klass, sig, fmt="dict", detail=None):
    rk = {"raw": True} if fmt == "dict" else None  # raw: the dict renderer must not normalise NBSP & co. away
    if fmt == "dict" and zlib.crc32(sig.encode()) % 3 == 0:
        # one workbook dict, both layouts asked for in turn (what a caller comparing the layouts does), in either order
        wb_ = render.render(form.to_sheets(), "dict", raw=True)
        first_pretty = zlib.crc32(sig.encode()) % 2 == 0
        x_ = drive.call_convert(wb_, pretty_print=first_pretty, **form.args)
        y_ = drive.call_convert(wb_, pretty_print=not first_pretty, **form.args)
        a, b = (y_, x_) if first_pretty else (x_, y_)
        ctx.ctr("same_workbook_object_pairs")
    else:
        a = drive.convert_form(form, fmt=fmt, pretty=False, render_kw=rk)
        b = drive.convert_form(form, fmt=fmt, pretty=True, render_kw=rk)
    if not (a.ok and b.ok):
        ctx.ctr(f"rejected:{klass}")
        if a.ok != b.ok:
            ctx.viol("outcome-differs", f"[{klass}] compact: {a.brief()} / pretty: {b.brief()}", common.witness(form, klass=klass, fmt=fmt))
        return
    v = invariants.c15_same_document(a.xform, b.xform)
    ctx.ctr("pairs_compared")
    if "<output" in a.xform:
        ctx.ctr("mixed_content_pairs")
    ctx.case(sig=f"{klass}|{sig}")
    for key, what in v:
        ctx.viol(key, f"[{klass}] {what}", common.witness(form, klass=klass, fmt=fmt, detail=detail))


def deep_form(depth, rng):
    """Groups and repeats nested `depth` deep with a question (and a default text) at the bottom and one at every level."""
    node = Row("q", "text", "bottom", {"label": "deep ${top}", "default": "x & y"})
    for k in range(depth, 0, -1):
        kind = "repeat" if rng.random() < 0.3 else "group"
        node = Row(kind, f"begin {kind}", f"lv{k}", {"label": f"L{k}"}, [Row("q", "integer", f"q{k}", {"label": f"Q{k}"}), node])
    f = Form()
    f.survey = [Row("q", "text", "top", {"label": "T"}), node]
    return f


def thread_pass(ctx):
    """The two layouts of one form produced at the same time in two threads (a service answering two requests): each equals the one produced alone."""
    import sys
    import threading
    rounds = 6 if ctx.tier == "quick" else 40
    rng = ctx.rng("threads")
    form = gen.gen_form(rng, common.rich_cfg(rng, n_rows=(60, 90), p_label_ref=0.3, p_hint=0.5))
    sheets = form.to_sheets()
    alone = {pp: drive.convert_sheets(sheets, pretty=pp, args=form.args) for pp in (False, True)}
    if not (alone[False].ok and alone[True].ok):
        ctx.ctr("thread_form_rejected")
        return
    old = sys.getswitchinterval()
    sys.setswitchinterval(1e-5)
    try:
        for rnd in range(rounds):
            res = {}
            bar = threading.Barrier(2)

            def work(pp):
                try:
                    bar.wait(timeout=30)
                except threading.BrokenBarrierError:
                    pass
                res[pp] = drive.convert_sheets(sheets, pretty=pp, args=form.args)
            ts = [threading.Thread(target=work, args=(pp,)) for pp in (False, True)]
            for t_ in ts:
                t_.start()
            for t_ in ts:
                t_.join(120)
            ctx.ctr("concurrent_layout_pairs")
            ctx.case(sig=f"threads|{rnd}")
            for pp in (False, True):
                o = res.get(pp)
                if o is None or not o.ok or o.xform != alone[pp].xform:
                    ctx.viol("threads:layout-produced-concurrently-differs", f"round {rnd}: the {'pretty' if pp else 'compact'} document produced while the other layout was being produced in another thread "
                             f"{'failed: ' + o.brief()[:120] if (o is not None and not o.ok) else 'differs from the one produced alone'}", common.witness(form, klass="threads"))
                    return
    finally:
        sys.setswitchinterval(old)


def run_shard(ctx):
    pl = plan(ctx.tier, ctx.seed)
    thread_pass(ctx)
    for k, depth in enumerate([1, 5, 12, 20, 26, 27, 28, 31, 32, 33, 40, 64]):
        if ctx.mine(k):
            compare(ctx, deep_form(depth, ctx.rng("deep", depth)), "deep-nesting", f"depth{depth}")
    # namespace declarations written as attribute columns: one prefix bound to different URIs on different rows, a local re-binding of a prefix the
    # root declares (from the namespaces setting), declarations on binds / controls / instance nodes: each prefixed attribute keeps its own namespace
    kk = 100
    for cols in (("bind", "bind"), ("instance", "instance"), ("body", "body"), ("bind", "instance"), ("instance", "body")):
        for root_decl in (False, True):
            for nest in (False, True):
                kk += 1
                if not ctx.mine(kk):
                    continue
                from ..model import Row
                q1 = Row("q", "text", "a1", {"label": "A", f"{cols[0]}::xmlns:ex": "http://example.org/v1", f"{cols[0]}::ex:unit": "kg"})
                q2 = Row("q", "text", "b2", {"label": "B", f"{cols[1]}::xmlns:ex": "http://example.org/v2", f"{cols[1]}::ex:unit": "lb"})
                q3 = Row("q", "text", "c3", {"label": "C"})
                if root_decl:
                    q3.cells["bind::ex:unit"] = "none"
                f = gen.simple_form([])
                f.survey = [Row("group", "begin group", "g", {"label": "G"}, [q1, q2]), q3] if nest else [q1, q2, q3]
                if root_decl:
                    f.settings["namespaces"] = 'ex="http://example.org/v0"'
                compare(ctx, f, "namespace-columns", f"ns-cols|{cols}|{root_decl}|{nest}")
                ctx.ctr("namespace_column_forms")
    for i in range(pl["n"]):
        if not ctx.mine(i):
            continue
        rng = ctx.rng("case", i)
        k = i % 3
        if i % 10 == 9:
            compare_typed(ctx, rng, i)
            continue
        if k == 0:
            form, shapes = shape_form(rng, i)
            fmt = "xlsx" if (i // 3) % 4 == 0 else "dict"
            compare(ctx, form, "shapes", "|".join(shapes), fmt=fmt, detail=shapes)
            if i < 6:
                ctx.sample({"class": "shapes", "shapes": shapes, "observed": "compact and pretty trees equal modulo inter-element whitespace"})
        elif k == 1:
            form = gen.gen_form(rng, common.rich_cfg(rng, hostile_text=True, p_label_ref=0.5, p_hint=0.6, p_guidance=0.3,
                                                     p_constraint=0.4, p_constraint_msg=0.9, p_choice_label_ref=0.3))
            compare(ctx, form, "hostile", common.feature_sig(form))
        else:
            form = gen.gen_form(rng, common.rich_cfg(rng, p_label_ref=0.5))
            compare(ctx, form, "core", common.feature_sig(form))
    for j, path in enumerate(common.fixture_files()):
        if not ctx.mine(j):
            continue
        a = drive.call_convert(path, pretty_print=False)
        b = drive.call_convert(path, pretty_print=True)
        if a.ok and b.ok:
            ctx.ctr("pairs_compared")
            ctx.case(sig=f"fixture|{os.path.basename(path)}")
            for key, what in invariants.c15_same_document(a.xform, b.xform):
                ctx.viol(f"fixture:{key}", f"[{os.path.relpath(path, '/repo')}] {what}", {"fixture": path, "klass": "fixture"})


def replay(w):
    def chk(ctx, wit):
        if wit.get("klass") == "typed-dict":
            import copy
            a = drive.call_convert(copy.deepcopy(wit["workbook"]), pretty_print=False)
            b = drive.call_convert(copy.deepcopy(wit["workbook"]), pretty_print=True)
        elif wit.get("klass") == "fixture":
            a = drive.call_convert(wit["fixture"], pretty_print=False)
            b = drive.call_convert(wit["fixture"], pretty_print=True)
        else:
            form = common.form_from_witness(wit)
            rk = {"raw": True} if wit.get("fmt", "dict") == "dict" else None
            a = drive.convert_form(form, fmt=wit.get("fmt", "dict"), pretty=False, render_kw=rk)
            b = drive.convert_form(form, fmt=wit.get("fmt", "dict"), pretty=True, render_kw=rk)
        print("  compact:", a.brief(), "| pretty:", b.brief())
        if a.ok and b.ok:
            for key, what in invariants.c15_same_document(a.xform, b.xform):
                ctx.viol(key, what)
    return common.replay_with(PROP, w, chk)
