"""C11 — settings reach the form header verbatim.

Deciding oracle: reference table setting -> observable, with documented defaults
(title <- form_id <- file stem <- 'data'; root name <- settings 'name' <- form_name
argument <- 'data').  Every value is a unique marker so a swapped setting names itself;
absent settings must leave no trace (no submission element, no body class, no version,
no odk:prefix/delimiter, no custom attributes or namespaces).
"""
from __future__ import annotations

import re

import itertools

from .. import common, drive, gen, hostile, render, xf
from ..model import Form, Row

PROP = "C11"
LEVEL = "exploration"
TECHNIQUE = "runtime reference-model monitor: setting->observable table with unique marker values over subsets of settings columns x input channel x arguments"
RULE = ("cases = (subset of 14 settings columns with marker or hostile values, alias spelling, channel in {dict, dict+fallback name, md/xlsx "
        "path with stem, bytes}, form_name/default_language arguments); thorough enumerates all 2^14 subsets; non-trivial = converted and "
        "every observable compared; distinct = distinct (subset, channel, argument mode)")
ASSUMPTIONS = ["sms_* settings have no XForm observable and are not modelled", "documented precedence: form_id beats id_string (with a warning)"]

SETTINGS = ["form_title", "form_id", "version", "name", "instance_name", "submission_url", "public_key", "auto_send", "auto_delete", "style",
            "namespaces", "attribute", "instance_xmlns", "compact"]
ALIASES = {"form_title": ["title", "set_form_title", "Form Title", "FORM_TITLE"], "form_id": ["id_string", "set_form_id", "Form_ID"],
           "version": ["Version"], "style": ["Style"], "submission_url": ["Submission URL"], "public_key": ["Public Key"]}


def plan(tier, seed):
    n = 1400 if tier == "quick" else (1 << 14)
    return {"shards": 16, "timeout": 900 if tier == "quick" else 3600, "n": n, "exhaustive": tier == "thorough",
            "floors": {"forms_compared": n // 2, "observables_compared": n * 10, "distinct": 300}}


_AWKWARD = [None]  # "md" / "csv": values that are awkward for that text container (set per case by run_shard)


def value_for(rng, key, i, hostile_mode):
    if _AWKWARD[0] == "md" and key in ("form_title", "style", "instance_name", "version"):
        # pipes inside markdown cells (the renderer writes them escaped, as markdown tables require)
        return {"form_title": f"Intake | Follow-up {i}", "style": f"pages|theme-{i}", "instance_name": f"concat(${{q1}}, ' | {i}')", "version": f"v|{i}"}[key]
    if _AWKWARD[0] == "csv" and key in ("form_title", "style", "version"):
        # a line break or a Unicode line separator inside a quoted CSV cell
        return {"form_title": f"Household survey\n2024 round {i}", "style": f"pages \u2028theme-{i}", "version": f"v\u0085{i}"}[key]
    if hostile_mode and key in ("form_title", "version", "style", "submission_url", "public_key"):
        return hostile.hostile(rng, f"{key}{i}", allow=lambda fr: "instance(" not in fr)
    return {
        "form_title": f"Title marker {i}", "form_id": f"fid_marker_{i}", "version": f"ver.marker.{i}" if i % 3 else str(2024010100 + i * 1000003 % 899999999), "name": f"rootname{i}",
        "instance_name": f"concat('iname{i}', ${{q1}})", "submission_url": f"https://submit.example/{i}?a=1&b=2", "public_key": f"PUBKEY{i}==",
        "auto_send": ["true", "false"][i % 2], "auto_delete": ["false", "true"][i % 2], "style": f"pages theme-{i}",
        "instance_xmlns": f"http://example.org/xmlns/{i}",
    }[key]


def build(rng, mask, i, hostile_mode=False, use_alias=False):
    f = Form()
    f.survey = [Row("q", "text", "q1", {"label": "Q1"}), Row("q", "integer", "q2", {"label": "Q2"})]
    exp = {}
    s = {}
    for b, key in enumerate(SETTINGS):
        if not (mask >> b) & 1:
            continue
        if key == "namespaces":
            s["namespaces"] = f'nsa="http://nsa.example/{i}" nsb="http://nsb.example/{i}"'
            exp["namespaces"] = {"nsa": f"http://nsa.example/{i}", "nsb": f"http://nsb.example/{i}"}
            if i % 6 == 2:  # a namespace URI may contain '=' (query string)
                s["namespaces"] += f' nsq="http://nsq.example/ns?v={i}&x=y"'
                exp["namespaces"]["nsq"] = f"http://nsq.example/ns?v={i}&x=y"
        elif key == "attribute":
            s["attribute::plainattr"] = f"pa_marker_{i}"
            exp["attributes"] = {"plainattr": f"pa_marker_{i}"}
            if (mask >> SETTINGS.index("namespaces")) & 1:
                s["attribute::nsa:pref"] = f"pb_marker_{i}"
                exp["attributes"]["nsa:pref"] = f"pb_marker_{i}"
            if i % 4 == 1:  # custom attributes named like built-in ones must not displace the real settings
                s["attribute::id"] = f"attr_id_marker_{i}"
                s["attribute::version"] = f"attr_version_marker_{i}"
                exp["attr_version"] = s["attribute::version"]
        elif key == "compact":
            s["prefix"] = f"J{i}!"
            s["delimiter"] = "#"
            exp["prefix"], exp["delimiter"] = s["prefix"], "#"
        else:
            v = value_for(rng, key, i, hostile_mode)
            hdr = key
            if use_alias and key in ALIASES and rng.random() < 0.6:
                hdr = rng.choice(ALIASES[key])
            s[hdr] = v
            exp[key] = v
    if i % 11 == 0 and "public_key" not in exp:
        s["omit_instanceID"] = rng.choice(["yes", "true", "TRUE"])
        exp["omit_instanceID"] = True
    if i % 13 == 0:
        s["instance_id"] = "uid"
    if i % 10 == 6:
        # the legacy way of giving title / id: rows on the survey sheet whose type is the setting's name
        for key, typ in (("form_title", rng.choice(["form_title", "set_form_title"])), ("form_id", rng.choice(["form_id", "set_form_id"]))):
            if key in s and key in exp and rng.random() < 0.7:
                f.survey.insert(rng.randint(0, len(f.survey)), Row("q", typ, s.pop(key), {}))
                exp["legacy_rows"] = True
    if i % 9 in (4, 7) and "form_id" in s:
        # both spellings of the id, in either column order: form_id is the one that counts (pyxform warns), whatever the order
        other = f"idstring_marker_{i}"
        s = dict([("id_string", other)] + list(s.items())) if i % 9 == 4 else dict(list(s.items()) + [("id_string", other)])
        exp["both_ids"] = True
        if i % 18 == 4:
            # ... unless the form_id cell is empty: then the id that was written (id_string) is the id
            s["form_id"] = None
            exp["form_id"] = other
    f.settings = s
    if i % 5 == 3:
        # an entity declaration adds its own namespace to whatever the namespaces setting declares - it must not displace any of them
        f.entities = {"list_name": f"ents{i}", "label": "concat('a', 'b')"}
        exp["namespaces"] = dict(exp.get("namespaces", {}), entities="http://www.opendatakit.org/xforms/entities")
        exp["entity"] = True
    return f, exp


CHANNELS = ["dict", "dict+fallback", "md-path", "xlsx-path", "md-str", "xlsx-bytes", "md-oddpath", "xlsx-oddpath", "xls-bytes", "csv-str", "csv-compact"]
ODD_SUFFIXES = [".MD", ".XLSX", ".xlsform", ".txt", "", ".Xlsx", ".md.bak"]


def convert_odd_path(sheets, fmt, stem, suffix, args):
    import os
    import tempfile
    data = render.render(sheets, fmt)
    raw = data.encode("utf-8") if isinstance(data, str) else data
    d = tempfile.mkdtemp(prefix="verif_c11_")
    path = os.path.join(d, stem + suffix)
    try:
        with open(path, "wb") as fh:
            fh.write(raw)
        return drive.call_convert(path, **args), os.path.splitext(os.path.basename(path))[0]
    finally:
        try:
            os.unlink(path)
            os.rmdir(d)
        except OSError:
            pass


def run_case(ctx, rng, mask, i, channel, argmode, hostile_mode, use_alias):
    form, exp = build(rng, mask, i, hostile_mode, use_alias)
    args = {}
    if argmode == 1:
        args["form_name"] = f"argname{i}"
    sheets = form.to_sheets()
    if not form.settings:
        sheets.pop("settings", None)
    if channel.startswith(("xlsx", "xls")) and "settings" in sheets:
        # a version (or another all-digit setting) that the spreadsheet stores as a number: read back as the same digits
        h, rows = sheets["settings"]
        sheets["settings"] = (h, [[int(c) if isinstance(c, str) and c.isdigit() and not c.startswith("0") and len(c) < 16 else c for c in r] for r in rows])
    if channel.startswith(("xlsx", "xls")) and "settings" in sheets and i % 3 == 1:
        # a column without a header on the settings sheet (column A left blank, a spacer, unheaded remarks): every setting stays under its own header
        h, rows = sheets["settings"]
        at = rng.randint(0, len(h) - 1)
        k = rng.choice([1, 1, 2])
        sheets["settings"] = (h[:at] + [None] * k + h[at:], [r[:at] + [rng.choice([None, "remark"])] * k + r[at:] for r in rows])
    stem = f"stem_{i}"
    fallback = None
    if channel == "dict":
        o = drive.call_convert(render.to_dict(sheets, raw=True), **args)
    elif channel == "dict+fallback":
        fallback = stem
        o = drive.call_convert(render.to_dict(sheets, raw=True, fallback_form_name=stem), **args)
    elif channel in ("md-path", "xlsx-path"):
        fallback = stem
        a2 = dict(args)
        a2["_stem"] = stem
        o = drive.convert_sheets(sheets, fmt=channel.split("-")[0], channel="path", args=a2)
    elif channel in ("md-oddpath", "xlsx-oddpath"):
        o, fallback = convert_odd_path(sheets, channel.split("-")[0], stem, ODD_SUFFIXES[(i // len(CHANNELS)) % len(ODD_SUFFIXES)], args)
    elif channel == "md-str":
        o = drive.convert_sheets(sheets, fmt="md", channel="str", args=args)
    elif channel == "csv-str":
        o = drive.convert_sheets(sheets, fmt="csv", channel="str", args=args)
    elif channel == "csv-compact":
        # the sheet name in the first cell of the header row (no row of its own)
        o = drive.convert_sheets(sheets, fmt="csv", channel="str", args=args, render_kw={"compact": True if i % 2 else {"settings", "entities"}})
    elif channel == "xls-bytes":
        o = drive.convert_sheets(sheets, fmt="xls", channel="bytes", args=args)
    else:
        o = drive.convert_sheets(sheets, fmt="xlsx", channel="bytes", args=args)
    wit = lambda **kw: common.witness(form, channel=channel, args=args, mask=mask, i=i, argmode=argmode, hostile_mode=hostile_mode, use_alias=use_alias, **kw)  # noqa: E731
    sig = f"{mask}|{channel}|{argmode}|{int(hostile_mode)}|{int(use_alias)}"
    if not o.ok:
        ctx.ctr("rejected")
        if not o.exc_is_pyxform:
            ctx.viol(f"internal-exception:{o.exc_type}", o.brief(), wit())
        elif not hostile_mode:
            # every settings row built here is valid by construction (markers, well-formed URIs, declared prefixes): a refusal means that some
            # setting - or a combination of two - did not make it into the header, which is what the property is about
            ctx.case(sig=sig + "|refused")
            ctx.viol("valid-settings-refused:" + "-".join(re.sub(r"'[^']*'", "X", o.exc_msg or "").split()[:6]), f"settings {sorted(k for k in form.settings)} (entity sheet: {bool(form.entities)}): {o.brief()[:260]}", wit())
        return
    try:
        p = xf.Parsed(o.xform)
    except xf.XFError as e:
        ctx.viol("unparseable:" + e.kind, str(e), wit())
        return
    ctx.case(sig=sig)
    ctx.ctr("forms_compared")
    fmt_strip = channel.startswith(("md", "xlsx", "xls", "csv"))

    def norm(v):
        if not isinstance(v, str):
            return v
        for a, b in hostile.SMART.items():
            v = v.replace(a, b)
        if fmt_strip:
            v = v.strip().replace("\u00a0", " ") if channel.startswith(("xlsx", "xls")) else v.strip()
        return v

    def cmp(name, got, want):
        ctx.ctr("observables_compared")
        g = got
        if isinstance(g, str):
            for a, b in hostile.SMART.items():
                g = g.replace(a, b)
        if g != want:
            leak = ""
            if isinstance(g, str) and "marker" in g:
                leak = " (value of another setting)"
            ctx.viol(f"{name}:{'absent-expected' if want is None else ('missing' if g is None else 'wrong-value')}",
                     f"{name}: observed {got!r}, expected {want!r}{leak}", wit(observable=name))

    want_id = norm(exp.get("form_id")) if "form_id" in exp else (fallback or "data")
    want_title = norm(exp.get("form_title")) if "form_title" in exp else want_id
    want_root = norm(exp.get("name")) if "name" in exp else (args.get("form_name") or "data")
    got_title = "".join(p.title.itertext())
    if exp.get("legacy_rows") and "form_title" not in exp and got_title == (fallback or "data"):
        # the id came from a legacy survey-sheet row; whether an absent title then defaults to that id or to the file name is not documented: either is accepted
        ctx.ctr("legacy_row_title_fallback_to_file_name")
    else:
        cmp("title", got_title, want_title)
    cmp("id", p.primary.get("id"), want_id)
    cmp("root-name", xf.local(p.primary.tag), want_root)
    cmp("version", p.primary.get("version"), norm(exp.get("version")) if "version" in exp else exp.get("attr_version"))
    cmp("instance-xmlns", xf.nsof(p.primary.tag), norm(exp.get("instance_xmlns")) or xf.XF)
    cmp("odk:prefix", p.primary.get(xf.q(xf.ODK, "prefix")), exp.get("prefix"))
    cmp("odk:delimiter", p.primary.get(xf.q(xf.ODK, "delimiter")), exp.get("delimiter"))
    cmp("body-class", p.body.get("class"), norm(exp.get("style")))
    subs = p.submission()
    any_sub = any(k in exp for k in ("submission_url", "public_key", "auto_send", "auto_delete"))
    cmp("submission-count", len(subs), 1 if any_sub else 0)
    if subs:
        s = subs[0]
        cmp("submission-action", s.get("action"), norm(exp.get("submission_url")))
        cmp("submission-method", s.get("method"), "post" if "submission_url" in exp else None)
        cmp("submission-key", s.get("base64RsaPublicKey"), norm(exp.get("public_key")))
        cmp("submission-auto-send", s.get(xf.q(xf.ORX, "auto-send")), exp.get("auto_send"))
        cmp("submission-auto-delete", s.get(xf.q(xf.ORX, "auto-delete")), exp.get("auto_delete"))
        extra = set(s.attrib) - {"action", "method", "base64RsaPublicKey", xf.q(xf.ORX, "auto-send"), xf.q(xf.ORX, "auto-delete")}
        cmp("submission-extra-attrs", sorted(extra), [])
    # namespaces on the html root
    std = {"h", "ev", "xsd", "jr", "orx", "odk", None}
    custom = {k: v for k, v in p.root.nsmap.items() if k not in std}
    cmp("namespaces", custom, exp.get("namespaces", {}))
    # custom attributes on the primary root
    known = {"id", "version", xf.q(xf.ODK, "prefix"), xf.q(xf.ODK, "delimiter")}
    got_attrs = {}
    for k, v in p.primary.attrib.items():
        if k in known:
            continue
        if k.startswith("{"):
            uri, loc = k[1:].split("}")
            pfx = next((pp for pp, uu in p.primary.nsmap.items() if uu == uri and pp), "?")
            got_attrs[f"{pfx}:{loc}"] = v
        else:
            got_attrs[k] = v
    cmp("custom-attributes", got_attrs, exp.get("attributes", {}))
    # meta
    meta = p.resolve(f"/{want_root}/meta")
    names = [xf.local(c.tag) for c in meta[0]] if meta else []
    want_meta = ([] if exp.get("omit_instanceID") else ["instanceID"]) + (["instanceName"] if "instance_name" in exp else []) + (["entity"] if exp.get("entity") else [])
    cmp("meta-children", names, want_meta)
    binds = {b.get("nodeset"): b for b in p.binds()}
    if "instance_name" in exp:
        b = binds.get(f"/{want_root}/meta/instanceName")
        cmp("instanceName-calculate", b.get("calculate") if b is not None else None, exp["instance_name"].replace("${q1}", f" /{want_root}/q1 "))
    if not exp.get("omit_instanceID"):
        b = binds.get(f"/{want_root}/meta/instanceID")
        cmp("instanceID-preload", b.get(xf.q(xf.JR, "preload")) if b is not None else None, "uid")
    # the two questions still bound under the (possibly renamed) root
    cmp("question-bind", f"/{want_root}/q1" in binds, True)
    return o



def locale_children(ctx):
    """Settings full of non-ASCII text, converted (and written to a file) in a child process under the C locale."""
    from .. import localechild
    for k, (title, fid, ver) in enumerate([("Enqu\u00eate m\u00e9nages \u2013 \u00e9t\u00e9", "enqu\u00eate_1", "v\u00e92"), ("\u8abf\u67fb\u7968", "form_\u8abf", "\u0662\u0660\u0662\u0664"), ("\U0001F600 title", "fid", "1")]):
        md = ("| survey |\n| | type | name | label |\n| | text | q1 | Q1 |\n| settings |\n| | form_title | form_id | version | instance_name | submission_url | style |\n"
              f"| | {title} | {fid} | {ver} | concat('\u00e9', ${{q1}}) | https://example.org/\u00fc | th\u00e8me |\n")
        localechild.judge(ctx, md, f"settings-{k}", "locale")


class _Locked:
    """The worker context behind a lock, for monitors that judge from several threads."""

    def __init__(self, ctx):
        import threading
        self._ctx, self._lock = ctx, threading.RLock()

    def __getattr__(self, name):
        v = getattr(self._ctx, name)
        if not callable(v):
            return v

        def call(*a, **kw):
            with self._lock:
                return v(*a, **kw)
        return call


def thread_pass(ctx, shard=None):
    """Forms with different settings converted at the same time in threads of one process: every result is judged exactly like a conversion
    alone (title, id, version, root, submission ... are those of the form it was asked for, and the document is well formed)."""
    import sys
    import threading
    rounds = 3 if ctx.tier == "quick" else 24
    shard = ctx.shard if shard is None else shard
    lctx = _Locked(ctx)
    old = sys.getswitchinterval()
    sys.setswitchinterval(1e-5)
    try:
        for rnd in range(rounds):
            bar = threading.Barrier(4)

            def work(k):
                i = 50000 + (shard * 100 + rnd) * 4 + k
                rng = ctx.rng("case", i)
                try:
                    bar.wait(timeout=30)
                except threading.BrokenBarrierError:
                    pass
                try:
                    run_case(lctx, rng, rng.getrandbits(len(SETTINGS)), i, "dict", 0, False, False)
                except Exception as e:  # noqa: BLE001
                    lctx.viol("threads:judging-a-concurrent-result-failed", f"{type(e).__name__}: {str(e)[:200]} (the result of a conversion beside others could not even be read)", {"klass": "threads"})
            ts = [threading.Thread(target=work, args=(k,)) for k in range(4)]
            for t_ in ts:
                t_.start()
            for t_ in ts:
                t_.join(180)
            ctx.ctr("concurrent_conversion_rounds")
    finally:
        sys.setswitchinterval(old)


def same_content_other_name(ctx):
    """One workbook saved under several file names (copies of a template) and converted one after the other in one process: each conversion takes
    its fallback id and title from its own file name; a setting given on the sheet wins every time."""
    import os
    import tempfile
    from .. import xf
    k = 0
    for fmt in ("xlsx", "xls", "md", "csv"):
        for given in ((), ("form_id",), ("form_title",), ("form_id", "form_title")):
            for route in ("convert", "xls2xform_convert"):
                k += 1
                if not ctx.mine(k):
                    continue
                f = gen.simple_form([("text", "q1", {"label": "Q"})])
                for g in given:
                    f.settings[g] = f"given_{g}"
                if not given:
                    f.settings["version"] = "7"
                data = render.render(f.to_sheets(), fmt)
                raw = data.encode("utf-8") if isinstance(data, str) else data
                d = tempfile.mkdtemp(prefix="verif_names_")
                try:
                    for stem in ("clinic_intake", "clinic_followup", "clinic_intake", "third_copy"):
                        path = os.path.join(d, f"{stem}.{fmt}")
                        with open(path, "wb") as fh:
                            fh.write(raw)
                        if route == "convert":
                            o = drive.call_convert(path)
                            xform = o.xform if o.ok else None
                        else:
                            from pyxform.xls2xform import xls2xform_convert
                            out = os.path.join(d, f"{stem}.xml")
                            try:
                                xls2xform_convert(xlsform_path=path, xform_path=out, validate=False, pretty_print=False)
                                xform = open(out, encoding="utf-8").read()
                            except Exception as e:  # noqa: BLE001
                                xform = None
                                o = type("O", (), {"brief": lambda self, e=e: f"{type(e).__name__}: {e}"})()
                        os.unlink(path)
                        ctx.ctr("same_content_other_name_conversions")
                        ctx.case(sig=f"names|{fmt}|{given}|{route}|{stem}")
                        wit = common.witness(f, klass="names", fmt=fmt, route=route)
                        if xform is None:
                            ctx.viol("same-content:refused", f"{stem}.{fmt} ({route}): {o.brief()[:200]}", wit)
                            continue
                        p = xf.Parsed(xform)
                        want_id = "given_form_id" if "form_id" in given else stem
                        want_title = "given_form_title" if "form_title" in given else want_id
                        got_id, got_title = p.primary.get("id"), (p.title.text or "")
                        if got_id != want_id:
                            ctx.viol("same-content:id-of-another-file-name", f"{stem}.{fmt} ({route}, converted after copies under other names): id {got_id!r}, expected {want_id!r}", wit)
                        if got_title != want_title:
                            ctx.viol("same-content:title-of-another-file-name", f"{stem}.{fmt} ({route}): title {got_title!r}, expected {want_title!r}", wit)
                finally:
                    import shutil
                    shutil.rmtree(d, ignore_errors=True)


def builder_arguments(ctx):
    """The builder route (create_survey with the JSON of a workbook): its id_string and title arguments are the form's id and title, whatever the
    settings sheet said; without them the sheet's values stand; the other settings are untouched either way."""
    from pyxform.builder import create_survey
    from pyxform.xls2json import workbook_to_json
    from pyxform.xls2json_backends import md_to_dict
    from .. import xf
    k = 0
    for sheet_id in (None, "sheet_id"):
        for sheet_title in (None, "Sheet title"):
            for arg_id in (None, "arg_id"):
                for arg_title in (None, "Arg title"):
                    k += 1
                    if not ctx.mine(k):
                        continue
                    f = gen.simple_form([("text", "q1", {"label": "Q"})])
                    f.settings["version"] = "v42"
                    f.settings["style"] = "pages"
                    if sheet_id:
                        f.settings["form_id"] = sheet_id
                    if sheet_title:
                        f.settings["form_title"] = sheet_title
                    ctx.ctr("builder_argument_cases")
                    ctx.case(sig=f"builder-args|{sheet_id}|{sheet_title}|{arg_id}|{arg_title}")
                    wit = common.witness(f, klass="builder-args", args={"id_string": arg_id, "title": arg_title})
                    try:
                        from pyxform.xls2json_backends import get_xlsform
                        js = workbook_to_json(workbook_dict=get_xlsform(xlsform=render.to_md(f.to_sheets()), file_type=".md"), form_name="data", fallback_form_name="stemname", warnings=[])
                        kw = {}
                        if arg_id:
                            kw["id_string"] = arg_id
                        if arg_title:
                            kw["title"] = arg_title
                        sv = create_survey(name_of_main_section="main", sections={"main": js}, **kw)
                        p = xf.Parsed(sv.to_xml(validate=False, pretty_print=False))
                    except Exception as e:  # noqa: BLE001
                        ctx.viol("builder-args:raised", f"{type(e).__name__}: {e}"[:300], wit)
                        continue
                    want_id = arg_id or sheet_id or "stemname"
                    want_title = arg_title or sheet_title or (sheet_id or "stemname")
                    got = (p.primary.get("id"), p.title.text or "", p.primary.get("version"), p.body.get("class"))
                    if got[0] != want_id:
                        ctx.viol("builder-args:id", f"create_survey(id_string={arg_id!r}) with sheet form_id {sheet_id!r}: id {got[0]!r}, expected {want_id!r}", wit)
                    if got[1] != want_title:
                        ctx.viol("builder-args:title", f"create_survey(title={arg_title!r}, id_string={arg_id!r}) with sheet title {sheet_title!r} / id {sheet_id!r}: title {got[1]!r}, expected {want_title!r}", wit)
                    if got[2:] != ("v42", "pages"):
                        ctx.viol("builder-args:other-settings", f"version/style {got[2:]}", wit)


def run_shard(ctx):
    if ctx.shard == 0:
        locale_children(ctx)
    thread_pass(ctx)
    same_content_other_name(ctx)
    builder_arguments(ctx)
    pl = plan(ctx.tier, ctx.seed)
    for i in range(pl["n"]):
        if not ctx.mine(i):
            continue
        rng = ctx.rng("case", i)
        mask = i if ctx.tier == "thorough" else rng.getrandbits(len(SETTINGS))
        if i < 40 and ctx.tier == "quick":
            mask = (1 << (i % len(SETTINGS))) if i < len(SETTINGS) else ((1 << len(SETTINGS)) - 1 if i == 20 else (0 if i == 21 else mask))
        # public_key + omit handled in build; public_key requires instanceID
        channel = CHANNELS[i % len(CHANNELS)]
        argmode = (i // 7) % 2
        hostile_mode = (i % 5 == 0) and channel in ("dict", "dict+fallback", "xlsx-path", "xlsx-bytes")
        _AWKWARD[0] = ("md" if channel.startswith("md") else "csv") if (channel.startswith(("md", "csv")) and (i // len(CHANNELS)) % 2 == 1) else None
        use_alias = i % 3 == 0
        o = run_case(ctx, rng, mask, i, channel, argmode, hostile_mode, use_alias)
        if i < 2 and o is not None:
            ctx.sample({"mask": mask, "settings_present": [s for b, s in enumerate(SETTINGS) if mask >> b & 1], "channel": channel,
                        "observed": "every observable equals its marker; absent settings left no trace"})


def replay(w):
    def chk(ctx, wit):
        if wit.get("klass") == "locale":
            locale_children(ctx)
            return
        if wit.get("klass") == "names":
            same_content_other_name(ctx)
            return
        if wit.get("klass") == "builder-args":
            builder_arguments(ctx)
            return
        i = wit.get("i", 0)
        if wit.get("klass") == "threads" or i >= 50000:
            thread_pass(ctx, shard=((i - 50000) // 4) // 100 if i >= 50000 else 0)  # the whole concurrent pass of that shard
            return
        run_case(ctx, ctx.rng("case", i), wit["mask"], i, wit["channel"], wit["argmode"], wit["hostile_mode"], wit["use_alias"])
    return common.replay_with(PROP, w, chk)
