"""C07 — every itext reference resolves in every language.

Deciding oracle: invariants.c07_itext over the parsed output.  References are collected
only from positions that are itext references by construction (label/@ref, hint/@ref, bind
jr:*Msg attributes whose whole value is jr:itext('…'), itextId elements).
Workload: multi-language forms with deliberately sparse translation patterns, media in
one language only, guidance without hint, shared lists, search() selects, choice labels
with references, or_other with translations, translated messages, unlabeled choices;
a bounded enumeration of sparse header assignments; the repository's fixtures.
"""
from __future__ import annotations

import itertools
import os
import re

from .. import common, drive, gen, invariants, render, xf
from ..model import Form, Row

PROP = "C07"
LEVEL = "exploration"
TECHNIQUE = "runtime output monitor: itext closure (every jr:itext ref / itextId resolves in every translation; equal id sets; single default)"
RULE = ("cases = sparse multi-language generated forms + enumerated sparse header assignments over {label,hint,guidance_hint,image,"
        "constraint_message} x {unsuffixed,L1,L2} + repo fixtures; non-trivial = conversion succeeded and the output has an itext "
        "block with >=1 checked reference; distinct = distinct (form feature signature | enumerated assignment)")
ASSUMPTIONS = ["default language of a generated form = settings.default_language, else the convert() argument, else 'default'"]

L1, L2 = "English (en)", "French (fr)"


def plan(tier, seed):
    n = 1500 if tier == "quick" else 20000
    return {"shards": 16, "timeout": 900 if tier == "quick" else 3000, "n": n,
            "floors": {"suite_conversions_judged": 500, "outputs_with_itext": n // 3, "itext_refs_checked": n * 3, "distinct": 50}}


def sparse_cfg(rng):
    return common.rich_cfg(
        rng, langs=rng.choice([[L1, L2], ["en", "fr", "de"], [L1], ["x", "y"], ["English", "english"], ["fr", "FR", "Fr (fr)"], ["Deutsch (de)", "deutsch (de)"]]), p_translated=rng.choice([0.5, 0.8, 1.0]),
        p_sparse=rng.choice([0.2, 0.5, 0.7]), unsuffixed_too=rng.choice([0.0, 0.4, 0.8]),
        p_guidance=0.4, p_media=0.4, p_hint=0.5, p_constraint=0.5, p_constraint_msg=0.8, p_required=0.4, p_required_msg=0.8,
        p_select=0.4, p_or_other=rng.choice([0, 0.3]), p_choice_media=rng.choice([0, 0.4]), p_choice_nolabel=rng.choice([0, 0, 0.15]),
        p_choice_label_ref=rng.choice([0, 0.3]), p_search=rng.choice([0, 0.4]), p_label_ref=0.3, p_trigger=0, p_choice_filter=0.2,
        p_randomize=rng.choice([0, 0.3]), p_section_media=rng.choice([0, 0.3]), p_noapp=rng.choice([0, 0.3]), p_msg_ref=rng.choice([0, 0.4]))


KINDS = ["label", "hint", "guidance_hint", "image", "constraint_message"]
VARIANTS = [None, L1, L2]


def enum_form(assign, list_assign):
    """assign: {kind: tuple of variants present}; list_assign: {'label':..., 'image':...}"""
    cells = {}
    for k, vs in assign.items():
        for v in vs:
            h = k if v is None else f"{k}::{v}"
            cells[h] = f"{k}.q1.{v or 'nolang'}" + (".png" if k == "image" else "")
    if any(k == "constraint_message" for k in assign if assign[k]):
        cells["constraint"] = ". != 'x'"
    f = Form()
    f.survey = [Row("q", "text", "q1", cells), Row("q", "select_one l1", "q2", {"label": "plain"})]
    ch = []
    for j in range(2):
        c = {"name": f"c{j}"}
        for k, vs in list_assign.items():
            for v in vs:
                h = k if v is None else f"{k}::{v}"
                c[h] = f"{k}.l1-{j}.{v or 'nolang'}" + (".png" if k == "image" else "")
        ch.append(c)
    f.choices = {"l1": ch}
    return f


def subsets(xs):
    for n in range(len(xs) + 1):
        yield from itertools.combinations(xs, n)


def default_lang(form):
    return form.settings.get("default_language", form.args.get("default_language", "default"))


def check(ctx, form, klass, sig):
    if form.meta.get("dict_blank_cells"):
        import random as _r
        # rows as a table reader hands them over: blank cells spelt '' (a choice whose translated label cells are all blank, a row without its hint ...)
        o = drive.call_convert(render.to_dict_blank_cells(form.to_sheets(), _r.Random(form.meta["dict_blank_cells"])), **dict(form.args))
        ctx.ctr("dict_blank_cell_forms")
    else:
        o = drive.convert_form(form)
    if not o.ok:
        ctx.ctr(f"rejected:{klass}")
        if not o.exc_is_pyxform:
            ctx.ctr("internal_exception_seen(C17's business)")
        return
    try:
        p = xf.Parsed(o.xform)
    except xf.XFError:
        ctx.ctr("unparseable_output(C01's business)")
        return
    v, nrefs, ntr = invariants.c07_itext(p, default_lang(form))
    ctx.ctr("outputs_checked")
    if ntr:
        ctx.ctr("outputs_with_itext")
        ctx.ctr("itext_refs_checked", nrefs)
        ctx.case(sig=f"{sig}|{klass}|{ntr}")
    for key, what in v:
        ctx.viol(refine_key(key, what, form), f"[{klass}] {what}", common.witness(form, klass=klass))
    return o


_ID = re.compile(r"itext id '(.*?)'")


def refine_key(key, what, form):
    """Mechanism refinement: a dangling '<list>-<idx>' id whose choice has neither label nor media cells."""
    m = _ID.search(what)
    if not m or form is None:
        return key
    i = m.group(1)
    osm_rows = [r for r, _ in form.walk() if (r.type or "").startswith("osm")]
    if i.startswith("/") and any(f"/{r.name}/" in i for r in osm_rows):
        return key + ":translated-osm-tag"
    if "-" in i and not i.startswith("/"):
        ln, _, idx = i.rpartition("-")
        rows = [c for c in form.choices.get(ln, []) if not c.get("__blank")]
        if idx.isdigit() and int(idx) < len(rows):
            c = rows[int(idx)]
            media = ("image", "audio", "video", "big-image", "media")
            if not any(h.split(":")[0].strip().lower() in ("label",) + media for h in c):
                return key + ":unlabeled-choice-in-itext-list"
    return key


def run_shard(ctx):
    pl = plan(ctx.tier, ctx.seed)
    if ctx.shard == 0:
        api_history(ctx)
        json_api_forms(ctx)
    for i in range(pl["n"]):
        if not ctx.mine(i):
            continue
        rng = ctx.rng("case", i)
        form = gen.gen_form(rng, sparse_cfg(rng))
        if i % 12 == 3:
            # an element whose name (and therefore whose itext id) contains a colon: a namespaced question with guidance but no hint
            form.settings["namespaces"] = (form.settings.get("namespaces", "") + ' ex="http://example.org/ex"').strip()
            cells = {"label": "namespaced"}
            langs = form.meta.get("langs") or []
            cells["guidance_hint" if not langs or rng.random() < 0.5 else f"guidance_hint::{rng.choice(langs)}"] = "guidance only"
            if rng.random() < 0.4:
                cells["constraint"] = ". != ''"
                cells["constraint_message" if not langs else f"constraint_message::{langs[0]}"] = "cm"
            holder = rng.choice([form.survey] + [r.children for r, _ in form.walk() if r.is_section()])
            holder.append(Row("q", "text", f"ex:nsq{i % 7}", cells))
        if i % 9 == 4 and form.choices:
            # the legacy add_none_option setting next to a select_multiple whose list needs itext (translated labels, media, references)
            form.settings["add_none_option"] = rng.choice(["yes", "true"])
            ln = rng.choice(sorted(form.choices))
            form.survey.append(Row("q", f"select_multiple {ln}", f"nonesel{i % 5}", {"label": "pick"}))
            ctx.ctr("add_none_option_forms")
        if i % 16 == 9:
            # a generic media::<type> column of a type the clients do not know, on a row with and without other content for its label entry
            langs = form.meta.get("langs") or []
            mh = "media::pdf" if not langs or rng.random() < 0.5 else f"media::pdf::{rng.choice(langs)}"
            shape = rng.choice(["media-only-note", "media-only-group", "with-label", "with-image"])
            if shape == "media-only-group":
                form.survey.append(Row("group", "begin group", f"mg{i % 5}", {mh: "doc.pdf"}, [Row("q", "text", f"mgq{i % 5}", {"label": "in"})]))
            else:
                cells = {mh: "doc.pdf"}
                if shape == "with-label":
                    cells["label"] = "has label"
                if shape == "with-image":
                    cells["image"] = "a.png"
                form.survey.append(Row("q", "note", f"mn{i % 5}", cells))
            ctx.ctr("unknown_media_type_forms")
        if i % 16 == 13:
            # the legacy per-group 'flat' column: the group has no node of its own, its label/media entry hangs off the parent's path
            langs = form.meta.get("langs") or []
            cells = {"flat": "yes"}
            shape = rng.choice(["media-only", "label-only", "label+media"])
            if shape != "label-only":
                cells["image" if not langs or rng.random() < 0.5 else f"image::{rng.choice(langs)}"] = "flatgrp.png"
            if shape != "media-only":
                cells["label" if not langs else f"label::{langs[0]}"] = "flat group"
            holder = rng.choice([form.survey] + [r.children for r, _ in form.walk() if r.kind == "group"])
            holder.append(Row("group", "begin group", f"fg{i % 5}", cells, [Row("q", "text", f"fgq{i % 5}", {"label": "in flat"})]))
            ctx.ctr("flat_column_forms")
        if i % 16 == 1:
            # bind messages written on a group / repeat row (translated, or carrying a reference): filed like a question's
            langs = form.meta.get("langs") or []
            sk = rng.choice(["group", "repeat"])
            cells = {"label" if not langs else f"label::{langs[0]}": "sec with messages"}
            for base in rng.sample(["constraint_message", "required_message", "no_app_error_string"], rng.randint(1, 3)):
                if langs and rng.random() < 0.75:
                    for L in rng.sample(langs, rng.randint(1, len(langs))):
                        cells[f"{base}::{L}"] = f"{base} {L}"
                else:
                    cells[base] = f"{base} says ${{smq{i % 5}}}"
            cells["constraint"] = "count(.) >= 0"
            cells["required"] = "yes"
            form.survey.insert(0, Row("q", "text", f"smq{i % 5}", {"label": "q"}))
            holder = rng.choice([form.survey] + [r.children for r, _ in form.walk() if r.kind == "group"])
            holder.append(Row(sk, f"begin {sk}", f"sm{i % 5}", cells, [Row("q", "text", f"smin{i % 5}", {"label": "in"})]))
            ctx.ctr("section_message_forms")
        if i % 16 == 7:
            # the same question name in several sections (legal: unique per parent), each a picture-only note
            langs = form.meta.get("langs") or []
            for g_ in range(rng.randint(2, 3)):
                mh = rng.choice(["image", "audio", "video", "big-image"])
                cells = {mh if not langs or rng.random() < 0.5 else f"{mh}::{rng.choice(langs)}": f"pic{g_}.png"}
                if mh == "big-image":
                    cells.setdefault("image", f"pic{g_}.png")
                kids = [Row("q", "note", "pic", cells), Row("q", "text", f"sn{i % 5}_{g_}", {"label": "t"})]
                if g_ == 0 and rng.random() < 0.5:
                    form.survey.extend(kids[:1])
                else:
                    form.survey.append(Row("group", "begin group", f"sng{i % 5}_{g_}", {"label" if not langs else f"label::{langs[0]}": "g"}, kids))
            ctx.ctr("same_name_media_forms")
        if i % 16 == 5:
            # osm question with (possibly translated) tags from the osm sheet
            langs = form.meta.get("langs") or []
            hdr = [f"label::{L}" for L in langs] if langs and rng.random() < 0.7 else ["label"]
            form.survey.append(Row("q", "osm osm_tags", "osmq", {h: f"osm {h}" for h in hdr}))
            form.extra_sheets["osm"] = (["list_name", "name"] + hdr, [["osm_tags", "building"] + [f"B {h}" for h in hdr], ["osm_tags", "amenity"] + [f"A {h}" for h in hdr[:1]] + [None] * (len(hdr) - 1)])
        if rng.random() < 0.3:
            form.settings.pop("default_language", None)
            if rng.random() < 0.5:
                form.args["default_language"] = rng.choice(form.meta["langs"] + ["Other (ot)", "", ""])  # the empty name is a name too (an API caller's "no name")
        if i % 13 == 6 and form.choices:
            # a data column on the choices sheet named like the element that carries a choice's generated text id
            for c_ in form.choices[sorted(form.choices)[0]]:
                c_["itextId"] = rng.choice(["mine", "x1", "lst-0"])
            ctx.ctr("choices_column_named_itextId_forms")
        if i % 5 == 3:
            form.meta["dict_blank_cells"] = i + 1
        o = check(ctx, form, "sparse", common.feature_sig(form))
        if i < 2 and o is not None:
            ctx.sample({"class": "sparse", "form_md": common.sheets_to_md(form.to_sheets())[:2000], "observed": "itext closure held"})
    # ---- bounded enumeration of sparse header assignments
    sub = list(subsets(VARIANTS))  # 8
    combos = list(itertools.product(sub, repeat=len(KINDS)))  # 32768
    lcombos = list(itertools.product(sub, repeat=2))  # 64
    if ctx.tier == "quick":
        rng = ctx.rng("enum")
        picks = [rng.randrange(len(combos)) for _ in range(1600)]
    else:
        picks = range(len(combos))
    for n, ci in enumerate(picks):
        if not ctx.mine(n):
            continue
        assign = dict(zip(KINDS, combos[ci]))
        la = dict(zip(["label", "image"], lcombos[(ci * 7 + n) % len(lcombos)]))
        form = enum_form(assign, la)
        if (ci // 3) % 2:
            form.settings["default_language"] = [L1, L2, "Other (ot)"][ci % 3]
        check(ctx, form, "enum", f"enum|{ci}|{(ci * 7 + n) % len(lcombos)}")
    ctx.ctr("enum_cases", len([1 for n, _ in enumerate(picks) if ctx.mine(n)]))
    for j, path in enumerate(common.fixture_files()):
        if not ctx.mine(j):
            continue
        o = drive.call_convert(path)
        if o.ok:
            try:
                p = xf.Parsed(o.xform)
            except xf.XFError:
                continue
            v, nrefs, ntr = invariants.c07_itext(p, None)
            ctx.ctr("outputs_checked")
            if ntr:
                ctx.ctr("outputs_with_itext")
                ctx.ctr("itext_refs_checked", nrefs)
                ctx.case(sig=f"fixture|{os.path.basename(path)}")
            for key, what in v:
                ctx.viol(f"fixture:{key}", f"[{os.path.relpath(path, '/repo')}] {what}", {"fixture": path, "klass": "fixture"})


def json_api_forms(ctx):
    """Surveys built from a JSON dict as an API caller may write it (keys that xls2json always adds may be missing)."""
    from pyxform.builder import create_survey_element_from_dict
    for i in range(24):
        rng = ctx.rng("json-api", i)
        langs = rng.choice([["en", "fr"], ["x"]])
        choices = [{"name": f"c{k}", "label": {L: f"C{k} {L}" for L in langs}} for k in range(rng.randint(1, 3))]
        if i % 3 == 1:
            # a choice whose label is there but blank in every language (or in some): blank is not absent for an API caller
            choices.append({"name": "blank", "label": {L: rng.choice(["", "", "x"]) if i % 2 else "" for L in langs}})
        sel = {"type": rng.choice(["select one", "select all that apply"]), "name": "s1", "label": {L: f"S {L}" for L in langs}, "itemset": "lst", "choices": choices,
               "control": {"appearance": rng.choice(["search('f')", "minimal search('f')", "minimal", "minimal"])}}
        if rng.random() < 0.5:
            sel["list_name"] = "lst"
        d = {"type": "survey", "name": "data", "id_string": "j", "title": "j", "default_language": langs[0], "choices": {"lst": choices},
             "children": [sel, {"type": "text", "name": "t", "label": {L: f"T {L}" for L in langs}}]}
        try:
            x = create_survey_element_from_dict(d).to_xml(validate=False)
        except Exception as e:  # noqa: BLE001
            ctx.ctr("json_api_rejected")
            continue
        v, nrefs, ntr = invariants.c07_itext(xf.Parsed(x), langs[0])
        ctx.ctr("api_histories")
        ctx.ctr("itext_refs_checked", nrefs)
        ctx.case(sig=f"json-api|{sel['type']}|{'list_name' in sel}|{sel['control']['appearance'][:6]}")
        for key, what in v:
            ctx.viol(f"json-api:{key}", f"[survey built from a JSON dict, list_name key {'present' if 'list_name' in sel else 'absent'}] {what}", {"klass": "api"})


def api_history(ctx):
    """render, add a translated question through add_child(), render again: the second document must be closed too."""
    from .. import apiseq
    for i in range(30):
        rng = ctx.rng("multistep", i)
        langs = rng.choice([["en", "fr"], ["English (en)", "Swahili (sw)", "x"]])
        rows = [{"type": "text", "name": "q1", **{f"label::{L}": f"Q1 {L}" for L in langs}},
                {"type": "begin group", "name": "g", **{f"label::{L}": f"G {L}" for L in langs[:1]}},
                {"type": "integer", "name": "q2", "label": "plain"}, {"type": "end group"}]
        if rng.random() < 0.5:
            rows = [{k: v for k, v in r.items() if "::" not in k} | ({"label": "L"} if r["type"] != "end group" else {}) for r in rows]  # first render without any itext
        o = drive.call_convert({"survey": rows})
        if not o.ok:
            continue
        sv = o.result._survey
        sv.to_xml(validate=False)
        tgt = rng.choice([sv, next(e for e in sv.iter_descendants() if e.name == "g")])
        newq = {"type": "integer", "name": f"age{i}", "label": {L: f"Age {L}" for L in langs}, "hint": {langs[0]: "h"},
                "bind": {"constraint": ". > 0", "jr:constraintMsg": {L: f"msg {L}" for L in langs[-1:]}}}
        tgt.add_child(apiseq.question(newq))
        try:
            x = sv.to_xml(validate=False)
        except Exception as e:  # noqa: BLE001
            ctx.viol(f"multistep:second-render-raised:{type(e).__name__}", str(e)[:300], {"klass": "api"})
            continue
        v, nrefs, ntr = invariants.c07_itext(xf.Parsed(x), None)
        ctx.ctr("api_histories")
        ctx.ctr("itext_refs_checked", nrefs)
        ctx.case(sig=f"multistep|{len(langs)}|{tgt.name}|{ntr}")
        for key, what in v:
            ctx.viol(f"multistep:{key}", f"[render, add_child(translated question), render] {what}", {"klass": "api"})


def replay(w):
    def chk(ctx, wit):
        if wit.get("klass") == "api":
            api_history(ctx)
            return
        if wit.get("klass") == "fixture":
            o = drive.call_convert(wit["fixture"])
            dl = None
        else:
            form = common.form_from_witness(wit)
            o = drive.convert_form(form)
            dl = default_lang(form)
        print("  outcome:", o.brief())
        if o.ok:
            v, _, _ = invariants.c07_itext(xf.Parsed(o.xform), dl)
            for key, what in v:
                ctx.viol(refine_key(key, what, form if wit.get("klass") != "fixture" else None), what)
    return common.replay_with(PROP, w, chk)
