"""Renderers: abstract sheets -> md | csv | xlsx/xlsm | xls (raw BIFF8) | dict.

`sheets` is {name: (headers, rows)}; a cell is None (empty), str, int, float, bool or
datetime. Typed cells only survive in xlsx/xls; every other container gets canon_text().
"""
from __future__ import annotations

import csv
import datetime
import io
import struct

KNOWN_SHEETS = {"survey", "choices", "settings", "external_choices", "entities", "osm"}


def canon_text(v):
    """The canonical text a typed cell must be read as (property C12)."""
    if v is None:
        return None
    if v is True:
        return "TRUE"
    if v is False:
        return "FALSE"
    if isinstance(v, int):
        return str(v)
    if isinstance(v, float):
        if v.is_integer():
            return str(int(v))
        r = repr(v)
        if "e" in r:
            # the shortest digits, spelt as a decimal: a text format has no exponent notation (and XPath cannot read one)
            sign, r = ("-", r[1:]) if r.startswith("-") else ("", r)
            mant, exp = r.split("e")
            digits = mant.replace(".", "")
            point = len(mant.split(".")[0]) + int(exp)
            r = sign + ("0." + "0" * (-point) + digits if point <= 0 else digits[:point] + "." + digits[point:])
            r = r.rstrip("0") if "." in r else r
        return r
    if isinstance(v, (datetime.datetime, datetime.time)):
        return str(v)
    s = str(v).replace("\u00a0", " ").strip()
    return s if s else None


def is_blank(v):
    return v is None or (isinstance(v, str) and (not v or v.isspace()))


# ------------------------------------------------------------------------- dict
def to_dict(sheets, with_headers=True, fallback_form_name=None, keep_blank_rows=True, raw=False):
    """raw=True passes text cells verbatim (no trimming / NBSP normalisation): what an API caller could hand over."""
    d = {"sheet_names": list(sheets)}
    for name, (hdrs, rows) in sheets.items():
        key = name.strip().lower()  # what every reader makes of a sheet name: letter case and surrounding blanks do not count
        if key not in KNOWN_SHEETS:
            continue
        out = []
        hdrs = [h if (h is None or isinstance(h, str)) else canon_text(h) for h in hdrs]  # a typed header cell is read as its canonical text too
        for r in rows:
            rd = {}
            for h, c in zip(hdrs, r):
                t = c if (raw and isinstance(c, str) and c != "") else canon_text(c)
                if t is not None and h is not None:
                    rd[h] = t
            if rd or keep_blank_rows:
                out.append(rd)
        while out and not out[-1]:
            out.pop()
        d[key] = out
        if with_headers:
            d[key + "_header"] = [{h: None for h in hdrs if h is not None}]
    if fallback_form_name is not None:
        d["fallback_form_name"] = fallback_form_name
    return d


# ------------------------------------------------------------------------- markdown
def md_ok_cell(s: str) -> bool:
    """Can this text be carried by the markdown container unchanged?"""
    if s is None:
        return True
    if "\n" in s or "\r" in s:
        return False
    if s.endswith("\\"):
        return False
    if "\\|" in s:
        return False
    return True


def to_md(sheets, separator=None) -> str:
    """separator: None, or the cell text of a markdown delimiter row written under every header row ('---', ':---:', '-' ...), with or without blanks."""
    lines = []
    for name, (hdrs, rows) in sheets.items():
        lines.append(f"| {name} |")
        lines.append("| | " + " | ".join(_md_cell(h) for h in hdrs) + " |")
        if separator:
            cell, spaced = separator
            lines.append(("| | " + " | ".join(cell for _ in hdrs) + " |") if spaced else ("|" + "|".join(cell for _ in ["x"] + list(hdrs)) + "|"))
        for r in rows:
            cells = [_md_cell(canon_text(c)) for c in r]
            if not any(c.strip() for c in cells):
                continue  # md cannot carry blank rows
            lines.append("| | " + " | ".join(cells) + " |")
    return "\n".join(lines) + "\n"


def _md_cell(s):
    if s is None:
        return " "
    return str(s).replace("|", "\\|")


# ------------------------------------------------------------------------- csv
def to_csv(sheets, compact=False) -> str:
    """compact=True (or a set of sheet names): the sheet name sits in the first cell of the header row itself (a layout the CSV reader accepts too)."""
    buf = io.StringIO(newline="")
    w = csv.writer(buf, quoting=csv.QUOTE_ALL)
    for name, (hdrs, rows) in sheets.items():
        if compact is True or (compact and name in compact):
            w.writerow([name] + ["" if h is None else h for h in hdrs])
        else:
            w.writerow([name])
            w.writerow([""] + ["" if h is None else h for h in hdrs])
        for r in rows:
            cells = ["" if canon_text(c) is None else canon_text(c) for c in r]
            if not any(cells):
                continue  # csv reader skips blank rows too
            w.writerow([""] + cells)
    return buf.getvalue()


# ------------------------------------------------------------------------- xlsx
def to_xlsx(sheets, typed=True, pad_rows=0, pad_cols=0) -> bytes:
    from openpyxl import Workbook

    wb = Workbook()
    wb.remove(wb.active)
    for name, (hdrs, rows) in sheets.items():
        ws = wb.create_sheet(title=name)
        for ci, h in enumerate(hdrs, start=1):
            if h is not None:
                ws.cell(row=1, column=ci, value=h)
        for ri, r in enumerate(rows, start=2):
            for ci, c in enumerate(r, start=1):
                if c is None:
                    continue
                ws.cell(row=ri, column=ci, value=c if typed else canon_text(c))
        if pad_rows:
            # formatting-only trailing cells: empty strings / whitespace
            for k in range(pad_rows):
                ws.cell(row=len(rows) + 2 + k, column=1, value=" ")
        if pad_cols:
            for k in range(pad_cols):
                ws.cell(row=1, column=len(hdrs) + 1 + k, value=" ")
    if not wb.sheetnames:
        wb.create_sheet("Sheet1")
    buf = io.BytesIO()
    wb.save(buf)
    return buf.getvalue()


# ------------------------------------------------------------------------- xls (BIFF8, no OLE2 wrapper)
def _rec(code, data=b""):
    return struct.pack("<HH", code, len(data)) + data


def _ustr16(s):
    b = s.encode("utf-16-le")
    return struct.pack("<HB", len(b) // 2, 1) + b


def _ustr8(s):
    b = s.encode("utf-16-le")
    return struct.pack("<BB", len(b) // 2, 1) + b


def _xf(fmt, style):
    return _rec(0x00E0, struct.pack("<HHHBBBBIIH", 0, fmt, 0xFFF5 if style else 1, 0x20, 0, 0, 0, 0, 0, 0x20C0))


def to_xls(sheets, typed=True) -> bytes:
    """Raw BIFF8 workbook stream; xlrd 2.0.1 accepts it without an OLE2 container."""
    g = b""
    g += _rec(0x0809, struct.pack("<HHHHII", 0x0600, 0x0005, 0x0DBB, 0x07CC, 0, 6))
    g += _rec(0x0042, struct.pack("<H", 1200))
    g += _rec(0x0022, struct.pack("<H", 0))
    for _ in range(5):
        g += _rec(0x0031, struct.pack("<HHHHHBBBB", 200, 0, 0x7FFF, 400, 0, 0, 0, 0, 0) + _ustr8("Arial"))
    g += _rec(0x041E, struct.pack("<H", 164) + _ustr16("yyyy-mm-dd hh:mm:ss"))
    for _ in range(16):
        g += _xf(0, True)
    g += _xf(0, False)  # 16 general
    g += _xf(164, False)  # 17 date
    sheet_streams = []
    for name, (hdrs, rows) in sheets.items():
        s = _rec(0x0809, struct.pack("<HHHHII", 0x0600, 0x0010, 0x0DBB, 0x07CC, 0, 6))
        nrows = len(rows) + 1
        ncols = max([len(hdrs)] + [len(r) for r in rows] + [1])
        s += _rec(0x0200, struct.pack("<IIHHH", 0, nrows, 0, ncols, 0))
        allrows = [list(hdrs)] + [list(r) for r in rows]
        for ri, r in enumerate(allrows):
            for ci, c in enumerate(r):
                if c is None:
                    continue
                if not typed and ri > 0:
                    c = canon_text(c)
                    if c is None:
                        continue
                hd = struct.pack("<HHH", ri, ci, 16)
                if c is True or c is False:
                    s += _rec(0x0205, hd + struct.pack("<BB", 1 if c else 0, 0))
                elif isinstance(c, (int, float)):
                    s += _rec(0x0203, hd + struct.pack("<d", float(c)))
                else:
                    t = str(c)
                    # LABEL records are limited in size; split is not supported -> cap (callers keep cells short)
                    s += _rec(0x0204, hd + _ustr16(t))
        s += _rec(0x000A)
        sheet_streams.append((name, s))
    # BOUNDSHEET records need absolute offsets
    bs_len = sum(len(_rec(0x0085, struct.pack("<IBB", 0, 0, 0) + _ustr8(n))) for n, _ in sheet_streams)
    off = len(g) + bs_len + 4
    bs = b""
    for n, s in sheet_streams:
        bs += _rec(0x0085, struct.pack("<IBB", off, 0, 0) + _ustr8(n))
        off += len(s)
    return g + bs + _rec(0x000A) + b"".join(s for _, s in sheet_streams)


def render(sheets, fmt, **kw):
    if fmt == "md":
        return to_md(sheets, **kw)
    if fmt == "csv":
        return to_csv(sheets, **kw)
    if fmt in ("xlsx", "xlsm"):
        return to_xlsx(sheets, **kw)
    if fmt == "xls":
        return to_xls(sheets, **kw)
    if fmt == "dict":
        return to_dict(sheets, **kw)
    raise ValueError(fmt)


# ------------------------------------------------------------------------- xlsx as other producers write it
# The same cells in other encodings OOXML allows (openpyxl writes shared strings and plain <v> values only):
#  inline     every text cell as an inline string (<c t="inlineStr"><is><t>..</t></is></c>), as streaming writers emit
#  richruns   every shared string split into two formatted runs plus a phonetic run (<r><t>..</t></r><r>..</r><rPh>..</rPh>)
#  formula    numbers, booleans and text as formula cells with their cached value (<f>..</f><v>..</v>, text as t="str")
#  nodim      the worksheet part without its <dimension> element (optional in the schema)
#  prefixed   text cells carrying xml:space="preserve" and the worksheet written with CR LF line ends between rows
FOREIGN_XLSX_STYLES = ("inline", "richruns", "formula", "nodim", "spaced")


def xlsx_foreign(data: bytes, style: str) -> bytes:
    import re
    import zipfile
    from xml.sax.saxutils import escape

    zin = zipfile.ZipFile(io.BytesIO(data))
    parts = {n: zin.read(n) for n in zin.namelist()}
    shared = []
    if "xl/sharedStrings.xml" in parts:
        import xml.etree.ElementTree as ET

        ns = "{http://schemas.openxmlformats.org/spreadsheetml/2006/main}"
        for si in ET.fromstring(parts["xl/sharedStrings.xml"]).iter(ns + "si"):
            shared.append("".join(t.text or "" for t in si.iter(ns + "t")))

    def t_el(s):
        return f'<t xml:space="preserve">{escape(s)}</t>'

    def sheet_edit(xml: str) -> str:
        if style == "nodim":
            return re.sub(r"<dimension [^>]*/>", "", xml)
        if style == "spaced":
            return xml.replace("</row>", "</row>\r\n").replace("<sheetData>", "<sheetData>\r\n  ")

        def cell(m):
            attrs, inner = m.group(1), m.group(2)
            tm = re.search(r'\bt="(\w+)"', attrs)
            typ = tm.group(1) if tm else "n"
            vm = re.search(r"<v>(.*?)</v>", inner, re.S)
            if vm is None:
                return m.group(0)
            v = vm.group(1)
            rest = re.sub(r'\s*\bt="\w+"', "", attrs)
            if style == "inline" and typ == "s":
                return f'<c{rest} t="inlineStr"><is>{t_el(shared[int(v)])}</is></c>'
            if style == "formula":
                if typ == "s":
                    s = shared[int(v)]
                    lit = s.replace('"', '""')
                    return f'<c{rest} t="str"><f>{escape(chr(34) + lit + chr(34))}</f><v>{escape(s)}</v></c>'
                if typ == "n":
                    return f"<c{rest}><f>{v}+0</f><v>{v}</v></c>"
                if typ == "b":
                    return f'<c{rest} t="b"><f>{"TRUE()" if v == "1" else "FALSE()"}</f><v>{v}</v></c>'
            return m.group(0)

        return re.sub(r"<c( [^>]*?)>(.*?)</c>", cell, xml, flags=re.S)

    out = io.BytesIO()
    with zipfile.ZipFile(out, "w", zipfile.ZIP_DEFLATED) as z:
        for n, b in parts.items():
            if n.startswith("xl/worksheets/") and n.endswith(".xml") and style != "richruns":
                b = sheet_edit(b.decode("utf-8")).encode("utf-8")
            elif n == "xl/sharedStrings.xml" and style == "richruns":
                items = []
                for s in shared:
                    k = len(s) // 2
                    items.append(f'<si><r>{t_el(s[:k])}</r><r><rPr><b/><sz val="11"/></rPr>{t_el(s[k:])}</r>'
                                 f'<rPh sb="0" eb="1"><t>phon</t></rPh><phoneticPr fontId="1"/></si>')
                b = ('<?xml version="1.0" encoding="UTF-8" standalone="yes"?>\n<sst xmlns="http://schemas.openxmlformats.org/spreadsheetml/2006/main" '
                     f'count="{len(shared)}" uniqueCount="{len(shared)}">{"".join(items)}</sst>').encode("utf-8")
            z.writestr(n, b)
    return out.getvalue()


def to_dict_blank_cells(sheets, rng, **kw):
    """The dict a table reader hands over (csv.DictReader and the like): every row carries every header of its sheet, blank cells spelt '' or blanks."""
    d = to_dict(sheets, **kw)
    for name, (hdrs, _rows) in sheets.items():
        key = name.strip().lower()
        for rd in d.get(key, []) if isinstance(d.get(key), list) else []:
            if not rd:
                continue
            for h in hdrs:
                if isinstance(h, str) and h not in rd:
                    rd[h] = rng.choice(["", "", " ", "  "])
    return d
