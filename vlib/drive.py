"""Run the real converter on an abstract form and record what happened (H-boundary)."""
from __future__ import annotations

import hashlib
import io
import os
import sys
import tempfile
import traceback

from . import render

REPO = os.environ.get("VERIF_REPO", "/repo")
if REPO not in sys.path:
    sys.path.insert(0, REPO)


class Outcome:
    __slots__ = ("ok", "xform", "warnings", "itemsets", "exc_type", "exc_msg", "exc_frame", "exc_is_pyxform", "result")

    def __init__(self):
        self.ok = False
        self.xform = None
        self.warnings = []
        self.itemsets = None
        self.exc_type = None
        self.exc_msg = None
        self.exc_frame = None
        self.exc_is_pyxform = False
        self.result = None

    def digest(self):
        h = hashlib.sha256()
        if self.ok:
            h.update(b"OK\0" + self.xform.encode("utf-8") + b"\0")
            h.update("\x01".join(self.warnings).encode("utf-8") + b"\0")
            h.update((self.itemsets or "<none>").encode("utf-8"))
        else:
            h.update(f"EXC\0{self.exc_type}\0{self.exc_msg}".encode("utf-8"))
        return h.hexdigest()[:24]

    def brief(self):
        if self.ok:
            return f"ok({len(self.xform)} chars, {len(self.warnings)} warnings)"
        return f"{self.exc_type}: {(self.exc_msg or '')[:300]}"


def innermost_pyxform_frame(tb):
    fr = None
    for f, lineno in traceback.walk_tb(tb):
        fn = f.f_code.co_filename
        if "/pyxform/" in fn:
            fr = f"{fn.split('/pyxform/', 1)[1]}:{f.f_code.co_name}"
    return fr


def call_convert(xlsform, **kw) -> Outcome:
    from pyxform.errors import PyXFormError
    from pyxform.xls2xform import convert

    o = Outcome()
    try:
        res = convert(xlsform=xlsform, **kw)
        o.ok = True
        o.xform = res.xform
        o.warnings = list(res.warnings)
        o.itemsets = res.itemsets
        o.result = res
    except Exception as e:  # noqa: BLE001 - the monitor classifies
        o.exc_type = type(e).__name__
        o.exc_msg = str(e)
        o.exc_frame = innermost_pyxform_frame(e.__traceback__)
        o.exc_is_pyxform = isinstance(e, PyXFormError)
    return o


def convert_sheets(sheets, fmt="dict", pretty=False, channel="auto", args=None, render_kw=None) -> Outcome:
    """Render abstract sheets into a container and convert.

    channel: 'auto' (dict object / str for md,csv / bytes for xls,xlsx), 'bytes', 'bytesio', 'path', 'file'
    """
    args = dict(args or {})
    if fmt == "dict_twice":
        # the caller keeps its workbook dict and converts the same object again (a server regenerating a form): the answer is the second result
        data = render.render(sheets, "dict", **(render_kw or {}))
        kw = dict(pretty_print=pretty, **args)
        call_convert(data, **kw)
        return call_convert(data, **kw)
    data = render.render(sheets, fmt, **(render_kw or {}))
    kw = dict(pretty_print=pretty, **args)
    if fmt == "dict":
        return call_convert(data, **kw)
    ft = "." + fmt
    if channel == "auto":
        channel = "str" if fmt in ("md", "csv") else "bytes"
    raw = data.encode("utf-8") if isinstance(data, str) else data
    if channel == "str":
        return call_convert(data, file_type=ft, **kw)
    if channel == "bytes":
        return call_convert(raw, file_type=ft, **kw)
    if channel == "bytes_implicit":
        return call_convert(raw, **kw)
    if channel == "bytesio":
        return call_convert(io.BytesIO(raw), file_type=ft, **kw)
    if channel == "stringio":
        # a text stream holding a text format (what a web framework or a test hands over for pasted text)
        return call_convert(io.StringIO(raw.decode("utf-8")), file_type=ft, **kw)
    if channel == "spooled":
        import tempfile as _t
        with _t.SpooledTemporaryFile(max_size=1 << 20) as fh:  # what web upload handlers hand over
            fh.write(raw)
            fh.seek(0)
            return call_convert(fh, file_type=ft, **kw)
    if channel in ("path", "file", "pathlike", "rawfile", "textfile"):
        d = tempfile.mkdtemp(prefix="verif_c_")
        p = os.path.join(d, (args.get("_stem") or "stemname") + ft)
        kw.pop("_stem", None)
        try:
            with open(p, "wb") as fh:
                fh.write(raw)
            if channel == "path":
                return call_convert(p, **kw)
            if channel == "pathlike":
                import pathlib
                return call_convert(pathlib.Path(p), **kw)
            if channel == "textfile":
                with open(p, encoding="utf-8", newline="") as fh:  # the same file opened in text mode
                    return call_convert(fh, file_type=ft, **kw)
            if channel == "rawfile":
                with open(p, "rb", buffering=0) as fh:  # an unbuffered FileIO: a binary stream that is not a BufferedIOBase
                    return call_convert(fh, file_type=ft, **kw)
            with open(p, "rb") as fh:
                return call_convert(fh, file_type=ft, **kw)
        finally:
            try:
                os.unlink(p)
                os.rmdir(d)
            except OSError:
                pass
    raise ValueError(channel)


def convert_form(form, fmt="dict", pretty=False, channel="auto", render_kw=None) -> Outcome:
    return convert_sheets(form.to_sheets(), fmt=fmt, pretty=pretty, channel=channel, args=form.args, render_kw=render_kw)
