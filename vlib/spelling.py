"""Catalogue of documented equivalent spellings and layout noise (property C13).

Written from the XLSForm documentation and the property statement, not imported from
pyxform's alias tables.  Every transformation maps an abstract workbook
{sheet: (headers, rows)} to an equivalent one; `apply` composes a random selection and
returns what was done plus the predicted row shift of messages / generated names.
"""
from __future__ import annotations

import copy

TRANSLATABLE = {"label", "hint", "guidance_hint", "image", "audio", "video", "big-image", "constraint_message", "required_message"}
KNOWN_SURVEY = TRANSLATABLE | {"type", "name", "relevant", "required", "read_only", "constraint", "calculation", "default", "appearance",
                               "parameters", "choice_filter", "repeat_count", "trigger", "save_to", "no_app_error_string", "disabled"}
KNOWN_CHOICES = {"list_name", "name", "label", "image", "audio", "video", "big-image"}
KNOWN_SETTINGS = {"form_title", "form_id", "version", "default_language", "instance_name", "submission_url", "public_key", "style",
                  "auto_send", "auto_delete", "namespaces", "instance_xmlns", "name", "omit_instanceID", "allow_choice_duplicates"}

# header aliases: canonical -> alternatives (first token only)
SURVEY_ALIASES = {
    "relevant": ["relevance", "bind::relevant"],
    "calculation": ["calculate", "bind::calculate"],
    "label": ["caption"],
    "read_only": ["readonly", "bind::readonly"],
    "constraint_message": ["constraining_message", "bind::jr:constraintMsg"],
    "required_message": ["requiredmsg", "bind::jr:requiredMsg"],
    "repeat_count": ["count", "jr:count"],
    "required": ["bind::required"],
    "constraint": ["bind::constraint"],
    "appearance": ["body::appearance", "control::appearance"],
    "type": ["command"],
    "name": ["value", "tag"],
    "image": ["media::image"],
    "audio": ["media::audio"],
    "video": ["media::video"],
}
CHOICES_ALIASES = {"list_name": ["list name"], "name": ["value"], "label": ["caption"], "image": ["media::image"], "audio": ["media::audio"]}
SETTINGS_ALIASES = {"form_id": ["id_string", "set_form_id"], "form_title": ["title", "set_form_title"]}

TYPE_PREFIX_ALIASES = [
    ("select_one ", ["select one ", "select1 ", "select one from ", "add select one prompt using "]),
    ("select_multiple ", ["select all that apply ", "select all that apply from ", "add select multiple prompt using "]),
    ("select_one_from_file ", ["select one from file "]),
    ("select_multiple_from_file ", ["select multiple from file "]),
]
TYPE_WHOLE_ALIASES = {
    "integer": ["int"], "text": ["string", "q string"], "geopoint": ["gps", "location", "q geopoint", "q location"], "image": ["photo", "add image prompt", "add photo prompt", "q image", "q picture"], "audio": ["add audio prompt", "q audio"], "video": ["add video prompt", "q video"],
    "geoshape": ["q geoshape"], "geotrace": ["q geotrace"],
    "file": ["add file prompt"], "deviceid": ["imei"], "begin group": ["begin_group"], "end group": ["end_group"],
    "begin repeat": ["begin_repeat", "begin looped group", "begin lgroup"], "end repeat": ["end_repeat", "end looped group", "end lgroup"],
}
OR_OTHER = [" or_other", " or other", " or specify other"]
TRUTHY = ["yes", "Yes", "YES", "true", "True", "TRUE", "true()"]
FALSY = ["no", "No", "NO", "false", "False", "FALSE", "false()"]
SMART = {"'": ["‘", "’"], '"': ["“", "”"]}


class WB:
    """Mutable workbook with canonical header bookkeeping."""

    def __init__(self, sheets):
        self.sheets = {}
        for name, (h, rows) in sheets.items():
            self.sheets[name] = {"name": name, "hdrs": list(h), "canon": [self._canon(x) for x in h], "rows": [list(r) for r in rows]}
        self.order = list(sheets)
        self.done = []
        self.shift = {}  # sheet -> (first_row_number_affected (in original numbering), k)

    @staticmethod
    def _canon(h):
        return h

    def out(self):
        res = {}
        for key in self.order:
            s = self.sheets[key]
            res[s["name"]] = (list(s["hdrs"]), [list(r) for r in s["rows"]])
        return res


def _split(h):
    """('label', '::', 'French (fr)') / ('relevant', None, None)"""
    if h is None:
        return None, None, None
    if "::" in h:
        a, b = h.split("::", 1)
        return a.strip(), "::", b
    return h, None, None


def t_header_case(wb, rng):
    key = rng.choice(list(wb.sheets))
    s = wb.sheets[key]
    known = {"survey": KNOWN_SURVEY, "choices": KNOWN_CHOICES, "settings": KNOWN_SETTINGS}.get(key)
    if not known:
        return None
    idxs = [i for i, c in enumerate(s["canon"]) if c is not None and _split(c)[0] in known and _split(s["hdrs"][i])[0] == _split(c)[0]]
    if not idxs:
        return None
    i = rng.choice(idxs)
    base, d, rest = _split(s["hdrs"][i])
    style = rng.randrange(7)
    spaced = base not in ("big-image",) and "_" in base
    nb = [base.upper(), base.title(), "  " + base + " ", base.replace("_", " ") if spaced else base,
          # the words of a header separated by something other than one plain blank: still the same header
          base.replace("_", "  ") if spaced else base.upper(), base.replace("_", "\t") if spaced else base.title(), base.replace("_", "\u00a0") if spaced else base][style]
    if key == "choices" and base == "list_name" and style == 3:
        nb = "list name"
    s["hdrs"][i] = nb if d is None else f"{nb}{d}{rest}"
    return f"header-case:{key}:{base}->{nb!r}"


def t_header_alias(wb, rng):
    key = rng.choice([k for k in wb.sheets if k in ("survey", "choices", "settings")])
    s = wb.sheets[key]
    table = {"survey": SURVEY_ALIASES, "choices": CHOICES_ALIASES, "settings": SETTINGS_ALIASES}[key]
    use_single = any(h is not None and "::" not in h and ":" in h and not h.startswith("jr:") for h in s["hdrs"])
    cands = []
    for i, h in enumerate(s["hdrs"]):
        base, d, rest = _split(h)
        if base in table and s["canon"][i] == h:
            cands.append(i)
    if not cands:
        return None
    i = rng.choice(cands)
    base, d, rest = _split(s["hdrs"][i])
    alts = [a for a in table[base] if not ("::" in a and use_single)]
    if not alts:
        return None
    alt = rng.choice(alts)
    # an alias that itself uses '::' forces the '::' delimiter for the whole sheet: only use it when no header uses single ':' languages
    newh = alt if d is None else f"{alt}{d}{rest}"
    # do not create two headers that are spellings of the same column
    if any(_split(h)[0] in ([base] + table[base]) and j != i and _split(h)[2] == rest for j, h in enumerate(s["hdrs"]) if h):
        return None
    s["hdrs"][i] = newh
    return f"header-alias:{key}:{base}->{alt}"


def t_delimiter(wb, rng):
    """'::' <-> ':' for language headers, sheet-wide, with optional spaces."""
    key = rng.choice([k for k in wb.sheets if k in ("survey", "choices")])
    s = wb.sheets[key]
    dd = [i for i, h in enumerate(s["hdrs"]) if h and "::" in h]
    if not dd:
        return None
    for i in dd:
        base, d, rest = _split(s["hdrs"][i])
        if base.strip().lower().replace(" ", "_") not in TRANSLATABLE or ":" in rest:
            return None
    if any(h and "::" not in h and ":" in h for h in s["hdrs"]):
        return None
    style = rng.choice([":", " : ", ": ", " :: ", ":: "])
    for i in dd:
        base, d, rest = _split(s["hdrs"][i])
        s["hdrs"][i] = f"{base}{style}{rest}"
    return f"delimiter:{key}:'::'->{style!r}"


def _type_col(s):
    for i, c in enumerate(s["canon"]):
        if c == "type":
            return i
    return None


def t_type_alias(wb, rng):
    s = wb.sheets.get("survey")
    ti = _type_col(s) if s else None
    if ti is None:
        return None
    idxs = list(range(len(s["rows"])))
    rng.shuffle(idxs)
    for ri in idxs:
        t = s["rows"][ri][ti]
        if not isinstance(t, str):
            continue
        for pre, alts in TYPE_PREFIX_ALIASES:
            if t.startswith(pre):
                s["rows"][ri][ti] = rng.choice(alts) + t[len(pre):]
                return f"type-alias:{pre.strip()}"
        if t in TYPE_WHOLE_ALIASES:
            s["rows"][ri][ti] = rng.choice(TYPE_WHOLE_ALIASES[t])
            return f"type-alias:{t}"
        for oo in OR_OTHER:
            if t.endswith(oo):
                s["rows"][ri][ti] = t[: -len(oo)] + rng.choice([x for x in OR_OTHER if x != oo])
                return "type-alias:or_other"
    return None


def t_truth(wb, rng):
    s = wb.sheets.get("survey")
    if not s:
        return None
    cols = [i for i, c in enumerate(s["canon"]) if c in ("required", "read_only", "relevant")]
    cells = [(ri, ci) for ri, r in enumerate(s["rows"]) for ci in cols if r[ci] in TRUTHY or r[ci] in FALSY]
    if not cells:
        return None
    ri, ci = rng.choice(cells)
    old = s["rows"][ri][ci]
    s["rows"][ri][ci] = rng.choice([x for x in (TRUTHY if old in TRUTHY else FALSY) if x != old])
    return f"truth:{old}->{s['rows'][ri][ci]}"


SETTINGS_FLAGS = ("allow_choice_duplicates", "omit_instanceid", "omit_instanceID")


def t_settings_truth(wb, rng):
    """yes/no family on the documented settings flags: every spelling of the same truth value is the same setting."""
    s = wb.sheets.get("settings")
    if not s or not s["rows"]:
        return None
    cells = [(0, ci) for ci, h in enumerate(s["hdrs"]) if str(h).strip() in SETTINGS_FLAGS and (s["rows"][0][ci] in TRUTHY or s["rows"][0][ci] in FALSY)]
    if not cells:
        return None
    ri, ci = rng.choice(cells)
    old = s["rows"][ri][ci]
    s["rows"][ri][ci] = rng.choice([x for x in (TRUTHY if old in TRUTHY else FALSY) if x != old])
    return f"settings-truth:{s['hdrs'][ci]}:{old}->{s['rows'][ri][ci]}"


def t_smart_quotes(wb, rng):
    key = rng.choice([k for k in wb.sheets if k in ("survey", "choices")])
    s = wb.sheets[key]
    skip = {"type", "name", "list_name"}
    cells = [(ri, ci) for ri, r in enumerate(s["rows"]) for ci, c in enumerate(r)
             if isinstance(c, str) and s["canon"][ci] not in skip and ("'" in c or '"' in c)]
    if not cells:
        return None
    ri, ci = rng.choice(cells)
    c = s["rows"][ri][ci]
    out = []
    for chx in c:
        if chx in SMART and rng.random() < 0.7:
            out.append(rng.choice(SMART[chx]))
        else:
            out.append(chx)
    s["rows"][ri][ci] = "".join(out)
    return f"smart-quotes:{key}"


def t_whitespace(wb, rng):
    s = wb.sheets.get("survey")
    if not s:
        return None
    cells = [(ri, ci) for ri, r in enumerate(s["rows"]) for ci, c in enumerate(r) if isinstance(c, str) and c]
    if not cells:
        return None
    n = 0
    for _ in range(rng.randint(1, 4)):
        ri, ci = rng.choice(cells)
        c = s["rows"][ri][ci]
        style = rng.randrange(3)
        if style == 0:
            c = rng.choice([" ", "  "]) + c + rng.choice(["", " ", "   "])
        elif style == 1 and " " in c:
            parts = c.split(" ")
            k = rng.randrange(len(parts) - 1)
            parts[k] = parts[k] + rng.choice([" ", "  "])
            c = " ".join(parts)
        else:
            c = c + " "
        s["rows"][ri][ci] = c
        n += 1
    return f"whitespace:survey:{n}"


def t_col_perm(wb, rng):
    key = rng.choice(list(wb.sheets))
    s = wb.sheets[key]
    n = len(s["hdrs"])
    if n < 2:
        return None
    perm = list(range(n))
    rng.shuffle(perm)
    s["hdrs"] = [s["hdrs"][i] for i in perm]
    s["canon"] = [s["canon"][i] for i in perm]
    s["rows"] = [[(r[i] if i < len(r) else None) for i in perm] for r in s["rows"]]
    return f"column-permutation:{key}"


def t_sheet_perm(wb, rng):
    if len(wb.order) < 2:
        return None
    rng.shuffle(wb.order)
    return "sheet-permutation"


def t_sheet_case(wb, rng):
    key = rng.choice(list(wb.sheets))
    s = wb.sheets[key]
    if s["name"] != key:
        return None
    s["name"] = rng.choice([key.upper(), key.title(), key + " ", " " + key.title()])  # "spacing": a stray blank around the name on the sheet tab
    return f"sheet-name-case:{key}->{s['name']}"


def t_blank_rows(wb, rng):
    if wb.shift:
        return None
    key = rng.choice([k for k in wb.sheets if k in ("survey", "choices")])
    s = wb.sheets[key]
    if not s["rows"]:
        return None
    pos = rng.randint(0, len(s["rows"]))
    k = rng.randint(1, 4)
    s["rows"][pos:pos] = [[None] * len(s["hdrs"]) for _ in range(k)]
    wb.shift[key] = (pos + 2, k)  # original row numbers >= pos+2 move by k
    return f"blank-rows:{key}:at{pos}+{k}"


def t_extra_sheet(wb, rng):
    name = rng.choice(["_settings", "_notes", "_survey", "changelog", "readme_for_team", "lookup tables", "_choices", "zzz9", "_entities"])
    if name in wb.sheets:
        return None
    # whatever an unrelated sheet holds is none of the converter's business: broken rows, repeated captions, numbers as captions, nothing at all
    shape = rng.randrange(6)
    if shape == 0:
        hdrs, rows = ["type", "name", "anything"], [["begin group", "x", "y"], ["note", "${broken", "z"]]
    elif shape == 1:
        hdrs, rows = ["year", "year", "label", "label"], [["2023", "2024", "a", "b"]]
    elif shape == 2:
        hdrs, rows = [2023, 2024, 1.5], [[1, 2, 3], ["x", None, "y"]]
    elif shape == 3:
        hdrs, rows = [], []
    elif shape == 4:
        hdrs, rows = ["only header"], []
    else:
        hdrs, rows = [None, "b", None, "b"], [["stray", "1", None, "2"], [None, None, None, None], ["${", "}", "<x>", "&"]]
    wb.sheets[name] = {"name": name, "hdrs": hdrs, "canon": [None] * len(hdrs), "rows": rows}
    wb.order.insert(rng.randint(0, len(wb.order)), name)
    return f"extra-sheet:{name}"


def t_unknown_col(wb, rng):
    key = rng.choice([k for k in wb.sheets if k in ("survey", "settings")])
    s = wb.sheets[key]
    name = rng.choice(["notes", "my_comment", "reviewer", "TODO", "col x"])
    if name in s["hdrs"]:
        return None
    pos = rng.randint(0, len(s["hdrs"]))
    s["hdrs"].insert(pos, name)
    s["canon"].insert(pos, None)
    for r in s["rows"]:
        blank = all(c is None for c in r)
        r.insert(pos, None if blank else rng.choice([None, "remark", "x y", "123"]))
    return f"unknown-column:{key}:{name}"


ALL = [t_header_case, t_header_alias, t_delimiter, t_type_alias, t_truth, t_settings_truth, t_smart_quotes, t_whitespace, t_col_perm, t_sheet_perm,
       t_sheet_case, t_blank_rows, t_extra_sheet, t_unknown_col]
BY_NAME = {f.__name__[2:]: f for f in ALL}


def apply(sheets, rng, n=(1, 6), only=None, steps=None):
    """Compose transformations. If `steps` is a list, a snapshot (sheets, done, shift) is appended after every step."""
    wb = WB(copy.deepcopy(sheets))
    pool = [BY_NAME[x] for x in only] if only else ALL
    k = rng.randint(*n)
    tries = 0
    while len(wb.done) < k and tries < 4 * k + 8:
        tries += 1
        t = rng.choice(pool)
        r = t(wb, rng)
        if r:
            wb.done.append(r)
            if steps is not None:
                steps.append((copy.deepcopy(wb.out()), list(wb.done), dict(wb.shift)))
    return wb.out(), wb.done, wb.shift


def canonical_type(t):
    """Canonical spelling of a type cell (for comparing messages that echo the type)."""
    if not isinstance(t, str):
        return t
    for canon, alts in TYPE_WHOLE_ALIASES.items():
        if t in alts:
            return canon
    for pre, alts in TYPE_PREFIX_ALIASES:
        for a in alts:
            if t.startswith(a):
                t = pre + t[len(a):]
    for oo in OR_OTHER:
        if t.endswith(oo):
            t = t[: -len(oo)] + OR_OTHER[0]
    return t
