"""Abstract form (AF): the source of truth every reference model reads.

A Form is a tree of Rows plus choice lists, settings, entities and external choices.
Cells are kept exactly as they will be written into the sheet, keyed by the column
header as it will be written, so a reference model sees precisely what the author typed.
"""
from __future__ import annotations

import copy
import json


class Row:
    __slots__ = ("kind", "type", "name", "cells", "children", "meta", "rownum", "end_rownum")

    def __init__(self, kind, type, name=None, cells=None, children=None, meta=None):
        self.kind = kind  # 'q' | 'group' | 'repeat' | 'raw' (raw: a literal sheet row, no semantics)
        self.type = type  # text of the type cell ('text', 'select_one l1', 'begin group', ...)
        self.name = name
        self.cells = dict(cells or {})  # header -> text
        self.children = list(children or [])
        self.meta = dict(meta or {})
        self.rownum = None
        self.end_rownum = None

    def is_section(self):
        return self.kind in ("group", "repeat")

    def walk(self, ancestors=()):
        yield self, ancestors
        for c in self.children:
            yield from c.walk(ancestors + (self,))

    def to_json(self):
        return {"kind": self.kind, "type": self.type, "name": self.name, "cells": self.cells,
                "meta": {k: v for k, v in self.meta.items() if isinstance(v, (str, int, float, bool, list, dict, type(None)))},
                "children": [c.to_json() for c in self.children]}

    @staticmethod
    def from_json(d):
        return Row(d["kind"], d["type"], d.get("name"), d.get("cells"), [Row.from_json(c) for c in d.get("children", [])], d.get("meta"))

    def __repr__(self):
        return f"Row({self.kind},{self.type!r},{self.name!r})"


class Form:
    def __init__(self):
        self.survey: list[Row] = []
        self.survey_headers: list[str] | None = None  # explicit column order (after type,name) or None
        self.choices: dict[str, list[dict]] = {}  # list -> [ {header: cell} ] ; includes 'name','label...' keys
        self.choice_headers: list[str] = []  # order of choices columns after 'list_name'
        self.settings: dict[str, str] = {}
        self.entities: dict[str, str] | None = None
        self.external_choices: list[dict] = []  # rows incl. 'list_name'
        self.external_headers: list[str] = []
        self.extra_sheets: dict[str, tuple[list[str], list[list]]] = {}
        self.args: dict = {}  # convert() keyword arguments: form_name, default_language
        self.meta: dict = {}
        self.sheet_order: list[str] | None = None
        self.type_header = "type"
        self.name_header = "name"
        self.list_name_header = "list_name"

    # ------------------------------------------------------------------ traversal
    def walk(self):
        for r in self.survey:
            yield from r.walk()

    def rows_by_name(self):
        return {r.name: (r, anc) for r, anc in self.walk() if r.name}

    def clone(self):
        return copy.deepcopy(self)

    # ------------------------------------------------------------------ sheets
    def flat_survey_rows(self):
        """[(type_text, name, cells, Row, is_end)] in sheet order, assigning row numbers."""
        out = []

        def rec(rows):
            for r in rows:
                if r.kind == "raw":
                    out.append((r.type, r.name, r.cells, r, False))
                    r.rownum = len(out) + 1
                    continue
                out.append((r.type, r.name, r.cells, r, False))
                r.rownum = len(out) + 1
                if r.is_section():
                    rec(r.children)
                    end_type = r.meta.get("end_type") or ("end group" if r.kind == "group" else "end repeat")
                    out.append((end_type, r.meta.get("end_name"), r.meta.get("end_cells", {}), r, True))
                    r.end_rownum = len(out) + 1

        rec(self.survey)
        return out

    def to_sheets(self):
        """OrderedDict sheet -> (headers, rows[list of cells aligned to headers, None = empty])."""
        sheets = {}
        flat = self.flat_survey_rows()
        hdrs = [self.type_header, self.name_header]
        if self.survey_headers is not None:
            for h in self.survey_headers:
                if h not in hdrs:
                    hdrs.append(h)
        for t, n, cells, r, is_end in flat:
            for h in cells:
                if h not in hdrs:
                    hdrs.append(h)
        rows = []
        for t, n, cells, r, is_end in flat:
            row = [None] * len(hdrs)
            row[0] = t
            row[1] = n
            for h, v in cells.items():
                row[hdrs.index(h)] = v
            rows.append(row)
        sheets["survey"] = (hdrs, rows)
        if self.choices or self.choice_headers:
            ch = [self.list_name_header] + [h for h in self.choice_headers]
            for lst in self.choices.values():
                for c in lst:
                    for h in c:
                        if h not in ch and h != "__blank":
                            ch.append(h)
            crow = []
            for ln, lst in self.choices.items():
                for c in lst:
                    if c.get("__blank"):
                        crow.append([None] * len(ch))
                        continue
                    row = [None] * len(ch)
                    row[0] = ln
                    for h, v in c.items():
                        row[ch.index(h)] = v
                    crow.append(row)
            sheets["choices"] = (ch, crow)
        if self.settings:
            sh = list(self.settings)
            sheets["settings"] = (sh, [[self.settings[h] for h in sh]])
        if self.entities is not None:
            eh = list(self.entities)
            sheets["entities"] = (eh, [[self.entities[h] for h in eh]])
        if self.external_choices:
            xh = list(self.external_headers)
            for c in self.external_choices:
                for h in c:
                    if h not in xh:
                        xh.append(h)
            sheets["external_choices"] = (xh, [[c.get(h) for h in xh] for c in self.external_choices])
        for name, (h, rws) in self.extra_sheets.items():
            sheets[name] = (list(h), [list(r) for r in rws])
        if self.sheet_order:
            sheets = {k: sheets[k] for k in self.sheet_order if k in sheets} | {k: v for k, v in sheets.items() if k not in self.sheet_order}
        return sheets

    # ------------------------------------------------------------------ (de)serialisation for replay files
    def to_json(self):
        return {
            "survey": [r.to_json() for r in self.survey],
            "survey_headers": self.survey_headers,
            "choices": self.choices,
            "choice_headers": self.choice_headers,
            "settings": self.settings,
            "entities": self.entities,
            "external_choices": self.external_choices,
            "external_headers": self.external_headers,
            "extra_sheets": {k: [v[0], v[1]] for k, v in self.extra_sheets.items()},
            "args": self.args,
            "sheet_order": self.sheet_order,
            "hdr": [self.type_header, self.name_header, self.list_name_header],
            "meta": {k: v for k, v in self.meta.items() if isinstance(v, (str, int, float, bool, list, dict, type(None)))},
        }

    @staticmethod
    def from_json(d):
        f = Form()
        f.survey = [Row.from_json(r) for r in d["survey"]]
        f.survey_headers = d.get("survey_headers")
        f.choices = d.get("choices", {})
        f.choice_headers = d.get("choice_headers", [])
        f.settings = d.get("settings", {})
        f.entities = d.get("entities")
        f.external_choices = d.get("external_choices", [])
        f.external_headers = d.get("external_headers", [])
        f.extra_sheets = {k: (v[0], v[1]) for k, v in d.get("extra_sheets", {}).items()}
        f.args = d.get("args", {})
        f.sheet_order = d.get("sheet_order")
        if d.get("hdr"):
            f.type_header, f.name_header, f.list_name_header = d["hdr"]
        f.meta = d.get("meta", {})
        return f

    def dumps(self):
        return json.dumps(self.to_json(), ensure_ascii=False, sort_keys=True)


def sheets_to_md(sheets):
    """Readable markdown (used for samples/witnesses; the md *renderer* lives in render.py)."""
    lines = []
    for name, (hdrs, rows) in sheets.items():
        lines.append(f"| {name} |")
        lines.append("| | " + " | ".join(str(h) for h in hdrs) + " |")
        for r in rows:
            lines.append("| | " + " | ".join("" if c is None else str(c).replace("|", "\\|").replace("\n", "\\n") for c in r) + " |")
    return "\n".join(lines)
