"""Orchestrator: ./check <property> [--tier quick|thorough] [--replay PATH]

Cuts the property's workload into shards, runs each as `python -m vlib.worker` in its
own subprocess (with timeout), aggregates the JSONL event logs, applies the 3-valued
verdict discipline, classifies violations against KNOWN_FINDINGS.json and writes the
evidence file.

exit 0 = held on everything observed; exit 1 = VIOLATION printed; exit 3 = inconclusive.
"""
from __future__ import annotations

import argparse
import hashlib
import importlib
import json
import os
import shutil
import subprocess
import sys
import tempfile
import time

VERIF = os.path.dirname(os.path.dirname(os.path.abspath(__file__)))
REPO = os.environ.get("VERIF_REPO", "/repo")
PY = "/venv/bin/python"


def env_for_workers(extra=None):
    env = dict(os.environ)
    env["PYXFORM_VERIF"] = "1"
    env["VERIF_REPO"] = REPO
    env["PYTHONPATH"] = os.pathsep.join([REPO, VERIF, os.path.join(VERIF, ".deps")])
    env.setdefault("PYTHONHASHSEED", "0")
    env["PYTHONDONTWRITEBYTECODE"] = "1"
    if extra:
        env.update(extra)
    return env


def ensure_deps():
    deps = os.path.join(VERIF, ".deps")
    if os.path.isdir(os.path.join(deps, "icontract")):
        return
    os.makedirs(deps, exist_ok=True)
    subprocess.run([PY, "-m", "pip", "install", "-q", "--no-index", "--find-links", "/opt/veriftools/wheels",
                    "--target", deps, "icontract"], check=False, capture_output=True)


def load_known():
    p = os.path.join(VERIF, "KNOWN_FINDINGS.json")
    if not os.path.exists(p):
        return {}
    d = json.load(open(p))
    return {(f["property"], f["key"]): f for f in d.get("findings", [])}


def run_shards(prop, tier, seed, plan, scratch):
    n = plan["shards"]
    timeout = plan.get("timeout", 600)
    jobs = min(int(os.environ.get("VERIF_JOBS", "16")), n)
    pending = list(range(n))
    running = {}
    results = {}
    env_extra = plan.get("env", {})
    t0 = time.time()
    while pending or running:
        while pending and len(running) < jobs:
            i = pending.pop(0)
            out = os.path.join(scratch, f"shard{i}.jsonl")
            err = open(os.path.join(scratch, f"shard{i}.err"), "wb")
            shard_env = env_for_workers(env_extra)
            if "per_shard_env" in plan:
                shard_env.update(plan["per_shard_env"](i))
            shard_env["TMPDIR"] = os.path.join(scratch, f"tmp{i}")
            os.makedirs(shard_env["TMPDIR"], exist_ok=True)
            p = subprocess.Popen([PY, "-m", "vlib.worker", prop, tier, str(seed), str(i), str(n), out],
                                 cwd=VERIF, env=shard_env, stdout=err, stderr=subprocess.STDOUT)
            running[i] = (p, time.time(), out, err)
        for i, (p, ts, out, err) in list(running.items()):
            rc = p.poll()
            if rc is None:
                if time.time() - ts > timeout:
                    p.kill()
                    p.wait()
                    err.close()
                    results[i] = ("timeout", out)
                    del running[i]
                continue
            err.close()
            results[i] = ("ok" if rc == 0 else f"rc={rc}", out)
            del running[i]
        time.sleep(0.05)
    return results, time.time() - t0


def main(argv=None):
    # witnesses may hold text no encoding can carry (half a surrogate pair): the report must still be printed
    for st in (sys.stdout, sys.stderr):
        try:
            st.reconfigure(errors="backslashreplace")
        except (AttributeError, ValueError):
            pass
    ap = argparse.ArgumentParser()
    ap.add_argument("prop")
    ap.add_argument("--tier", default=os.environ.get("VERIF_TIER", "quick"))
    ap.add_argument("--seed", type=int, default=int(os.environ.get("VERIF_SEED", "0")))
    ap.add_argument("--replay")
    ap.add_argument("--keep", action="store_true")
    a = ap.parse_args(argv)
    if a.tier not in ("quick", "thorough"):
        a.tier = "quick"
    prop = a.prop
    ensure_deps()
    sys.path[:0] = [REPO, VERIF, os.path.join(VERIF, ".deps")]
    os.environ["PYXFORM_VERIF"] = "1"
    mon = importlib.import_module(f"vlib.monitors.{prop}")
    if a.replay:
        w = json.load(open(a.replay))
        if (w.get("witness") or {}).get("klass") == "suite":
            from . import suite
            rc = suite.replay(prop, w)
        else:
            rc = mon.replay(w)
        sys.exit(rc)
    t0 = time.time()
    plan = mon.plan(a.tier, a.seed)
    scratch = tempfile.mkdtemp(prefix=f"verif_{prop}_")
    try:
        results, wall_shards = run_shards(prop, a.tier, a.seed, plan, scratch)
        agg = aggregate(prop, mon, plan, results, scratch, a)
    finally:
        if not a.keep:
            shutil.rmtree(scratch, ignore_errors=True)
    agg["wall_s"] = round(time.time() - t0, 2)
    rc = finish(prop, mon, plan, agg, a)
    sys.exit(rc)


def aggregate(prop, mon, plan, results, scratch, a):
    evaluations = 0
    sigs = set()
    counters = {}
    samples = []
    viols = []
    obs = []
    incomplete = []
    for i, (status, out) in sorted(results.items()):
        done = False
        if os.path.exists(out):
            with open(out, encoding="utf-8") as fh:
                for line in fh:
                    try:
                        r = json.loads(line)
                    except ValueError:
                        continue
                    t = r.get("t")
                    if t == "case":
                        evaluations += r.get("n", 1)
                        if r.get("sig") is not None:
                            sigs.add(r["sig"])
                    elif t == "viol":
                        viols.append(r)
                    elif t == "ctr":
                        counters[r["k"]] = counters.get(r["k"], 0) + r["n"]
                    elif t == "sample":
                        if len(samples) < 5:
                            samples.append(r["v"])
                    elif t == "obs":
                        obs.append(r)
                    elif t == "done":
                        done = True
        if status != "ok" or not done:
            tail = ""
            try:
                tail = open(os.path.join(scratch, f"shard{i}.err"), "rb").read()[-1500:].decode("utf-8", "replace")
            except OSError:
                pass
            incomplete.append((i, status, tail))
    agg = dict(evaluations=evaluations, sigs=sigs, counters=counters, samples=samples, viols=viols, obs=obs,
               incomplete=incomplete, shards=len(results))
    if hasattr(mon, "aggregate"):
        mon.aggregate(agg, plan, a.tier, a.seed)
    return agg


def finish(prop, mon, plan, agg, a):
    known = load_known()
    # ---- classify violations by mechanism key
    by_key = {}
    for v in agg["viols"]:
        by_key.setdefault(v["key"], []).append(v)
    new_keys = [k for k in by_key if (prop, k) not in known]
    known_hit = [k for k in by_key if (prop, k) in known]
    for k in sorted(known_hit):
        print(f"KNOWN-FINDING: property={prop} {known[(prop, k)]['what']} [key={k}; seen {len(by_key[k])}x this run]")
    rdir = os.path.join(VERIF, "out", "replay", prop)
    vio_lines = 0
    for k in sorted(new_keys):
        os.makedirs(rdir, exist_ok=True)
        v = by_key[k][0]
        # prefer the smallest witness
        v = min(by_key[k], key=lambda r: len(json.dumps(r.get("witness", {}))))
        h = hashlib.sha1(k.encode()).hexdigest()[:12]
        path = os.path.join(rdir, f"{h}.json")
        with open(path, "w", encoding="utf-8", errors="backslashreplace") as fh:
            json.dump({"property": prop, "key": k, "what": v["what"], "witness": v.get("witness"), "seed": a.seed,
                       "tier": a.tier, "count": len(by_key[k])}, fh, ensure_ascii=False, indent=1)
        if vio_lines < 25:
            print(f"VIOLATION property={prop} replay={path}")
            print(f"  key={k} ({len(by_key[k])}x) {v['what'][:400]}")
        vio_lines += 1
    # ---- inconclusive?
    reasons = []
    for i, status, tail in agg["incomplete"]:
        reasons.append(f"shard {i} {status}: {tail.strip().splitlines()[-1] if tail.strip() else ''}")
    floors = plan.get("floors", {})
    for k, mn in floors.items():
        got = agg["evaluations"] if k == "evaluations" else (len(agg["sigs"]) if k == "distinct" else agg["counters"].get(k, 0))
        if got < mn:
            reasons.append(f"floor {k}: {got} < {mn}")
    verdict = "violated" if new_keys else ("inconclusive" if reasons else "held")
    # ---- evidence
    cov = {
        "evaluations": int(agg["evaluations"]),
        "distinct_nontrivial": len(agg["sigs"]),
        "rule": getattr(mon, "RULE", ""),
        "samples": agg["samples"][:5] or ["(no sample recorded)"],
        "counters": dict(sorted(agg["counters"].items())),
        "shards": agg["shards"],
        "floors": floors,
    }
    if plan.get("exhaustive"):
        cov["exhaustive"] = True
    cov.update(agg.get("extra_coverage", {}))
    ev = {
        "property_id": prop,
        "tier": a.tier,
        "seed": a.seed,
        "level": getattr(mon, "LEVEL", "exploration"),
        "coverage": cov,
        "assumptions": getattr(mon, "ASSUMPTIONS", []),
        "wall_s": agg["wall_s"],
        "violations": len(new_keys),
        "known_findings_hit": sorted(known_hit),
        "verdict": verdict,
        "inconclusive_reasons": reasons,
        "technique": getattr(mon, "TECHNIQUE", "runtime monitoring"),
    }
    # runs against a deliberately broken tree (tools/mutant_matrix.py etc.) must not overwrite the evidence of the real tree
    evdir = os.environ.get("VERIF_EVIDENCE_DIR") or os.path.join(VERIF, "evidence")
    os.makedirs(evdir, exist_ok=True)
    with open(os.path.join(evdir, f"{prop}.json"), "w", encoding="utf-8", errors="backslashreplace") as fh:
        json.dump(ev, fh, ensure_ascii=False, indent=1)
    ctr = ", ".join(f"{k}={v}" for k, v in sorted(agg["counters"].items()))
    print(f"[{prop}] tier={a.tier} seed={a.seed} verdict={verdict} evaluations={agg['evaluations']} "
          f"distinct={len(agg['sigs'])} new_violation_keys={len(new_keys)} known={len(known_hit)} wall={agg['wall_s']}s")
    if ctr:
        print(f"[{prop}] counters: {ctr}")
    if verdict == "violated":
        return 1
    if verdict == "inconclusive":
        for r in reasons[:10]:
            print(f"INCONCLUSIVE property={prop} reason={r}")
        return 3
    return 0


if __name__ == "__main__":
    main()
