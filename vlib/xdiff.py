"""Tree diff between two XForm texts, with options for the unordered parts (C13 canon)."""
from __future__ import annotations

from lxml import etree

from . import xf as X


def _ident(el):
    for a in ("nodeset", "ref", "id", "lang"):
        v = el.get(a)
        if v is not None:
            return f"[{a}={v}]"
    return ""


def canon(el, unordered=False, drop_ws=True):
    """Nested tuple. unordered=True sorts: attributes (always), translations, text entries, values in a
    text, and fields inside a secondary-instance item (semantically unordered collections)."""
    tag = el.tag if isinstance(el.tag, str) else "#comment"
    attrs = tuple(sorted(el.attrib.items()))
    kids = [c for c in el if isinstance(c.tag, str)]
    text = el.text or ""
    if kids and drop_ws and text.strip() == "":
        text = ""
    sub = []
    for c in kids:
        tail = c.tail or ""
        if drop_ws and tail.strip() == "":
            tail = ""
        sub.append((canon(c, unordered, drop_ws), tail))
    if unordered:
        loc = X.local(tag)
        if loc in ("itext", "translation", "text", "item") and all(t == "" for _, t in sub):
            sub = sorted(sub, key=repr)
        elif loc == "model":
            # order of binds/instances relative to each other is kept; nothing sorted here
            pass
    return (tag, attrs, text, tuple(sub))


def parse(text):
    return etree.fromstring(text.encode("utf-8"))


def diffs(a_text, b_text, unordered=False, limit=5):
    """List of human-readable differences (empty = equal)."""
    try:
        a, b = parse(a_text), parse(b_text)
    except etree.XMLSyntaxError as e:
        return [f"unparseable: {e}"]
    ca, cb = canon(a, unordered), canon(b, unordered)
    out = []
    if ca == cb:
        return out
    _walk(a, b, ca, cb, "", out, limit, unordered)
    if not out:
        out.append("documents differ (order of unordered parts)")
    return out


def _walk(ea, eb, ca, cb, path, out, limit, unordered):
    if len(out) >= limit:
        return
    here = f"{path}/{X.local(ca[0])}{_ident(ea)}"
    if ca[0] != cb[0]:
        out.append(f"{here}: element {X.local(ca[0])} vs {X.local(cb[0])}")
        return
    if ca[1] != cb[1]:
        da, db = dict(ca[1]), dict(cb[1])
        for k in sorted(set(da) | set(db)):
            if da.get(k) != db.get(k):
                out.append(f"{here}: @{X.local(k)} {da.get(k)!r} vs {db.get(k)!r}")
    if ca[2] != cb[2]:
        out.append(f"{here}: text {ca[2]!r} vs {cb[2]!r}")
    ka = [c for c in ea if isinstance(c.tag, str)]
    kb = [c for c in eb if isinstance(c.tag, str)]
    sa, sb = ca[3], cb[3]
    if unordered and X.local(ca[0]) in ("itext", "translation", "text", "item"):
        # compare as multisets
        ma = sorted(sa, key=repr)
        mb = sorted(sb, key=repr)
        if ma != mb:
            onlya = [x for x in ma if x not in mb]
            onlyb = [x for x in mb if x not in ma]
            out.append(f"{here}: unordered children differ; only-first={_brief(onlya)} only-second={_brief(onlyb)}")
        return
    if len(sa) != len(sb):
        na = [X.local(c[0][0]) + _ident(k) for c, k in zip(sa, ka)]
        nb = [X.local(c[0][0]) + _ident(k) for c, k in zip(sb, kb)]
        onlya = [x for x in na if x not in nb]
        onlyb = [x for x in nb if x not in na]
        out.append(f"{here}: {len(sa)} vs {len(sb)} children; only-first={onlya[:4]} only-second={onlyb[:4]}")
        return
    for (cca, ta), (ccb, tb), xa, xb in zip(sa, sb, ka, kb):
        if ta != tb:
            out.append(f"{here}: tail text {ta!r} vs {tb!r}")
        if cca != ccb:
            _walk(xa, xb, cca, ccb, here, out, limit, unordered)


def _brief(xs):
    return [f"{X.local(x[0][0])}{dict(x[0][1])}:{x[0][2][:40]!r}" for x in xs[:3]]
