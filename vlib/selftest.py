"""Setup-time self test: the renderers and the XForm reader work on this machine."""
import io


def main():
    import xlrd
    from . import render, xf
    sheets = {"survey": (["type", "name", "label"], [["text", "q1", "Héllo \U0001F600"], ["integer", "q2", 3], [None, None, None], ["decimal", "q3", 2.5], ["note", "q4", True]])}
    b = render.to_xls(sheets)
    wb = xlrd.open_workbook(file_contents=b)
    sh = wb.sheet_by_name("survey")
    assert sh.cell(1, 2).value == "Héllo \U0001F600", sh.cell(1, 2).value
    assert sh.cell(2, 2).value == 3.0 and sh.cell(4, 2).value == 2.5 and sh.cell(5, 2).ctype == 4
    from openpyxl import load_workbook
    wb2 = load_workbook(io.BytesIO(render.to_xlsx(sheets)))
    assert wb2["survey"].cell(2, 3).value == "Héllo \U0001F600"
    try:
        xf.expat_check('<a xmlns:p="u"><q:b/></a>')
        raise SystemExit("expat did not reject an unbound prefix")
    except xf.XFError:
        pass
    print("selftest ok")
