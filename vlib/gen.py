"""Seeded generators for abstract forms (W-core and friends).

Everything is driven by a random.Random and a cfg dict, so a (seed, case index) pair
reproduces a form exactly.  The generator only produces forms that the XLSForm
documentation says are valid, so a rejection of a generated W-core form is itself an
observation (counted; the acceptance floor makes a run inconclusive when too many are
rejected).
"""
from __future__ import annotations

import random

from .model import Form, Row

# canonical type spellings (aliases are C13's business)
INPUT_TYPES = ["text", "integer", "decimal", "date", "time", "dateTime", "geopoint", "geotrace",
               "geoshape", "barcode", "note", "acknowledge"]
UPLOAD_TYPES = ["image", "audio", "video", "file"]
HIDDEN_TYPES = ["calculate", "hidden"]
META_TYPES = ["start", "end", "today", "deviceid", "phonenumber", "username", "email"]
SELECT_TYPES = ["select_one", "select_multiple", "rank"]

DEFAULT_CFG = dict(
    n_rows=(3, 14), max_depth=3, p_group=0.18, p_repeat=0.14, max_children=5,
    langs=[], p_translated=0.8, p_sparse=0.3, unsuffixed_too=0.3,
    p_select=0.25, n_lists=(1, 3), list_size=(1, 5), p_or_other=0.0, p_choice_filter=0.0,
    p_randomize=0.0, p_choice_extra=0.3, p_choice_media=0.0, p_from_file=0.0, p_select_from_repeat=0.0,
    p_upload=0.08, p_hidden=0.12, p_meta=0.06, p_range=0.04,
    p_hint=0.3, p_guidance=0.0, p_media=0.0,
    p_relevant=0.25, p_required=0.2, p_readonly=0.1, p_constraint=0.2, p_calc_on_visible=0.05,
    p_constraint_msg=0.5, p_required_msg=0.3,
    p_ref=0.6, p_label_ref=0.15, p_default=0.2, p_dyn_default=0.4, p_trigger=0.0,
    p_appearance=0.15, p_parameters=0.3, p_repeat_count=0.3, p_section_label=0.8,
    p_bind_extra=0.0, p_instance_extra=0.0, p_body_extra=0.0,
    p_settings=0.5, name_style="mixed", p_group_logic=0.3, p_disabled=0.0,
    hostile_text=False, audit=0.0, p_choice_nolabel=0.0, p_choice_label_ref=0.0, p_search=0.0, p_section_media=0.0, p_noapp=0.0, p_msg_ref=0.0,
)

PLAIN_NAMES = ["age", "name1", "dob", "village", "hh", "crop", "income", "gps", "photo1", "notes", "visit",
               "member", "child", "plot", "animal", "water", "school", "clinic", "road", "shop", "farm",
               "yield1", "rain", "soil", "seed1", "tool", "loan", "bank", "phone", "email1"]
ADV_STEMS = ["r", "r1", "r_", "rr", "a", "ab", "a-b", "a.b", "_x", "x_", "q", "q1", "q10", "Q2", "n", "nn", "g", "g1",
             "item", "items", "root", "value", "labelx", "ref", "tgt", "tgt1", "o", "o1", "é", "nm", "data1", "meta1",
             "count_", "other_", "x-1", "y.z", "_", "__a", "hint", "hintx", "guidance_hint_x", "labelz", "jr", "itext", "output"]


EXOTIC_STEMS = ["an\u0303o", "e\u0301cole", "a\u0308rger", "año", "école", "straße", "имя", "名前", "o\u0302te", "nai\u0308ve", "code", "zone", "Ωmega", "_x\u0327"]
EXOTIC_NS = 'ex="http://example.org/ex" kb="http://kb.example/x"'


class Names:
    def __init__(self, rng, style):
        self.rng = rng
        self.style = style
        self.used = set()
        self.i = 0

    def new(self, kind="q"):
        for _ in range(200):
            st = self.style
            if st == "mixed":
                st = self.rng.choice(["plain", "adv"])
            if st == "exotic":
                # names that are valid XML names but not plain ASCII words: decomposed letters (base + combining mark), composed non-ASCII letters,
                # and names with a prefix that the form's `namespaces` setting declares (EXOTIC_NS)
                base = self.rng.choice(EXOTIC_STEMS)
                n = base if self.rng.random() < 0.6 else base + self.rng.choice(["1", "_b", "\u0301x", "é"])
                if self.rng.random() < 0.3:
                    n = self.rng.choice(["ex:", "kb:"]) + n
            elif st == "plain":
                base = self.rng.choice(PLAIN_NAMES)
                n = base if self.rng.random() < 0.5 else f"{base}_{self.rng.randrange(1, 30)}"
            else:
                base = self.rng.choice(ADV_STEMS)
                n = base if self.rng.random() < 0.6 else base + self.rng.choice(["1", "2", "_a", "-c", ".d", "0"])
            low = n.lower()
            if low in self.used or low in ("meta", "data", "entity", "instanceid", "instancename", "audit", "label", "name"):
                continue
            if low.endswith("_count") or low.endswith("_other"):
                continue
            # generated helpers of other names must not collide: x_count / x_other
            if any(low == u + "_count" or low == u + "_other" or u == low + "_count" or u == low + "_other" for u in self.used):
                continue
            if low.startswith("generated_") or low.startswith("reserved_name"):
                continue
            self.used.add(low)
            return n
        self.i += 1
        n = f"zz{self.i}"
        self.used.add(n)
        return n


def merged(cfg):
    c = dict(DEFAULT_CFG)
    c.update(cfg or {})
    return c


WORDS = ["alpha", "beta", "gamma", "delta", "omega", "kappa", "sigma", "theta", "lambda", "zeta"]


def text_for(rng, cfg, row_name, kind, lang):
    """Unique, self-identifying text for (row, kind, language)."""
    # the marker must not contain the language name itself (a substring test on it once masked a defect)
    code = "nolang" if lang is None else (f"L{cfg['langs'].index(lang)}" if lang in cfg.get("langs", []) else "Lx")
    tag = f"{kind}.{row_name}.{code}"
    if cfg.get("hostile_text"):
        from .hostile import hostile
        return hostile(rng, tag)
    return f"{tag} {rng.choice(WORDS)}"


def lang_header(base, lang, cfg):
    if lang is None:
        return base
    d = cfg.get("delim", "::")
    return f"{base}{d}{lang}"


def gen_form(rng: random.Random, cfg=None) -> Form:
    cfg = merged(cfg)
    if (cfg.get("delim") or "").strip() == ":" and (cfg["p_bind_extra"] or cfg["p_instance_extra"] or cfg["p_body_extra"]):
        cfg["delim"] = "::"  # single-colon delimiters are only honoured when no header in the sheet uses '::'
    f = Form()
    names = Names(rng, cfg["name_style"])
    f.meta["langs"] = list(cfg["langs"])
    # ---------------------------------------------------------------- choice lists
    n_lists = rng.randint(*cfg["n_lists"])
    list_names = []
    for i in range(n_lists):
        ln = rng.choice(["l", "lst", "opts", "yn", "c"]) + str(i + 1)
        list_names.append(ln)
    # ---------------------------------------------------------------- skeleton
    budget = [rng.randint(*cfg["n_rows"])]

    def make_children(depth, in_repeat):
        rows = []
        n = rng.randint(1, cfg["max_children"])
        for _ in range(n):
            if budget[0] <= 0 and rows:
                break
            budget[0] -= 1
            x = rng.random()
            if depth < cfg["max_depth"] and x < cfg["p_group"]:
                g = Row("group", "begin group", names.new("g"))
                g.children = make_children(depth + 1, in_repeat)
                rows.append(g)
            elif depth < cfg["max_depth"] and x < cfg["p_group"] + cfg["p_repeat"]:
                g = Row("repeat", "begin repeat", names.new("r"))
                g.children = make_children(depth + 1, True)
                rows.append(g)
            else:
                rows.append(Row("q", None, names.new("q")))
        return rows

    while budget[0] > 0:
        f.survey.extend(make_children(0, False))
    # make sure at least one visible question exists at top
    # ---------------------------------------------------------------- types
    all_rows = list(f.walk())
    used_lists = set()
    for r, anc in all_rows:
        if r.kind != "q":
            continue
        x = rng.random()
        acc = 0.0
        t = None
        for p, choices in ((cfg["p_select"], "select"), (cfg["p_upload"], "upload"), (cfg["p_hidden"], "hidden"),
                           (cfg["p_meta"], "meta"), (cfg["p_range"], "range")):
            acc += p
            if x < acc:
                t = choices
                break
        if t == "select":
            st = rng.choice(SELECT_TYPES)
            ln = rng.choice(list_names)
            used_lists.add(ln)
            r.type = f"{st} {ln}"
            r.meta.update(select=st, list=ln)
            if st != "rank" and rng.random() < cfg["p_or_other"]:
                r.type += " or_other"
                r.meta["or_other"] = True
        elif t == "upload":
            r.type = rng.choice(UPLOAD_TYPES)
        elif t == "hidden":
            r.type = rng.choice(HIDDEN_TYPES)
        elif t == "meta":
            r.type = rng.choice(META_TYPES)
        elif t == "range":
            r.type = "range"
        else:
            r.type = rng.choice(INPUT_TYPES)
    # metadata names conventionally equal to their type; keep generated names (allowed)
    # ---------------------------------------------------------------- choices
    langs = cfg["langs"]
    for ln in list_names:
        translated = bool(langs) and rng.random() < cfg["p_translated"]
        n = rng.randint(*cfg["list_size"])
        rows = []
        extra_cols = []
        if rng.random() < cfg["p_choice_extra"]:
            extra_cols = rng.sample(["region", "code", "grp", "lvl"], rng.randint(1, 2))
        for k in range(n):
            c = {"name": rng.choice(["a", "b", "c", "opt", "x", "1", "2", "yes", "no"]) + str(k)}
            if translated:
                for L in langs:
                    if rng.random() > cfg["p_sparse"] or L == langs[0]:
                        c[lang_header("label", L, cfg)] = text_for(rng, cfg, f"{ln}-{k}", "clabel", L)
                if rng.random() < cfg["unsuffixed_too"]:
                    c["label"] = text_for(rng, cfg, f"{ln}-{k}", "clabel", None)
            else:
                c["label"] = text_for(rng, cfg, f"{ln}-{k}", "clabel", None)
            if rng.random() < cfg["p_choice_nolabel"]:
                for h in [h for h in c if h.startswith("label")]:
                    del c[h]
            for ec in extra_cols:
                if rng.random() < 0.75:
                    c[ec] = f"{ec}.{ln}-{k}"
            if rng.random() < cfg["p_choice_media"]:
                if langs and rng.random() < 0.5:
                    c[lang_header("image", rng.choice(langs), cfg)] = f"img_{ln}_{k}.png"
                else:
                    c["image"] = f"img_{ln}_{k}.png"
            rows.append(c)
        f.choices[ln] = rows
    # ---------------------------------------------------------------- cells
    qrows = [(r, anc) for r, anc in all_rows]
    targets = [r for r, anc in all_rows if r.kind == "q" and r.type not in ("note",)]

    def pick_ref(row, anc, allow_later=True):
        cands = [t for t in targets if t is not row]
        if not cands:
            return None
        return rng.choice(cands)

    marker_i = [0]

    def expr(row, anc, col):
        """A boolean-ish expression with 0-2 references and a unique marker literal."""
        marker_i[0] += 1
        mk = f"'{col}.{row.name}'"
        parts = []
        nref = 0
        if rng.random() < cfg["p_ref"]:
            nref = 1 if rng.random() < 0.7 else 2
        for _ in range(nref):
            t = pick_ref(row, anc)
            if t is None:
                continue
            form = rng.randrange(5)
            if form == 0:
                parts.append(f"${{{t.name}}} != {mk}")
            elif form == 1:
                parts.append(f"string-length(${{{t.name}}}) > {rng.randrange(9)}")
            elif form == 2:
                parts.append(f"${{{t.name}}} = {rng.randrange(100)}")
            elif form == 3:
                parts.append(f"not(${{{t.name}}} = '')")
            else:
                parts.append(f"selected(${{{t.name}}}, 'a')")
        if not parts or rng.random() < 0.5:
            parts.append(f". != {mk}" if col == "constraint" else f"{mk} != ''")
        return rng.choice([" and ", " or "]).join(parts)

    def put_text(row, base, kind):
        """label/hint/... with language variants."""
        if langs and rng.random() < cfg["p_translated"]:
            some = False
            for L in langs:
                if rng.random() > cfg["p_sparse"]:
                    row.cells[lang_header(base, L, cfg)] = text_for(rng, cfg, row.name, kind, L)
                    some = True
            if not some:
                row.cells[lang_header(base, langs[0], cfg)] = text_for(rng, cfg, row.name, kind, langs[0])
            if rng.random() < cfg["unsuffixed_too"]:
                row.cells[base] = text_for(rng, cfg, row.name, kind, None)
        else:
            row.cells[base] = text_for(rng, cfg, row.name, kind, None)

    for r, anc in qrows:
        in_repeat = any(a.kind == "repeat" for a in anc)
        if r.is_section():
            if rng.random() < cfg["p_section_label"]:
                put_text(r, "label", "label")
            if rng.random() < cfg["p_group_logic"]:
                r.cells["relevant"] = expr(r, anc, "relevant")
            if rng.random() < cfg["p_group_logic"] * 0.3:
                r.cells[rng.choice(["read_only", "required"])] = rng.choice(["yes", "true()", "no", "TRUE"])
            if r.kind == "repeat" and rng.random() < cfg["p_repeat_count"]:
                t = pick_ref(r, anc)
                tt = [x for x in targets if x.type in ("integer",) and not _inside(x, r)]
                if tt and rng.random() < 0.5:
                    r.cells["repeat_count"] = f"${{{rng.choice(tt).name}}}"
                elif tt and rng.random() < 0.5:
                    a, b = rng.choice(tt).name, rng.choice(tt).name
                    r.cells["repeat_count"] = rng.choice([f"${{{a}}} + 1", f"${{{a}}} + ${{{b}}}", f"${{{a}}} * ${{{b}}}", f"${{{a}}} div 2 + ${{{b}}}", f"2 * ${{{a}}}"])
                else:
                    r.cells["repeat_count"] = str(rng.randint(1, 5))
            if r.kind == "group" and rng.random() < cfg["p_appearance"]:
                r.cells["appearance"] = "field-list"
            if rng.random() < cfg["p_section_media"]:
                m = rng.choice(["image", "audio"])
                if langs and rng.random() < 0.5:
                    r.cells[lang_header(m, rng.choice(langs), cfg)] = f"{m}_{r.name}.bin"
                else:
                    r.cells[m] = f"{m}_{r.name}.bin"
                if rng.random() < 0.5:
                    for h in [h for h in r.cells if h.startswith("label")]:
                        del r.cells[h]
            continue
        t = r.type
        base_t = t.split(" ")[0]
        visible = base_t not in HIDDEN_TYPES and base_t not in META_TYPES
        if visible:
            put_text(r, "label", "label")
            if rng.random() < cfg["p_label_ref"] and "label" in r.cells:
                tg = pick_ref(r, anc)
                if tg is not None:
                    r.cells["label"] = r.cells["label"] + f" ${{{tg.name}}} end"
            if rng.random() < cfg["p_hint"]:
                put_text(r, "hint", "hint")
            if rng.random() < cfg["p_guidance"]:
                put_text(r, "guidance_hint", "guidance")
            if rng.random() < cfg["p_media"]:
                m = rng.choice(["image", "audio", "video"])
                if langs and rng.random() < 0.6:
                    r.cells[lang_header(m, rng.choice(langs), cfg)] = f"{m}_{r.name}.bin"
                else:
                    r.cells[m] = f"{m}_{r.name}.bin"
        if base_t == "calculate":
            r.cells["calculation"] = _calc_expr(rng, r, pick_ref(r, anc))
        if base_t in META_TYPES:
            continue
        if rng.random() < cfg["p_relevant"]:
            r.cells["relevant"] = expr(r, anc, "relevant")
        if visible and base_t != "note":
            if rng.random() < cfg["p_required"]:
                r.cells["required"] = rng.choice(["yes", "true()", expr(r, anc, "required")])
                if rng.random() < cfg["p_required_msg"]:
                    put_text(r, "required_message", "reqmsg")
                    _maybe_msg_ref(rng, cfg, r, "required_message", pick_ref(r, anc))
            if rng.random() < cfg["p_constraint"]:
                r.cells["constraint"] = expr(r, anc, "constraint")
                if rng.random() < cfg["p_constraint_msg"]:
                    put_text(r, "constraint_message", "conmsg")
                    _maybe_msg_ref(rng, cfg, r, "constraint_message", pick_ref(r, anc))
            if rng.random() < cfg["p_readonly"]:
                r.cells["read_only"] = rng.choice(["yes", "true()", expr(r, anc, "readonly")])
            if rng.random() < cfg["p_calc_on_visible"] and base_t in ("text", "integer", "decimal"):
                r.cells["calculation"] = _calc_expr(rng, r, pick_ref(r, anc))
        if rng.random() < cfg["p_default"] and base_t in ("text", "integer", "decimal", "date", "hidden", "select_one", "note"):
            if rng.random() < cfg["p_dyn_default"]:
                tg = pick_ref(r, anc)
                r.cells["default"] = rng.choice(["now()", "today()", "1 + 2", f"${{{tg.name}}}" if tg else "uuid()",
                                                 "concat('a', 'b')"])
                r.meta["default_dynamic"] = True
            else:
                r.cells["default"] = {"integer": "7", "decimal": "2.5", "date": "2020-01-31"}.get(base_t, f"dflt_{r.name}")
                if base_t == "select_one":
                    r.cells["default"] = f.choices[r.meta["list"]][0]["name"]
                r.meta["default_dynamic"] = False
        if rng.random() < cfg["p_appearance"] and visible:
            ap = {"text": ["multiline", "numbers"], "integer": ["thousands-sep"], "select_one": ["minimal", "quick", "likert"],
                  "select_multiple": ["minimal", "columns"], "date": ["month-year", "year"], "image": ["signature", "draw"],
                  "geopoint": ["maps", "placement-map"], "note": ["custom-x"]}.get(base_t)
            if ap:
                r.cells["appearance"] = rng.choice(ap)
        if rng.random() < cfg["p_parameters"]:
            prm = {"text": ["rows=3", "rows=8", "rows=5", "rows=12"], "image": ["max-pixels=640", "app=com.example.cam", "max-pixels=320 app=org.odk.draw.x", "app=com.Example.CamPro max-pixels=100"],
                   "audio": ["quality=low", "quality=normal"],
                   "geopoint": ["capture-accuracy=5 warning-accuracy=20", "allow-mock-accuracy=true"],
                   "geotrace": ["allow-mock-accuracy=false"], "range": ["start=1 end=9 step=2", "start=0.5 end=3 step=0.5"],
                   }.get(base_t)
            if prm:
                r.cells["parameters"] = rng.choice(prm)
        if base_t in ("select_one", "select_multiple") and not r.meta.get("or_other"):
            if rng.random() < cfg["p_randomize"]:
                r.cells["parameters"] = rng.choice(["randomize=true", "randomize=true seed=42"])
            if rng.random() < cfg["p_choice_filter"]:
                tg = pick_ref(r, anc)
                cols = [k for c in f.choices[r.meta["list"]] for k in c if k in ("region", "code", "grp", "lvl")]
                col = cols[0] if cols else "name"
                r.cells["choice_filter"] = f"{col} = ${{{tg.name}}}" if tg else f"{col} != ''"
        if visible and rng.random() < cfg["p_noapp"]:
            if rng.random() < 0.5:
                put_text(r, "no_app_error_string", "noapp")
            else:
                r.cells["no_app_error_string"] = text_for(rng, cfg, r.name, "noapp", None)
            if rng.random() < 0.4:
                tg = pick_ref(r, anc)
                h = rng.choice([h for h in r.cells if h.startswith("no_app_error_string")])
                if tg is not None:
                    r.cells[h] += f" ${{{tg.name}}} z"
        if rng.random() < cfg["p_bind_extra"]:
            r.cells["bind::odk:foo"] = f"bx.{r.name}"
        if rng.random() < cfg["p_instance_extra"]:
            r.cells["instance::extra"] = f"ix.{r.name}"
        if rng.random() < cfg["p_body_extra"] and visible:
            r.cells["body::kb:flag"] = f"cx.{r.name}"
        if rng.random() < cfg["p_trigger"] and base_t in ("calculate", "text", "integer", "dateTime"):
            vis = [x for x in targets if x is not r and x.type.split(" ")[0] not in HIDDEN_TYPES + META_TYPES
                   and "calculation" not in x.cells and "trigger" not in x.cells]
            if vis:
                tg = rng.choice(vis)
                r.cells["trigger"] = f"${{{tg.name}}}"
                if "calculation" not in r.cells:
                    r.cells["calculation"] = _calc_expr(rng, r, pick_ref(r, anc))
                r.cells.pop("default", None)
                r.meta.pop("default_dynamic", None)
    # ---------------------------------------------------------------- choice labels with references; search() lists
    if cfg["p_choice_label_ref"]:
        tops = [r for r in f.survey if r.kind == "q" and r.type != "audit"]
        for ln, rows in f.choices.items():
            for c in rows:
                if tops and rng.random() < cfg["p_choice_label_ref"]:
                    hs = [h for h in c if h.startswith("label")]
                    if hs:
                        h = rng.choice(hs)
                        c[h] = c[h] + f" ${{{rng.choice(tops).name}}} z"
    if cfg["p_search"]:
        for ln in list_names:
            if rng.random() < cfg["p_search"]:
                for r, anc in all_rows:
                    if r.meta.get("list") == ln and r.meta.get("select") in ("select_one", "select_multiple") and not r.meta.get("or_other"):
                        r.cells["appearance"] = rng.choice(["search('f_%s')" % ln, "minimal search('f_%s', 'matches', 'name', 'x')" % ln])
                        r.cells.pop("choice_filter", None)
                        r.cells.pop("parameters", None)
                        r.meta["search"] = True
                    elif r.meta.get("list") == ln:
                        # rank / or_other users of a search list: retarget is not possible -> drop the search marker
                        pass
    # ---------------------------------------------------------------- settings
    if rng.random() < cfg["p_settings"]:
        f.settings["form_title"] = "Title " + rng.choice(WORDS)
        f.settings["form_id"] = "fid_" + rng.choice(WORDS)
        if rng.random() < 0.5:
            f.settings["version"] = str(rng.randrange(1, 2030010199))
    if any(h.startswith("body::kb:") for r, _ in all_rows for h in r.cells):
        f.settings["namespaces"] = 'kb="http://kobotoolbox.org/xforms"'
    if langs and rng.random() < 0.6:
        f.settings["default_language"] = rng.choice(langs)
    if cfg["audit"] and rng.random() < cfg["audit"]:
        groups = [rng.choice(["location-priority=balanced location-min-interval=10 location-max-age=60", "location-max-age=300 location-priority=high-accuracy location-min-interval=0",
                              "location-priority=no-power location-min-interval=60 location-max-age=60"]),
                  rng.choice(["track-changes=true", "track-changes=false"]), rng.choice(["identify-user=true", "identify-user=false"]), "track-changes-reasons=on-form-edit"]
        chosen = [g for g in groups if rng.random() < 0.5] or ["track-changes=true"]
        rng.shuffle(chosen)
        f.survey.append(Row("q", "audit", "audit", {"parameters": " ".join(chosen)}))
    return f


def _maybe_msg_ref(rng, cfg, r, base, tg):
    if tg is None or rng.random() >= cfg["p_msg_ref"]:
        return
    hs = [h for h in r.cells if h == base or h.startswith(base + ":")]
    if hs:
        h = rng.choice(hs)
        r.cells[h] = r.cells[h] + f" ${{{tg.name}}} tail"


def _inside(x, section):
    for r, _ in section.walk():
        if r is x:
            return True
    return False


def _calc_expr(rng, row, tg):
    mk = f"'calc.{row.name}'"
    if tg is not None and rng.random() < 0.7:
        return rng.choice([f"concat(${{{tg.name}}}, {mk})", f"if(${{{tg.name}}} = '', {mk}, ${{{tg.name}}})",
                           f"${{{tg.name}}} + 1", f"coalesce(${{{tg.name}}}, {mk})"])
    return rng.choice([f"concat({mk}, 'z')", "1 + 1", f"string-length({mk})", "now()"])


def simple_form(rows, choices=None, settings=None):
    """Hand-written helper: rows = [(type, name, {cells}) | ('begin group', name, {cells}, [children])]."""
    f = Form()

    def mk(t):
        if len(t) == 4:
            kind = "repeat" if "repeat" in t[0] else "group"
            return Row(kind, t[0], t[1], t[2], [mk(c) for c in t[3]])
        return Row("q", t[0], t[1], t[2] if len(t) > 2 else {})

    f.survey = [mk(t) for t in rows]
    if choices:
        f.choices = choices
    if settings:
        f.settings = settings
    return f
