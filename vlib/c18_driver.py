"""Subprocess entry point for one C18 fault script: python -m vlib.c18_driver SPEC.json

mode 'lib': calls pyxform.xls2xform.convert(**lib_kwargs) and writes a result record.
mode 'cli': sets sys.argv and calls pyxform.xls2xform.main_cli() exactly as the console script
            does (an uncaught exception ends the process with a traceback and exit status 1).
Harness-side failpoints (never in /repo) are installed first when the spec asks for them:
  timeout        wrap run_popen_with_timeout so the 100 s watchdog constant becomes `timeout` seconds
  open_tmp_fail  builtins.open raises OSError(ENOSPC) for a write-open of a path under TMPDIR
  write_tmp_fail the write-open under TMPDIR succeeds, write() stores half the text then raises OSError
  popen_fail     the Popen used by pyxform.validators.util raises OSError(EMFILE)
"""
from __future__ import annotations

import builtins
import errno
import json
import os
import sys


def install_failpoints(fp):
    if not fp:
        return
    tmpdir = os.path.realpath(os.environ.get("TMPDIR", "/nonexistent"))
    if fp.get("timeout"):
        import pyxform.validators.odk_validate as ov
        orig = ov.run_popen_with_timeout

        def shortened(command, timeout):
            return orig(command, fp["timeout"])

        ov.run_popen_with_timeout = shortened
    if fp.get("open_tmp_fail") or fp.get("write_tmp_fail"):
        real_open = builtins.open

        class HalfWriter:
            def __init__(self, fh):
                self._fh = fh

            def write(self, s):
                self._fh.write(s[: len(s) // 2])
                self._fh.flush()
                raise OSError(errno.ENOSPC, "No space left on device (injected)")

            def __enter__(self):
                return self

            def __exit__(self, *a):
                self._fh.close()
                return False

            def __getattr__(self, k):
                return getattr(self._fh, k)

        def patched(file, mode="r", *a, **kw):
            try:
                p = os.path.realpath(os.fspath(file)) if not isinstance(file, int) else None
            except TypeError:
                p = None
            if p and p.startswith(tmpdir + os.sep) and "w" in mode and "b" not in mode:
                if fp.get("open_tmp_fail"):
                    raise OSError(errno.ENOSPC, "No space left on device (injected)")
                return HalfWriter(real_open(file, mode, *a, **kw))
            return real_open(file, mode, *a, **kw)

        builtins.open = patched
    if fp.get("popen_fail"):
        import pyxform.validators.util as vu

        def boom(*a, **kw):
            raise OSError(errno.EMFILE, "Too many open files (injected)")

        vu.Popen = boom


def main():
    spec = json.load(open(sys.argv[1]))
    install_failpoints(spec.get("failpoints"))
    if spec["mode"] == "cli":
        from pyxform.xls2xform import main_cli

        sys.argv = ["xls2xform"] + spec["argv"]
        main_cli()
        return
    from pyxform.errors import PyXFormError
    from pyxform.validators.odk_validate import ODKValidateError
    from pyxform.xls2xform import convert

    rec = {}
    try:
        r = convert(xlsform=spec["xlsform"], **spec.get("lib_kwargs", {}))
        rec = {"ok": True, "xform": r.xform, "warnings": list(r.warnings), "itemsets": r.itemsets}
    except BaseException as e:  # noqa: BLE001 - classified by the monitor
        rec = {"ok": False, "exc_type": type(e).__name__, "exc_mro": [c.__name__ for c in type(e).__mro__], "exc_msg": str(e),
               "is_pyxform": isinstance(e, PyXFormError), "is_odk": isinstance(e, ODKValidateError), "is_oserror": isinstance(e, OSError)}
    with open(spec["result"], "w", encoding="utf-8") as fh:
        json.dump(rec, fh)


if __name__ == "__main__":
    main()
