"""Independent XForm reader used by every monitor.

The text is parsed twice: by expat with namespace processing (any unbound prefix,
duplicate attribute, illegal character or second root raises) and by lxml (the tree
the monitors walk).  Nothing here imports pyxform.
"""
from __future__ import annotations

import re
import xml.parsers.expat as expat

from lxml import etree

XF = "http://www.w3.org/2002/xforms"
H = "http://www.w3.org/1999/xhtml"
JR = "http://openrosa.org/javarosa"
ORX = "http://openrosa.org/xforms"
ODK = "http://www.opendatakit.org/xforms"
EV = "http://www.w3.org/2001/xml-events"
ENT = "http://www.opendatakit.org/xforms/entities"
NS = {"x": XF, "h": H, "jr": JR, "orx": ORX, "odk": ODK, "ent": ENT}


class XFError(Exception):
    """The text is not a well-formed, namespace-valid XForm skeleton."""

    def __init__(self, kind, detail):
        super().__init__(f"{kind}: {detail}")
        self.kind = kind
        self.detail = detail


def q(ns, local):
    return "{%s}%s" % (ns, local)


def local(tag):
    if not isinstance(tag, str):
        return "#" + str(tag)
    return tag.rsplit("}", 1)[-1]


def nsof(tag):
    if isinstance(tag, str) and tag.startswith("{"):
        return tag[1:].split("}", 1)[0]
    return ""


_PREFIXED = re.compile(r"^([^:]+):(.+)$")


def expat_check(text: str):
    """Strict well-formedness + namespace check. Raises XFError."""
    try:
        text.encode("utf-8")
    except UnicodeEncodeError as e:
        # half a surrogate pair is no character: no encoding can carry the document to a parser
        raise XFError("illformed", f"not encodable: {e.reason} (U+{ord(text[e.start]):04X})") from None
    p = expat.ParserCreate(namespace_separator=" ")
    # With namespace processing on, expat raises on unbound prefixes for elements and
    # attributes (error: unbound prefix), on duplicate attributes, bad chars, junk after root.
    p.buffer_text = True
    nroots = [0]
    depth = [0]

    def start(name, attrs):
        if depth[0] == 0:
            nroots[0] += 1
        depth[0] += 1

    def end(name):
        depth[0] -= 1

    p.StartElementHandler = start
    p.EndElementHandler = end
    try:
        p.Parse(text.encode("utf-8"), True)
    except expat.ExpatError as e:
        raise XFError("illformed", str(e)) from None
    if nroots[0] != 1:
        raise XFError("illformed", f"{nroots[0]} root elements")


def content_segments(el):
    """Mixed content of an element as list of ('t', text) / ('o', value-attr) / ('e', tag)."""
    segs = []
    if el.text:
        segs.append(("t", el.text))
    for ch in el:
        if not isinstance(ch.tag, str):
            segs.append(("e", "#comment"))
        elif ch.tag == q(XF, "output"):
            segs.append(("o", ch.get("value")))
        else:
            segs.append(("e", local(ch.tag)))
        if ch.tail:
            segs.append(("t", ch.tail))
    return segs


def segs_text(segs):
    """Flatten segments to a string with outputs shown as «value»."""
    out = []
    for k, v in segs:
        out.append(v if k == "t" else ("«%s»" % v))
    return "".join(out)


class Parsed:
    """Structured view of one XForm."""

    def __init__(self, text: str, check_skeleton=True):
        self.text = text
        expat_check(text)
        try:
            self.root = etree.fromstring(text.encode("utf-8"))
        except etree.XMLSyntaxError as e:  # pragma: no cover - expat should catch first
            raise XFError("illformed-lxml", str(e)) from None
        self._skeleton(check_skeleton)

    # ------------------------------------------------------------------ skeleton
    def _skeleton(self, strict):
        r = self.root
        if r.tag != q(H, "html"):
            raise XFError("skeleton", f"root is {r.tag}")
        kids = [c for c in r if isinstance(c.tag, str)]
        if [c.tag for c in kids] != [q(H, "head"), q(H, "body")]:
            raise XFError("skeleton", f"html children {[c.tag for c in kids]}")
        self.head, self.body = kids
        titles = [c for c in self.head if c.tag == q(H, "title")]
        models = [c for c in self.head if c.tag == q(XF, "model")]
        others = [c for c in self.head if isinstance(c.tag, str) and c.tag not in (q(H, "title"), q(XF, "model"))]
        if len(titles) != 1 or len(models) != 1 or others:
            raise XFError("skeleton", f"head has {len(titles)} title, {len(models)} model, {len(others)} other")
        self.title = titles[0]
        self.model = models[0]
        insts = [c for c in self.model if c.tag == q(XF, "instance")]
        if not insts:
            raise XFError("skeleton", "model has no instance")
        first = insts[0]
        if first.get("id") is not None or first.get("src") is not None:
            raise XFError("skeleton", "first instance carries id/src: not a primary instance")
        roots = [c for c in first if isinstance(c.tag, str)]
        if len(roots) != 1:
            raise XFError("skeleton", f"primary instance has {len(roots)} root elements")
        self.primary = roots[0]
        if self.primary.get("id") is None:
            raise XFError("skeleton", "primary instance root has no id attribute")
        self.secondary = insts[1:]

    # ------------------------------------------------------------------ instance
    @property
    def root_name(self):
        return local(self.primary.tag)

    def is_template(self, el):
        return el.get(q(JR, "template")) is not None

    def resolve(self, path: str):
        """All primary-instance nodes (or attribute values) addressed by an absolute path.

        Returns list of lxml elements, or list of ('@', element, attrname) for attribute paths.
        Name matching is on the qualified name as written (prefix:local handled via nsmap).
        """
        if not path.startswith("/"):
            return []
        parts = path.split("/")[1:]
        if not parts or parts[0] != self.qname(self.primary):
            return []
        cur = [self.primary]
        for i, part in enumerate(parts[1:], start=1):
            if part.startswith("@"):
                if i != len(parts) - 1:
                    return []
                an = part[1:]
                return [("@", el, an) for el in cur if self._has_attr(el, an)]
            nxt = []
            for el in cur:
                for ch in el:
                    if isinstance(ch.tag, str) and self.qname(ch) == part:
                        nxt.append(ch)
            cur = nxt
            if not cur:
                return []
        return cur

    def qname(self, el):
        """Name as it would be written in a path: prefix:local or local."""
        if el.prefix:
            return f"{el.prefix}:{local(el.tag)}"
        return local(el.tag)

    def _has_attr(self, el, name):
        if ":" in name:
            pfx, loc = name.split(":", 1)
            uri = el.nsmap.get(pfx)
            return uri is not None and el.get(q(uri, loc)) is not None
        return el.get(name) is not None

    def instance_tree(self, el=None, strip_templates=False):
        """Nested (name, [children]) tuples of the primary instance."""
        el = self.primary if el is None else el
        kids = []
        for ch in el:
            if not isinstance(ch.tag, str):
                continue
            if strip_templates and self.is_template(ch):
                continue
            kids.append(self.instance_tree(ch, strip_templates))
        return (self.qname(el), kids)

    def path_of(self, el):
        names = []
        cur = el
        while cur is not None and cur is not self.primary.getparent():
            names.append(self.qname(cur))
            cur = cur.getparent()
        return "/" + "/".join(reversed(names))

    # ------------------------------------------------------------------ model pieces
    def binds(self):
        return [c for c in self.model if c.tag == q(XF, "bind")]

    def bind_map(self):
        m = {}
        for b in self.binds():
            m.setdefault(b.get("nodeset"), []).append(b)
        return m

    def attr_dict(self, el):
        """Attributes keyed as written (prefix:local)."""
        out = {}
        rev = {}
        for pfx, uri in el.nsmap.items():
            if pfx is not None:
                rev.setdefault(uri, pfx)
        for k, v in el.attrib.items():
            if k.startswith("{"):
                uri, loc = k[1:].split("}", 1)
                pfx = rev.get(uri)
                if uri == "http://www.w3.org/XML/1998/namespace":
                    pfx = "xml"
                out[f"{pfx}:{loc}"] = v
            else:
                out[k] = v
        return out

    def model_actions(self):
        """setvalue / odk:setgeopoint / odk:recordaudio directly in the model."""
        tags = {q(XF, "setvalue"), q(ODK, "setgeopoint"), q(ODK, "recordaudio")}
        return [c for c in self.model if c.tag in tags]

    def body_actions(self):
        tags = {q(XF, "setvalue"), q(ODK, "setgeopoint"), q(ODK, "recordaudio")}
        return [c for c in self.body.iter() if c.tag in tags]

    def submission(self):
        s = [c for c in self.model if c.tag == q(XF, "submission")]
        return s

    # ------------------------------------------------------------------ itext
    def itext(self):
        """{'translations': [(lang, default_flag, {id: [(form, segs)]}, dup_ids)], ...}"""
        its = [c for c in self.model if c.tag == q(XF, "itext")]
        out = []
        for it in its:
            for tr in it:
                if tr.tag != q(XF, "translation"):
                    continue
                texts = {}
                dups = []
                for tx in tr:
                    if tx.tag != q(XF, "text"):
                        continue
                    tid = tx.get("id")
                    vals = []
                    for v in tx:
                        if v.tag == q(XF, "value"):
                            vals.append((v.get("form"), content_segments(v)))
                    if tid in texts:
                        dups.append(tid)
                    texts[tid] = vals
                out.append((tr.get("lang"), tr.get("default"), texts, dups))
        return out, len(its)

    # ------------------------------------------------------------------ body
    CONTROL_TAGS = None

    def controls(self, el=None):
        """Nested body control tree: (tag, ref/nodeset, attrs, element, children)."""
        el = self.body if el is None else el
        out = []
        for ch in el:
            if not isinstance(ch.tag, str):
                continue
            t = local(ch.tag)
            if t in ("label", "hint", "item", "itemset", "setvalue", "setgeopoint", "recordaudio", "tag", "value", "output"):
                continue
            out.append((self.qname(ch), ch.get("ref") or ch.get("nodeset"), self.attr_dict(ch), ch, self.controls(ch)))
        return out

    def sec_instance(self, iid):
        r = [c for c in self.secondary if c.get("id") == iid]
        return r


ITEXT_RE = re.compile(r"^jr:itext\('([^']*)'\)$")


def itext_id(ref):
    m = ITEXT_RE.match(ref or "")
    return m.group(1) if m else None
