"""Conversions in a child interpreter whose preferred encoding is not UTF-8 (C locale, UTF-8 mode off) - shared by C06 and C11.

XForms are UTF-8 documents whatever the locale of the process that produces them: the text returned by convert() and the bytes written by
xls2xform_convert() for a form full of non-ASCII text must be the same as in a UTF-8 process.
"""
from __future__ import annotations

import hashlib
import json
import os
import subprocess
import sys

from . import drive

SCRIPT = r"""
import json, os, sys, tempfile, hashlib, locale
sys.path.insert(0, os.environ["VERIF_REPO"])
from pyxform.xls2xform import convert, xls2xform_convert
md = sys.stdin.buffer.read().decode("utf-8")
out = {"encoding": locale.getpreferredencoding(False)}
try:
    r = convert(xlsform=md, file_type=".md")
    out["convert"] = {"ok": True, "sha": hashlib.sha256(r.xform.encode("utf-8")).hexdigest(), "warnings": len(r.warnings)}
except Exception as e:
    out["convert"] = {"ok": False, "err": "%s: %s" % (type(e).__name__, str(e)[:160])}
d = tempfile.mkdtemp(prefix="verif_loc_")
pin, pout = os.path.join(d, "form.md"), os.path.join(d, "form.xml")
try:
    with open(pin, "wb") as fh:
        fh.write(md.encode("utf-8"))
    try:
        xls2xform_convert(xlsform_path=pin, xform_path=pout, validate=False, pretty_print=False)
        raw = open(pout, "rb").read()
        try:
            raw.decode("utf-8")
            out["file"] = {"ok": True, "sha": hashlib.sha256(raw).hexdigest()}
        except UnicodeDecodeError as e:
            out["file"] = {"ok": False, "err": "written file is not UTF-8: %s" % e}
    except Exception as e:
        out["file"] = {"ok": False, "err": "%s: %s" % (type(e).__name__, str(e)[:160]), "left_behind": sorted(os.listdir(d))}
finally:
    for n in os.listdir(d):
        os.unlink(os.path.join(d, n))
    os.rmdir(d)
sys.stdout.write(json.dumps(out))
"""

ENVS = {"utf8": {"PYTHONUTF8": "1"}, "c-locale": {"LANG": "C", "LC_ALL": "C", "PYTHONUTF8": "0", "PYTHONCOERCECLOCALE": "0"}}


def run(md: str, envname: str, timeout=120):
    env = dict(os.environ, VERIF_REPO=drive.REPO, PYTHONIOENCODING="utf-8", **ENVS[envname])
    try:
        r = subprocess.run([sys.executable, "-c", SCRIPT], input=md.encode("utf-8"), capture_output=True, timeout=timeout, env=env)
    except subprocess.TimeoutExpired:
        return None, "timeout"
    try:
        return json.loads(r.stdout.decode("utf-8").strip().splitlines()[-1]), None
    except Exception:  # noqa: BLE001
        return None, f"child exited {r.returncode}: {r.stderr.decode('utf-8', 'replace')[-300:]}"


def judge(ctx, md: str, tag: str, prefix: str):
    """Run the form in both children; report differences. Returns number of comparisons made."""
    ref, err = run(md, "utf8")
    if ref is None or not ref["convert"].get("ok"):
        ctx.ctr("locale_child_reference_failed")
        return 0
    here = hashlib.sha256(drive.call_convert(md, file_type=".md").xform.encode("utf-8")).hexdigest()
    got, err = run(md, "c-locale")
    ctx.ctr("locale_child_runs", 2)
    ctx.case(sig=f"locale-child|{tag}")
    wit = {"klass": "locale", "md": md}
    if got is None:
        ctx.viol(f"{prefix}:c-locale:child-failed", f"[{tag}] {err}", wit)
        return 1
    for part in ("convert", "file"):
        g, r = got[part], ref[part]
        if not g.get("ok"):
            ctx.viol(f"{prefix}:c-locale:{part}:raised", f"[{tag}] preferred encoding {got.get('encoding')}: {part} path: {g.get('err')}" + (f"; left behind {g.get('left_behind')}" if g.get("left_behind") else ""), wit)
        elif r.get("ok") and g["sha"] != r["sha"]:
            ctx.viol(f"{prefix}:c-locale:{part}:differs", f"[{tag}] preferred encoding {got.get('encoding')}: the {part} result differs from the one of a UTF-8 process", wit)
    if ref["convert"]["sha"] != here:
        ctx.viol(f"{prefix}:utf8-child-differs-from-this-process", f"[{tag}] the XForm of a UTF-8 child differs from this process's", wit)
    return 2
