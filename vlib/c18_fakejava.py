"""Source text of the scripted stand-in for the `java` executable (C18 fault scripts).

The stand-in is written as `<scenario>/bin/java`, put first on PATH, and driven by the JSON
file named in $VERIF_JAVA_SCENARIO:
  {"rc": int, "stderr_hex": "...", "stdout_hex": "...", "sleep": seconds, "signal": int|null, "log": path, "copy_to": path}
It appends one JSON line per invocation to `log` with its argv, whether the file named by the
last argument existed, and a hex sha256 of its bytes, and copies that file to `copy_to`, so the
monitor can check what the validator was actually shown (call event recorded *before* the
scripted outcome is produced).
"""

SCRIPT = r'''#!/venv/bin/python -S
import hashlib, json, os, signal, sys, time
sc = json.load(open(os.environ["VERIF_JAVA_SCENARIO"]))
target = sys.argv[-1] if len(sys.argv) > 1 else None
rec = {"argv": sys.argv[1:], "exists": bool(target and os.path.isfile(target)), "sha": None, "size": None,
       "tmpdir_env": os.environ.get("TMPDIR"), "stdin_closed": None}
if rec["exists"]:
    data = open(target, "rb").read()
    rec["sha"] = hashlib.sha256(data).hexdigest()
    rec["size"] = len(data)
    if sc.get("copy_to"):
        with open(sc["copy_to"], "wb") as fh:
            fh.write(data)
with open(sc["log"], "a") as fh:
    fh.write(json.dumps(rec) + "\n")
out = bytes.fromhex(sc.get("stdout_hex", ""))
err = bytes.fromhex(sc.get("stderr_hex", ""))
if out:
    sys.stdout.buffer.write(out); sys.stdout.buffer.flush()
if err:
    sys.stderr.buffer.write(err); sys.stderr.buffer.flush()
if sc.get("sleep"):
    time.sleep(sc["sleep"])
if sc.get("signal"):
    os.kill(os.getpid(), sc["signal"])
    time.sleep(5)
os._exit(sc.get("rc", 0))
'''
