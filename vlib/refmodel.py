"""Reference models evaluated on the abstract form (AF), independent of pyxform.

Encodes the XLSForm documentation (xlsform.org, ODK XForms spec) for the canonical
spellings the generators use.  Nothing here imports pyxform; the type table is the frozen
copy in /verif/data/type_table.json.
"""
from __future__ import annotations

import json
import os
import re

from .model import Form, Row

_DATA = os.path.join(os.path.dirname(os.path.dirname(os.path.abspath(__file__))), "data")
TYPE_TABLE = json.load(open(os.path.join(_DATA, "type_table.json")))

TRANSLATABLE = ("label", "hint", "guidance_hint", "image", "audio", "video", "big-image", "constraint_message", "required_message",
                "no_app_error_string")
MEDIA = ("image", "audio", "video", "big-image")
REF_RE = re.compile(r"\$\{(last-saved#)?([^}]*)\}")


def split_header(h):
    """'label::French (fr)' -> ('label', 'French (fr)'); 'label:fr' -> ('label','fr'); 'relevant' -> ('relevant', None).
    Only translatable columns are split on a single colon."""
    if h is None:
        return None, None
    if "::" in h:
        a, b = h.split("::", 1)
        return a.strip(), b.strip()
    if ":" in h:
        a, b = h.split(":", 1)
        if a.strip() in TRANSLATABLE:
            return a.strip(), b.strip()
    return h.strip(), None


def texts(cells, base):
    """{lang|None: text} for a translatable column family."""
    out = {}
    for h, v in cells.items():
        b, lang = split_header(h)
        if b == base and v not in (None, ""):
            out[lang] = v
    return out


def root_name(form: Form):
    return form.settings.get("name") or form.args.get("form_name") or "data"


def default_language(form: Form):
    return form.settings.get("default_language") or form.args.get("default_language") or "default"


def base_type(row: Row):
    t = (row.type or "")
    return t.split(" ")[0] if t else ""


def type_info(row: Row):
    """Entry of the frozen type table for a question row (by canonical spelling)."""
    b = base_type(row)
    key = {"select_one": "select one", "select_multiple": "select all that apply", "select_one_from_file": "select one",
           "select_multiple_from_file": "select all that apply", "select_one_external": "select one external", "image": "photo"}.get(b, b)
    return TYPE_TABLE.get(key)


class Entry:
    __slots__ = ("row", "path", "anc", "repeat", "kind", "rownum", "generated")

    def __init__(self, row, path, anc, repeat, kind, generated=None):
        self.row, self.path, self.anc, self.repeat, self.kind, self.generated = row, path, anc, repeat, kind, generated
        self.rownum = row.rownum if row is not None else None


class RM:
    """Walks the AF and lays out what the documentation says must come out."""

    def __init__(self, form: Form):
        self.form = form
        form.flat_survey_rows()  # assigns row numbers
        self.root = root_name(form)
        self.entries = []  # in instance order (excluding meta)
        self.by_name = {}
        self.audit = None
        self._walk(form.survey, f"/{self.root}", (), None)
        self.langs = self._languages()

    # ------------------------------------------------------------ structure
    def is_disabled(self, row):
        v = row.cells.get("disabled")
        return v in ("yes", "Yes", "YES", "true", "True", "TRUE", "true()")

    def is_comment(self, row):
        return row.kind == "raw" and not row.type

    def _walk(self, rows, prefix, anc, repeat):
        for r in rows:
            if r.kind == "raw" or self.is_disabled(r):
                continue
            bt = base_type(r)
            if bt == "audit":
                self.audit = r
                continue
            path = f"{prefix}/{r.name}"
            if r.kind == "repeat":
                rc = r.cells.get("repeat_count")
                if rc and not re.fullmatch(r"\$\{[^}]+\}", rc.strip()):
                    self.entries.append(Entry(None, f"{prefix}/{r.name}_count", anc, repeat, "count-helper", generated=r))
            e = Entry(r, path, anc, repeat, r.kind)
            self.entries.append(e)
            if r.name:
                self.by_name.setdefault(r.name, []).append(e)
            if r.is_section():
                ap = (r.cells.get("appearance") or "").split()
                if "table-list" in ap:  # honoured on groups and on repeats
                    if texts(r.cells, "label") or texts(r.cells, "hint"):
                        self.entries.append(Entry(None, f"{path}/generated_table_list_label_{r.rownum}", anc + (r,), repeat, "tl-label", generated=r))
                    first = next((c for c in r.children if base_type(c) in ("select_one", "select_multiple", "rank", "select_one_from_file", "select_multiple_from_file")
                                  and not self.is_disabled(c)), None)
                    if first is not None:
                        # the header is inserted right before the first select (other rows before it keep their place)
                        inner_rep = r if r.kind == "repeat" else repeat
                        before = [c for c in r.children[: r.children.index(first)]]
                        self._walk(before, path, anc + (r,), inner_rep)
                        self.entries.append(Entry(None, f"{path}/reserved_name_for_field_list_labels_{first.rownum}", anc + (r,), inner_rep, "tl-header", generated=first))
                        self._walk(r.children[r.children.index(first):], path, anc + (r,), inner_rep)
                        continue
                self._walk(r.children, path, anc + (r,), r if r.kind == "repeat" else repeat)
            elif r.meta.get("or_other") or (r.type or "").endswith((" or_other", " or other", " or specify other")):
                self.entries.append(Entry(None, f"{path}_other", anc, repeat, "other-helper", generated=r))

    def _languages(self):
        langs = []
        for r, _ in self.form.walk():
            for h in r.cells:
                b, lang = split_header(h)
                if b in TRANSLATABLE and lang is not None and lang not in langs:
                    langs.append(lang)
        for lst in self.form.choices.values():
            for c in lst:
                for h in c:
                    b, lang = split_header(h)
                    if b in ("label",) + MEDIA and lang is not None and lang not in langs:
                        langs.append(lang)
        return langs

    # ------------------------------------------------------------ expected instance (templates stripped)
    def expected_instance(self):
        """Nested (name, [children]) for the primary instance without jr:template copies."""
        tree = (self.root, [])
        index = {f"/{self.root}": tree}
        for e in self.entries:
            if e.row is not None and base_type(e.row) in ("xml-external", "csv-external"):
                continue
            parent = e.path.rsplit("/", 1)[0]
            node = (e.path.rsplit("/", 1)[1], [])
            index[parent][1].append(node)
            index[e.path] = node
        meta = self.expected_meta()
        if meta:
            tree[1].append(("meta", [(m, ([("label", [])] if m == "entity" and (self.form.entities or {}).get("label") else [])) for m in meta]))
        return tree

    def expected_meta(self):
        s = self.form.settings
        out = []
        if self.audit is not None:
            out.append("audit")
        if s.get("omit_instanceID") not in ("yes", "true", "True", "TRUE", "Yes", "YES", "true()"):
            out.append("instanceID")
        if s.get("instance_name"):
            out.append("instanceName")
        if self.form.entities is not None:
            out.append("entity")
        return out

    # ------------------------------------------------------------ expected body
    def has_control(self, r: Row):
        ti = type_info(r)
        bt = base_type(r)
        if ti is None or "control" not in ti:
            return False
        if ti["control"].get("tag") == "action":
            return False
        if bt == "calculate":
            return False
        has_text = bool(texts(r.cells, "label") or texts(r.cells, "hint") or any(texts(r.cells, m) for m in MEDIA))  # a picture or a sound is something to show too
        if (r.cells.get("calculation") or r.cells.get("trigger")) and not has_text:
            return False
        return True

    def expected_body(self):
        """Nested [(tag, ref, {attr: value|ANY}, [children])]"""
        return self._body(self.form.survey, f"/{self.root}")

    def _body(self, rows, prefix):
        out = []
        for r in rows:
            if r.kind == "raw" or self.is_disabled(r) or base_type(r) == "audit":
                continue
            path = f"{prefix}/{r.name}"
            if r.kind == "group":
                attrs = {}
                ap = r.cells.get("appearance")
                kids = self._body(r.children, path)
                if ap:
                    toks = ap.split()
                    if "table-list" in toks:
                        attrs["appearance"] = " ".join(["field-list"] + [t for t in toks if t != "table-list"])
                        kids = self._table_list_body(r, path)
                    else:
                        attrs["appearance"] = ap
                for h, v in r.cells.items():
                    if h.startswith("body::"):
                        attrs[h[6:]] = ANY
                out.append(("group", path, attrs, kids))
            elif r.kind == "repeat":
                rattrs = {}
                if r.cells.get("repeat_count"):
                    rattrs["jr:count"] = ANY
                ap = r.cells.get("appearance")
                rkids = None
                if ap:
                    toks = ap.split()
                    if "table-list" in toks:
                        rattrs["appearance"] = " ".join(["field-list"] + [t for t in toks if t != "table-list"])
                        rkids = self._table_list_body(r, path)
                    else:
                        rattrs["appearance"] = ap
                gattrs = {}
                has_label = bool(texts(r.cells, "label")) or any(texts(r.cells, m) for m in MEDIA)
                # RepeatingSection always emits a label element; when the repeat has a label the wrapper carries only ref
                out.append(("group", path, ANYATTRS, [("repeat", path, rattrs, rkids if rkids is not None else self._body(r.children, path))]))
            else:
                if not self.has_control(r):
                    continue
                out.append(self._control(r, path))
                if r.meta.get("or_other") or (r.type or "").endswith((" or_other", " or other", " or specify other")):
                    out.append(("input", path + "_other", {}, []))
        return out

    def _table_list_body(self, g, path):
        kids = []
        if texts(g.cells, "label") or texts(g.cells, "hint"):
            kids.append(("input", f"{path}/generated_table_list_label_{g.rownum}", {}, []))
        seen_first = False
        for c in g.children:
            if c.kind == "raw" or self.is_disabled(c):
                continue
            bt = base_type(c)
            if bt in ("select_one", "select_multiple", "rank", "select_one_from_file", "select_multiple_from_file"):
                ti = type_info(c)
                tag = ti["control"]["tag"]
                if not seen_first:
                    seen_first = True
                    kids.append((tag, f"{path}/reserved_name_for_field_list_labels_{c.rownum}", {"appearance": "label"}, []))
                kids.append((tag, f"{path}/{c.name}", {"appearance": "list-nolabel"}, []))
            else:
                kids.extend(self._body([c], path))
        return kids

    def _control(self, r, path):
        ti = type_info(r)
        bt = base_type(r)
        tag = ti["control"]["tag"]
        attrs = {}
        if "mediatype" in ti["control"]:
            attrs["mediatype"] = ti["control"]["mediatype"]
        if r.cells.get("appearance"):
            attrs["appearance"] = ANY if "${" in r.cells["appearance"] else r.cells["appearance"]
        prm = parse_params(r.cells.get("parameters"))
        if bt == "text" and "rows" in prm:
            attrs["rows"] = prm["rows"]
        if bt == "image" and "app" in prm and r.cells.get("appearance") in (None, "annotate"):
            attrs["intent"] = prm["app"]
        if bt == "geopoint":
            if "capture-accuracy" in prm:
                attrs["accuracyThreshold"] = prm["capture-accuracy"]
            if "warning-accuracy" in prm:
                attrs["unacceptableAccuracyThreshold"] = prm["warning-accuracy"]
        if bt == "range":
            attrs.update({"start": prm.get("start", "1"), "end": prm.get("end", "10"), "step": prm.get("step", "1")})
        if r.cells.get("autoplay"):
            attrs["autoplay"] = r.cells["autoplay"]
        if bt == "select_one_external":
            attrs["query"] = ANY
        for h, v in r.cells.items():
            if h.startswith("body::"):
                attrs[h[6:]] = ANY
        return (tag, path, attrs, [])


class _Any:
    def __repr__(self):
        return "ANY"


ANY = _Any()
ANYATTRS = {"*": ANY}


def parse_params(s):
    out = {}
    if not s:
        return out
    parts = s.split(";")
    if len(parts) == 1:
        parts = s.split(",")
    if len(parts) == 1:
        parts = s.split()
    for p in parts:
        if "=" in p:
            k, v = p.split("=")[:2]
            k = k.strip().lower()
            out[k] = v.strip() if k in ("label", "value", "app") else v.strip().lower()  # column names and package names are case sensitive
    return out
