"""Run W-suite (the repository's tests under vlib.pytest_plugin) and feed one property's verdicts into a worker Ctx."""
from __future__ import annotations

import glob
import json
import os
import subprocess
import tempfile

PY = "/venv/bin/python"
REPO = os.environ.get("VERIF_REPO", "/repo")
VERIF = os.path.dirname(os.path.dirname(os.path.abspath(__file__)))


def run_suite(ctx, prop, jobs=8, timeout=1500):
    """Judge every Survey.to_xml() call made by the repository's test suite with `prop`'s invariant."""
    d = tempfile.mkdtemp(prefix="wsuite_")
    log = os.path.join(d, "suite.jsonl")
    env = dict(os.environ)
    env["VERIF_SUITE_LOG"] = log
    env["PYTHONPATH"] = os.pathsep.join([REPO, VERIF, os.path.join(VERIF, ".deps")])
    env.pop("PYXFORM_VERIF", None)
    if prop == "C03":
        env["VERIF_SUITE_SUBST"] = "1"
    try:
        p = subprocess.run([PY, "-m", "pytest", "-q", "-p", "no:cacheprovider", "-p", "vlib.pytest_plugin", "--timeout=900",
                            "--continue-on-collection-errors", "-n", str(jobs)], cwd=REPO, env=env, capture_output=True, text=True, timeout=timeout)
        ctx.obs(kind="suite_pytest", rc=p.returncode, tail=p.stdout.strip().splitlines()[-1:] if p.stdout.strip() else [])
    except subprocess.TimeoutExpired:
        ctx.ctr("suite_timeout")
        return
    n = 0
    for f in glob.glob(log + ".*"):
        with open(f, encoding="utf-8") as fh:
            for line in fh:
                try:
                    r = json.loads(line)
                except ValueError:
                    continue
                if "monitor_error" in r:
                    ctx.ctr("suite_monitor_errors")
                    ctx.obs(kind="suite_monitor_error", test=r["test"], err=r["monitor_error"])
                    continue
                if prop not in r["v"]:
                    continue
                n += 1
                ctx.ctr("suite_conversions_judged")
                if prop == "C03" and "subst_evals" in r:
                    ctx.ctr("suite_subst_hook_evals_seen", 1)
                ctx.case(sig=f"suite|{r['test']}|{r['chars']}|{r['pretty']}")
                for key, what in r["v"][prop]:
                    ctx.viol(f"suite:{key}", f"[{r['test']}] {what}", {"test": r["test"], "xform_head": r.get("xform_head", "")[:2000], "klass": "suite"})
        os.unlink(f)
    try:
        os.rmdir(d)
    except OSError:
        pass
    return n


def replay(prop, w):
    """Re-run the one repository test whose conversion violated the invariant, with the plugin on."""
    from . import common
    test = (w.get("witness") or {}).get("test", "")
    print(f"replaying {prop} W-suite witness: {test}")
    d = tempfile.mkdtemp(prefix="wsuite_")
    log = os.path.join(d, "suite.jsonl")
    env = dict(os.environ)
    env["VERIF_SUITE_LOG"] = log
    env["PYTHONPATH"] = os.pathsep.join([REPO, VERIF, os.path.join(VERIF, ".deps")])
    subprocess.run([PY, "-m", "pytest", "-q", "-p", "no:cacheprovider", "-p", "vlib.pytest_plugin", test], cwd=REPO, env=env, capture_output=True, text=True, timeout=600)
    bad = 0
    for f in glob.glob(log + ".*"):
        for line in open(f, encoding="utf-8"):
            r = json.loads(line)
            for key, what in r.get("v", {}).get(prop, []):
                print(f"  reproduced: {key} :: {what[:300]}")
                bad += 1
        os.unlink(f)
    os.rmdir(d)
    if bad:
        print(f"VIOLATION property={prop} replay=(this file)")
        return 1
    print("not reproduced on the current tree")
    return 0
